//! Scalar definitions of the rten-simd primitives, written from the trait doc
//! comments in rten-simd/src/ops.rs (not from the per-ISA implementations).
//!
//! Where the documentation leaves a result open, the expected value carries a
//! mode saying how strictly it is compared:
//!
//!  * EXACT   the lane must have exactly this bit pattern (for float results
//!            any NaN equals any NaN: IEEE leaves sign/payload open)
//!  * EITHER  one of two bit patterns (`mul_add` "may use one or two
//!            roundings"; sign of zero where the default implementation in
//!            the trait and a sign-bit implementation legitimately differ)
//!  * VALEQ   numerically equal f32 (sign of zero not compared)
//!  * TOL     |got - e1| <= e2 (f32 horizontal sum: order is not documented)
//!  * CROSS   no scalar definition (e.g. `neg(i32::MIN)`), but all ISAs must
//!            agree bit for bit
//!  * UNSPEC  nothing is promised (float min/max with NaN, float->int
//!            conversion out of range); counted, not checked
use rten_simd::f16;

use crate::common::{Buf, El};
use crate::prims::Op;

pub const EXACT: u8 = 0;
pub const EITHER: u8 = 1;
pub const UNSPEC: u8 = 2;
pub const CROSS: u8 = 3;
pub const VALEQ: u8 = 4;
pub const TOL: u8 = 5;

#[derive(Clone, Copy, PartialEq, Debug)]
pub enum Cmp {
    Raw,
    NanF32,
    NanF16,
}

pub struct Expect {
    pub e1: Buf,
    pub e2: Buf,
    /// Mode per output lane.
    pub mode: Vec<u8>,
    /// Expected mask / bool outputs (one per input lane) and their modes.
    pub em: Vec<u8>,
    pub mmode: Vec<u8>,
    /// Number of output lanes in `out` to compare and their size in bytes.
    pub n_out: usize,
    pub out_size: usize,
    pub cmp: Cmp,
    pub check_mask: bool,
}

impl Expect {
    pub fn new(n: usize) -> Expect {
        Expect {
            e1: Buf::bytes(n * 4),
            e2: Buf::bytes(n * 4),
            mode: vec![EXACT; n * 2],
            em: vec![0; n],
            mmode: vec![EXACT; n],
            n_out: 0,
            out_size: 1,
            cmp: Cmp::Raw,
            check_mask: false,
        }
    }

    fn reset<T: El>(&mut self, n: usize) {
        self.n_out = n;
        self.out_size = T::BYTES;
        self.cmp = Cmp::Raw;
        self.check_mask = false;
        self.mode[..2 * n].fill(EXACT);
        self.em[..n].fill(0);
        self.mmode[..n].fill(EXACT);
    }
}

pub trait Oracle: El {
    /// Operations to exercise for this element type.
    fn ops() -> Vec<Op>;
    /// Fill `ex` with the expected outputs of `op` applied vector by vector
    /// (vector length `l`) to `a`, `b`, `c`. Returns false if `op` is not
    /// defined for this type.
    fn expect(op: Op, l: usize, a: &[Self], b: &[Self], c: &[Self], ex: &mut Expect) -> bool;
}

fn sign_bit<T: El>(raw: u64) -> bool {
    (raw >> (8 * T::BYTES - 1)) & 1 == 1
}

/// "Bit pattern read as a signed integer is > 0" (how the harness builds
/// arbitrary masks).
fn pos<T: El>(x: T) -> bool {
    let r = x.raw();
    r != 0 && !sign_bit::<T>(r)
}

fn common_ops() -> Vec<Op> {
    vec![
        Op::Len,
        Op::Zero,
        Op::Splat,
        Op::Bcast(0),
        Op::Bcast(1),
        Op::Bcast(3),
        Op::And,
        Op::Or,
        Op::Xor,
        Op::Not,
        Op::FoldSplat,
        Op::FirstNMask,
        Op::Select,
        Op::LoadStore,
        Op::StoreUninit,
        Op::Many2,
        Op::LoadPadFull,
        Op::PtrMaskFull,
        Op::Bits,
        Op::MaskAnd,
        Op::MaskAny,
        Op::MaskAll,
        Op::MaskAllFalse,
    ]
}

fn num_ops() -> Vec<Op> {
    vec![
        Op::One,
        Op::Add,
        Op::Sub,
        Op::Mul,
        Op::MulAdd,
        Op::PolyEval,
        Op::Lt,
        Op::Le,
        Op::Eq,
        Op::Ge,
        Op::Gt,
        Op::Min,
        Op::Max,
        Op::Clamp,
        Op::Sum,
    ]
}

/// BitOps / MaskOps / Simd casts: defined on bit patterns, for every type.
fn bit_expect<T: El>(op: Op, l: usize, a: &[T], b: &[T], c: &[T], ex: &mut Expect) -> bool {
    let n = a.len();
    ex.reset::<T>(n);
    let mask_t = (1u128 << (8 * T::BYTES)) as u128 - 1;
    let trunc = |x: u64| T::from_raw((x as u128 & mask_t) as u64);
    match op {
        Op::Zero => {
            ex.e1.as_mut::<T>(n).fill(T::from_raw(0));
        }
        Op::Splat => {
            let e = ex.e1.as_mut::<T>(n);
            for i in 0..n {
                e[i] = a[i - i % l];
            }
        }
        Op::Bcast(k) => {
            let e = ex.e1.as_mut::<T>(n);
            for i in 0..n {
                e[i] = a[i - i % l + k as usize];
            }
        }
        Op::And | Op::Or | Op::Xor | Op::Not => {
            let e = ex.e1.as_mut::<T>(n);
            for i in 0..n {
                let (x, y) = (a[i].raw(), b[i].raw());
                e[i] = trunc(match op {
                    Op::And => x & y,
                    Op::Or => x | y,
                    Op::Xor => x ^ y,
                    _ => !x,
                });
            }
        }
        Op::FoldSplat => {
            let e = ex.e1.as_mut::<T>(n);
            for v in (0..n).step_by(l) {
                let mut acc = b[v].raw();
                for j in 0..l {
                    acc = trunc(acc.wrapping_add(a[v + j].raw())).raw();
                }
                e[v..v + l].fill(T::from_raw(acc));
            }
        }
        Op::FirstNMask => {
            ex.n_out = 0;
            ex.check_mask = true;
            for v in (0..n).step_by(l) {
                let k = (a[v].raw() % (l as u64 + 1)) as usize;
                for j in 0..l {
                    ex.em[v + j] = (j < k) as u8;
                }
            }
        }
        Op::Select => {
            let e = ex.e1.as_mut::<T>(n);
            for i in 0..n {
                e[i] = if pos(c[i]) { a[i] } else { b[i] };
            }
        }
        Op::LoadStore | Op::PtrMaskFull | Op::Bits => {
            ex.e1.as_mut::<T>(n).copy_from_slice(a);
        }
        Op::StoreUninit => {
            ex.e1.as_mut::<T>(n).copy_from_slice(a);
            ex.check_mask = true;
            for v in (0..n).step_by(l) {
                ex.em[v] = 1;
            }
        }
        Op::Many2 => {
            ex.e1.as_mut::<T>(n).copy_from_slice(a);
            ex.check_mask = true;
            for v in (0..n).step_by(2 * l) {
                ex.em[v] = 1;
            }
        }
        Op::LoadPadFull => {
            ex.e1.as_mut::<T>(n).copy_from_slice(a);
            ex.check_mask = true;
            ex.em[..n].fill(1);
        }
        Op::MaskAnd => {
            ex.n_out = 0;
            ex.check_mask = true;
            for i in 0..n {
                ex.em[i] = (pos(a[i]) && pos(b[i])) as u8;
            }
        }
        Op::MaskAny | Op::MaskAll | Op::MaskAllFalse => {
            ex.n_out = 0;
            ex.check_mask = true;
            for v in (0..n).step_by(l) {
                let lanes: Vec<bool> = if b[v].raw() & 1 == 1 {
                    let k = (a[v].raw() % (l as u64 + 1)) as usize;
                    (0..l).map(|j| j < k).collect()
                } else {
                    (0..l).map(|j| pos(a[v + j])).collect()
                };
                ex.em[v] = match op {
                    Op::MaskAny => lanes.iter().any(|x| *x),
                    Op::MaskAll => lanes.iter().all(|x| *x),
                    _ => !lanes.iter().any(|x| *x),
                } as u8;
            }
        }
        _ => return false,
    }
    true
}

// ---------------------------------------------------------------- integers

pub trait IntEl: El + Ord {
    const SIGNED: bool;
    const MINV: Self;
    const BITS: u32;
    fn wadd(self, o: Self) -> Self;
    fn wsub(self, o: Self) -> Self;
    fn wmul(self, o: Self) -> Self;
    fn shl(self, k: u32) -> Self;
    /// Arithmetic shift for signed types, logical for unsigned.
    fn shr(self, k: u32) -> Self;
    fn wneg(self) -> Self;
    fn wabs(self) -> Self;
    fn one_v() -> Self;
    fn zero_v() -> Self;
}

macro_rules! impl_int_el {
    ($t:ty, $signed:expr) => {
        impl IntEl for $t {
            const SIGNED: bool = $signed;
            const MINV: Self = <$t>::MIN;
            const BITS: u32 = <$t>::BITS;
            fn wadd(self, o: Self) -> Self {
                self.wrapping_add(o)
            }
            fn wsub(self, o: Self) -> Self {
                self.wrapping_sub(o)
            }
            fn wmul(self, o: Self) -> Self {
                self.wrapping_mul(o)
            }
            fn shl(self, k: u32) -> Self {
                assert!(k < <$t>::BITS);
                self << k
            }
            fn shr(self, k: u32) -> Self {
                assert!(k < <$t>::BITS);
                self >> k
            }
            fn wneg(self) -> Self {
                self.wrapping_neg()
            }
            fn wabs(self) -> Self {
                if $signed && self < (0 as $t) { self.wrapping_neg() } else { self }
            }
            fn one_v() -> Self {
                1
            }
            fn zero_v() -> Self {
                0
            }
        }
    };
}
impl_int_el!(i8, true);
impl_int_el!(i16, true);
impl_int_el!(i32, true);
impl_int_el!(u8, false);
impl_int_el!(u16, false);

/// NumOps / IntOps / SignedIntOps / Interleave / Concat on integer lanes.
/// Integer arithmetic wraps (documented for `sum`; the in-tree tests state it
/// for 8-bit `mul`; it is what every listed instruction does).
fn int_expect<T: IntEl>(op: Op, l: usize, a: &[T], b: &[T], c: &[T], ex: &mut Expect) -> bool {
    let n = a.len();
    ex.reset::<T>(n);
    let h = l / 2;
    match op {
        Op::One => ex.e1.as_mut::<T>(n).fill(T::one_v()),
        Op::Add | Op::Sub | Op::Mul | Op::Min | Op::Max => {
            let e = ex.e1.as_mut::<T>(n);
            for i in 0..n {
                e[i] = match op {
                    Op::Add => a[i].wadd(b[i]),
                    Op::Sub => a[i].wsub(b[i]),
                    Op::Mul => a[i].wmul(b[i]),
                    Op::Min => a[i].min(b[i]),
                    _ => a[i].max(b[i]),
                };
            }
        }
        Op::MulAdd => {
            let e = ex.e1.as_mut::<T>(n);
            for i in 0..n {
                e[i] = a[i].wmul(b[i]).wadd(c[i]);
            }
        }
        Op::PolyEval => {
            // x*k0 + x^2*k1 + x^3*k2 with k0 = b, k1 = c, k2 = 1.
            let e = ex.e1.as_mut::<T>(n);
            for i in 0..n {
                let x = a[i];
                let x2 = x.wmul(x);
                let x3 = x2.wmul(x);
                e[i] = x.wmul(b[i]).wadd(x2.wmul(c[i])).wadd(x3);
            }
        }
        Op::Lt | Op::Le | Op::Eq | Op::Ge | Op::Gt => {
            ex.n_out = 0;
            ex.check_mask = true;
            for i in 0..n {
                ex.em[i] = match op {
                    Op::Lt => a[i] < b[i],
                    Op::Le => a[i] <= b[i],
                    Op::Eq => a[i] == b[i],
                    Op::Ge => a[i] >= b[i],
                    _ => a[i] > b[i],
                } as u8;
            }
        }
        Op::Clamp => {
            let e = ex.e1.as_mut::<T>(n);
            for i in 0..n {
                if b[i] <= c[i] {
                    e[i] = a[i].max(b[i]).min(c[i]);
                } else {
                    // min > max: "clamp to min and max" has no meaning.
                    ex.mode[i] = CROSS;
                }
            }
        }
        Op::Sum => {
            let e = ex.e1.as_mut::<T>(n);
            e.fill(T::zero_v());
            for v in (0..n).step_by(l) {
                let mut s = T::zero_v();
                for j in 0..l {
                    s = s.wadd(a[v + j]);
                }
                e[v] = s;
            }
        }
        Op::Shl(k) | Op::Shr(k) => {
            if k as u32 >= T::BITS {
                return false;
            }
            let e = ex.e1.as_mut::<T>(n);
            for i in 0..n {
                e[i] = if matches!(op, Op::Shl(_)) { a[i].shl(k as u32) } else { a[i].shr(k as u32) };
            }
        }
        Op::INeg | Op::IAbs => {
            if !T::SIGNED {
                return false;
            }
            let e = ex.e1.as_mut::<T>(n);
            for i in 0..n {
                e[i] = if op == Op::INeg { a[i].wneg() } else { a[i].wabs() };
                if a[i] == T::MINV {
                    // -MIN is not representable; nothing documented.
                    ex.mode[i] = CROSS;
                }
            }
        }
        Op::InterleaveLow | Op::InterleaveHigh => {
            let e = ex.e1.as_mut::<T>(n);
            let start = if op == Op::InterleaveLow { 0 } else { h };
            for v in (0..n).step_by(l) {
                for j in 0..l {
                    let src = if j % 2 == 0 { a } else { b };
                    e[v + j] = src[v + start + j / 2];
                }
            }
        }
        Op::ConcatLow | Op::ConcatHigh => {
            let e = ex.e1.as_mut::<T>(n);
            let start = if op == Op::ConcatLow { 0 } else { h };
            for v in (0..n).step_by(l) {
                for j in 0..l {
                    e[v + j] = if j < h { a[v + start + j] } else { b[v + start + j - h] };
                }
            }
        }
        _ => return false,
    }
    true
}

/// Extend: lanes of the low / high half, widened with the same signedness.
fn extend_expect<T: El, W: El>(op: Op, l: usize, a: &[T], ex: &mut Expect, widen: impl Fn(T) -> W) -> bool {
    let n = a.len();
    let h = l / 2;
    let start = match op {
        Op::ExtendLow => 0,
        Op::ExtendHigh => h,
        _ => return false,
    };
    ex.reset::<T>(n);
    ex.n_out = n / 2;
    ex.out_size = W::BYTES;
    let e = ex.e1.as_mut::<W>(n / 2);
    for v in (0..n).step_by(l) {
        for j in 0..h {
            e[v / 2 + j] = widen(a[v + start + j]);
        }
    }
    true
}

/// NarrowSaturate: narrowed lanes of `low` (from a) followed by those of
/// `high` (from b).
fn narrow_expect<T: El, U: El>(l: usize, a: &[T], b: &[T], ex: &mut Expect, narrow: impl Fn(T) -> U) {
    let n = a.len();
    ex.reset::<T>(n);
    ex.n_out = 2 * n;
    ex.out_size = U::BYTES;
    let e = ex.e1.as_mut::<U>(2 * n);
    for v in (0..n).step_by(l) {
        for j in 0..l {
            e[2 * v + j] = narrow(a[v + j]);
            e[2 * v + l + j] = narrow(b[v + j]);
        }
    }
}

fn int_type_ops<T: IntEl>() -> Vec<Op> {
    let mut ops = common_ops();
    ops.extend(num_ops());
    for k in [0u8, 1, 3, 7, 15, 23, 31] {
        if (k as u32) < T::BITS {
            ops.push(Op::Shl(k));
            ops.push(Op::Shr(k));
        }
    }
    if T::SIGNED {
        ops.push(Op::INeg);
        ops.push(Op::IAbs);
    }
    ops
}

impl Oracle for i8 {
    fn ops() -> Vec<Op> {
        let mut ops = int_type_ops::<i8>();
        ops.extend([Op::ExtendLow, Op::ExtendHigh, Op::InterleaveLow, Op::InterleaveHigh]);
        ops
    }
    fn expect(op: Op, l: usize, a: &[i8], b: &[i8], c: &[i8], ex: &mut Expect) -> bool {
        bit_expect(op, l, a, b, c, ex)
            || int_expect(op, l, a, b, c, ex)
            || extend_expect(op, l, a, ex, |x| x as i16)
    }
}

impl Oracle for u8 {
    fn ops() -> Vec<Op> {
        let mut ops = int_type_ops::<u8>();
        ops.extend([Op::ExtendLow, Op::ExtendHigh, Op::InterleaveLow, Op::InterleaveHigh]);
        ops
    }
    fn expect(op: Op, l: usize, a: &[u8], b: &[u8], c: &[u8], ex: &mut Expect) -> bool {
        bit_expect(op, l, a, b, c, ex)
            || int_expect(op, l, a, b, c, ex)
            || extend_expect(op, l, a, ex, |x| x as u16)
    }
}

impl Oracle for i16 {
    fn ops() -> Vec<Op> {
        let mut ops = int_type_ops::<i16>();
        ops.extend([Op::ExtendLow, Op::ExtendHigh, Op::InterleaveLow, Op::InterleaveHigh, Op::NarrowSat]);
        ops
    }
    fn expect(op: Op, l: usize, a: &[i16], b: &[i16], c: &[i16], ex: &mut Expect) -> bool {
        if op == Op::NarrowSat {
            // "x.clamp(U::MIN as T, U::MAX as T) as U"
            narrow_expect(l, a, b, ex, |x: i16| x.clamp(0, 255) as u8);
            return true;
        }
        if matches!(op, Op::ConcatLow | Op::ConcatHigh) {
            return false;
        }
        bit_expect(op, l, a, b, c, ex)
            || int_expect(op, l, a, b, c, ex)
            || extend_expect(op, l, a, ex, |x| x as i32)
    }
}

impl Oracle for u16 {
    fn ops() -> Vec<Op> {
        int_type_ops::<u16>()
    }
    fn expect(op: Op, l: usize, a: &[u16], b: &[u16], c: &[u16], ex: &mut Expect) -> bool {
        if matches!(op, Op::ConcatLow | Op::ConcatHigh | Op::InterleaveLow | Op::InterleaveHigh) {
            return false;
        }
        bit_expect(op, l, a, b, c, ex) || int_expect(op, l, a, b, c, ex)
    }
}

impl Oracle for i32 {
    fn ops() -> Vec<Op> {
        let mut ops = int_type_ops::<i32>();
        ops.extend([Op::ConcatLow, Op::ConcatHigh, Op::NarrowSat, Op::ToFloat, Op::Reinterpret]);
        ops
    }
    fn expect(op: Op, l: usize, a: &[i32], b: &[i32], c: &[i32], ex: &mut Expect) -> bool {
        let n = a.len();
        match op {
            Op::NarrowSat => {
                narrow_expect(l, a, b, ex, |x: i32| x.clamp(i16::MIN as i32, i16::MAX as i32) as i16);
                true
            }
            Op::ToFloat => {
                // "Convert each lane to a float with the same bit width":
                // round to nearest even like `as f32`.
                ex.reset::<i32>(n);
                ex.cmp = Cmp::NanF32;
                let e = ex.e1.as_mut::<u32>(n);
                for i in 0..n {
                    e[i] = (a[i] as f32).to_bits();
                }
                true
            }
            Op::Reinterpret => {
                ex.reset::<i32>(n);
                ex.e1.as_mut::<i32>(n).copy_from_slice(a);
                true
            }
            Op::InterleaveLow | Op::InterleaveHigh => false,
            _ => bit_expect(op, l, a, b, c, ex) || int_expect(op, l, a, b, c, ex),
        }
    }
}

// ---------------------------------------------------------------- f16

/// f16 -> f32, exact. Written independently of `rten_simd::f16::to_f32`.
pub fn f16_to_f32_ref(h: u16) -> f32 {
    let sign = ((h >> 15) & 1) as u32;
    let exp = ((h >> 10) & 0x1f) as u32;
    let man = (h & 0x3ff) as u32;
    let mag = if exp == 0 {
        // zero / subnormal: man * 2^-24, exact in f32
        man as f32 * f32::from_bits((127 - 24) << 23)
    } else if exp == 31 {
        if man == 0 { f32::INFINITY } else { f32::NAN }
    } else {
        f32::from_bits(((exp + 112) << 23) | (man << 13))
    };
    if sign == 1 { -mag } else { mag }
}

/// f32 -> f16 with round-to-nearest-even, overflow to infinity. Written
/// independently of `rten_simd::f16::from_f32`.
pub fn f32_to_f16_ref(x: f32) -> u16 {
    let b = x.to_bits();
    let sign = ((b >> 16) & 0x8000) as u16;
    let abs = b & 0x7fff_ffff;
    if abs > 0x7f80_0000 {
        return sign | 0x7e00;
    }
    let ax = f32::from_bits(abs);
    if ax >= 65520.0 {
        // At or above the midpoint between the largest f16 (65504) and 2^16.
        return sign | 0x7c00;
    }
    if ax < f32::from_bits((127 - 14) << 23) {
        // Below the smallest normal f16 (2^-14): multiples of 2^-24.
        let q = ax * f32::from_bits((127 + 24) << 23);
        return sign | q.round_ties_even() as u16;
    }
    let e = (abs >> 23) as i32 - 127;
    let m = abs & 0x7f_ffff;
    let half = m >> 13;
    let rem = m & 0x1fff;
    let up = rem > 0x1000 || (rem == 0x1000 && half & 1 == 1);
    sign | ((((e + 15) as u32) << 10 | half) + up as u32) as u16
}

impl Oracle for f16 {
    fn ops() -> Vec<Op> {
        let mut ops = common_ops();
        ops.extend([Op::ExtendLow, Op::ExtendHigh]);
        ops
    }
    fn expect(op: Op, l: usize, a: &[f16], b: &[f16], c: &[f16], ex: &mut Expect) -> bool {
        if matches!(op, Op::ExtendLow | Op::ExtendHigh) {
            let n = a.len();
            let h = l / 2;
            let start = if op == Op::ExtendLow { 0 } else { h };
            ex.reset::<f16>(n);
            ex.n_out = n / 2;
            ex.out_size = 4;
            ex.cmp = Cmp::NanF32;
            let e = ex.e1.as_mut::<u32>(n / 2);
            for v in (0..n).step_by(l) {
                for j in 0..h {
                    e[v / 2 + j] = f16_to_f32_ref(a[v + start + j].to_bits()).to_bits();
                }
            }
            return true;
        }
        bit_expect(op, l, a, b, c, ex)
    }
}

// ---------------------------------------------------------------- f32

fn f32_in_i32_range(x: f32) -> bool {
    // -2^31 <= x < 2^31 (both bounds are exact f32 values)
    x >= -2147483648.0 && x < 2147483648.0
}

impl Oracle for f32 {
    fn ops() -> Vec<Op> {
        let mut ops = common_ops();
        ops.extend(num_ops());
        ops.extend([
            Op::Div,
            Op::Recip,
            Op::FNeg,
            Op::FAbs,
            Op::RoundTiesEven,
            Op::MulSubFrom,
            Op::ToIntTrunc,
            Op::ToIntRound,
            Op::NarrowSat,
            Op::Reinterpret,
        ]);
        ops
    }

    fn expect(op: Op, l: usize, a: &[f32], b: &[f32], c: &[f32], ex: &mut Expect) -> bool {
        let n = a.len();
        if bit_expect(op, l, a, b, c, ex) {
            return true;
        }
        ex.reset::<f32>(n);
        ex.cmp = Cmp::NanF32;
        match op {
            Op::One => ex.e1.as_mut::<f32>(n).fill(1.0),
            Op::Add | Op::Sub | Op::Mul | Op::Div => {
                let e = ex.e1.as_mut::<f32>(n);
                for i in 0..n {
                    e[i] = match op {
                        Op::Add => a[i] + b[i],
                        Op::Sub => a[i] - b[i],
                        Op::Mul => a[i] * b[i],
                        _ => a[i] / b[i],
                    };
                }
            }
            Op::Recip => {
                let e = ex.e1.as_mut::<f32>(n);
                for i in 0..n {
                    e[i] = 1.0 / a[i];
                }
            }
            Op::MulAdd => {
                // "For float element types, this may use one or two roundings."
                ex.mode[..n].fill(EITHER);
                for i in 0..n {
                    ex.e1.as_mut::<f32>(n)[i] = a[i].mul_add(b[i], c[i]);
                    ex.e2.as_mut::<f32>(n)[i] = a[i] * b[i] + c[i];
                }
            }
            Op::MulSubFrom => {
                // "Compute c - a * b", fused (fnmadd) or not.
                ex.mode[..n].fill(EITHER);
                for i in 0..n {
                    ex.e1.as_mut::<f32>(n)[i] = (-a[i]).mul_add(b[i], c[i]);
                    ex.e2.as_mut::<f32>(n)[i] = c[i] - a[i] * b[i];
                }
            }
            Op::PolyEval => {
                // Horner, as documented, built from mul_add: every step fused
                // or every step unfused.
                ex.mode[..n].fill(EITHER);
                for i in 0..n {
                    let x = a[i];
                    let (k0, k1, k2) = (b[i], c[i], 1.0f32);
                    let y = k2.mul_add(x, k1);
                    let y = y.mul_add(x, k0);
                    ex.e1.as_mut::<f32>(n)[i] = y * x;
                    let y = k2 * x + k1;
                    let y = y * x + k0;
                    ex.e2.as_mut::<f32>(n)[i] = y * x;
                }
            }
            Op::Lt | Op::Le | Op::Eq | Op::Ge | Op::Gt => {
                ex.n_out = 0;
                ex.check_mask = true;
                for i in 0..n {
                    ex.em[i] = match op {
                        Op::Lt => a[i] < b[i],
                        Op::Le => a[i] <= b[i],
                        Op::Eq => a[i] == b[i],
                        Op::Ge => a[i] >= b[i],
                        _ => a[i] > b[i],
                    } as u8;
                }
            }
            Op::Min | Op::Max => {
                let e = ex.e1.as_mut::<f32>(n);
                for i in 0..n {
                    if a[i].is_nan() || b[i].is_nan() {
                        // NaN handling of min/max differs between ISAs by design
                        // ("performance portable" semantics, lib.rs).
                        ex.mode[i] = UNSPEC;
                    } else {
                        ex.mode[i] = VALEQ;
                        e[i] = if op == Op::Min {
                            if a[i] < b[i] { a[i] } else { b[i] }
                        } else if a[i] > b[i] {
                            a[i]
                        } else {
                            b[i]
                        };
                    }
                }
            }
            Op::Clamp => {
                let e = ex.e1.as_mut::<f32>(n);
                for i in 0..n {
                    if a[i].is_nan() || b[i].is_nan() || c[i].is_nan() || b[i] > c[i] {
                        ex.mode[i] = UNSPEC;
                    } else {
                        ex.mode[i] = VALEQ;
                        let lo = if a[i] > b[i] { a[i] } else { b[i] };
                        e[i] = if lo < c[i] { lo } else { c[i] };
                    }
                }
            }
            Op::Sum => {
                // The order of a horizontal float sum is not documented:
                // compare against the f64 sum with the standard forward bound.
                ex.e1.as_mut::<f32>(n).fill(0.0);
                ex.e2.as_mut::<f32>(n).fill(0.0);
                for v in (0..n).step_by(l) {
                    let lanes = &a[v..v + l];
                    let any_nan = lanes.iter().any(|x| x.is_nan());
                    let sum_abs: f64 = lanes.iter().map(|x| x.abs() as f64).sum();
                    if any_nan {
                        ex.e1.as_mut::<f32>(n)[v] = f32::NAN;
                    } else if !(sum_abs < f32::MAX as f64) {
                        // infinities or possible intermediate overflow
                        ex.mode[v] = UNSPEC;
                    } else {
                        let s: f64 = lanes.iter().map(|x| *x as f64).sum();
                        ex.mode[v] = TOL;
                        ex.e1.as_mut::<f32>(n)[v] = s as f32;
                        let tol = l as f64 * 1.2e-7 * sum_abs + 1e-44;
                        ex.e2.as_mut::<f32>(n)[v] = tol as f32;
                    }
                }
            }
            Op::FNeg => {
                // "Compute -x": the trait's default is `0 - x` (gives +0 for
                // +0), implementations may flip the sign bit (-0).
                ex.mode[..n].fill(EITHER);
                for i in 0..n {
                    ex.e1.as_mut::<f32>(n)[i] = -a[i];
                    ex.e2.as_mut::<f32>(n)[i] = 0.0 - a[i];
                }
            }
            Op::FAbs => {
                // Clearing the sign bit, or the trait's default
                // `select(-x, x, x < 0)` (keeps -0).
                ex.mode[..n].fill(EITHER);
                for i in 0..n {
                    ex.e1.as_mut::<f32>(n)[i] = a[i].abs();
                    ex.e2.as_mut::<f32>(n)[i] = if a[i] < 0.0 { -a[i] } else { a[i] };
                }
            }
            Op::RoundTiesEven => {
                let e = ex.e1.as_mut::<f32>(n);
                for i in 0..n {
                    e[i] = a[i].round_ties_even();
                }
            }
            Op::ToIntTrunc | Op::ToIntRound => {
                ex.cmp = Cmp::Raw;
                let e = ex.e1.as_mut::<i32>(n);
                for i in 0..n {
                    let r = if op == Op::ToIntTrunc { a[i].trunc() } else { a[i].round_ties_even() };
                    if f32_in_i32_range(r) {
                        e[i] = r as i32;
                    } else {
                        // NaN / out of range: nothing documented.
                        ex.mode[i] = UNSPEC;
                    }
                }
            }
            Op::NarrowSat => {
                narrow_expect(l, a, b, ex, |x: f32| f16::from_bits(f32_to_f16_ref(x)));
                ex.cmp = Cmp::NanF16;
            }
            Op::Reinterpret => {
                ex.cmp = Cmp::Raw;
                ex.e1.as_mut::<f32>(n).copy_from_slice(a);
            }
            _ => return false,
        }
        true
    }
}
