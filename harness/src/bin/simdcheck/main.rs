//! simdcheck: runtime monitors for rten-simd and rten-vecmath (C18 C19).
//!
//!   simdcheck isa    C18  every SIMD primitive x element type x ISA vs scalar
//!                         definitions and across ISAs; slice helpers under
//!                         guard pages
//!   simdcheck math   C19  vectorised math functions vs two references over
//!                         all f32 bit patterns; softmax invariants
use vcommon::*;

mod common;
mod isa;
mod math;
mod oracle;
mod prims;
mod slices;

fn main() {
    run_main(real_main)
}

fn real_main() {
    let args = Args::parse();
    match args.cmd.as_str() {
        "isa" => isa::run(&args),
        "math" => math::run(&args),
        other => {
            eprintln!("unknown sub-command {:?}", other);
            std::process::exit(3);
        }
    }
}
