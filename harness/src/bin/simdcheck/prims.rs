//! Harness `SimdOp`s which apply each primitive of the public rten-simd
//! traits to input arrays, vector by vector, and write the resulting lanes to
//! an output array.
use std::mem::MaybeUninit;

use rten_simd::ops::{
    BitOps, Concat, Extend, FloatOps, IntOps, Interleave, MaskOps, NarrowSaturate, NumOps,
    SignedIntOps, ToFloat,
};
use rten_simd::{Isa, Mask, Simd, SimdOp, f16};

use crate::common::{El, cast_slice, cast_slice_mut};

#[derive(Clone, Copy, PartialEq, Eq, Hash, Debug, PartialOrd, Ord)]
pub enum Op {
    // BitOps
    Len,
    Zero,
    Splat,
    Bcast(u8),
    And,
    Or,
    Xor,
    Not,
    FoldSplat,
    FirstNMask,
    Select,
    LoadStore,
    StoreUninit,
    Many2,
    LoadPadFull,
    PtrMaskFull,
    Bits,
    // NumOps
    One,
    Add,
    Sub,
    Mul,
    MulAdd,
    PolyEval,
    Lt,
    Le,
    Eq,
    Ge,
    Gt,
    Min,
    Max,
    Clamp,
    Sum,
    // FloatOps
    Div,
    Recip,
    FNeg,
    FAbs,
    RoundTiesEven,
    MulSubFrom,
    ToIntTrunc,
    ToIntRound,
    // IntOps
    Shl(u8),
    Shr(u8),
    // SignedIntOps
    INeg,
    IAbs,
    // single-trait ops
    ExtendLow,
    ExtendHigh,
    InterleaveLow,
    InterleaveHigh,
    ConcatLow,
    ConcatHigh,
    ToFloat,
    NarrowSat,
    // MaskOps
    MaskAnd,
    MaskAny,
    MaskAll,
    MaskAllFalse,
    // Simd::reinterpret_cast between f32 and i32 vectors
    Reinterpret,
}

impl Op {
    /// `<trait>.<op>` name used in signatures.
    pub fn name(self) -> String {
        match self {
            Op::Len => "BitOps.len".into(),
            Op::Zero => "BitOps.zero".into(),
            Op::Splat => "BitOps.splat".into(),
            Op::Bcast(k) => format!("BitOps.broadcast_lane<{}>", k),
            Op::And => "BitOps.and".into(),
            Op::Or => "BitOps.or".into(),
            Op::Xor => "BitOps.xor".into(),
            Op::Not => "BitOps.not".into(),
            Op::FoldSplat => "BitOps.fold_splat".into(),
            Op::FirstNMask => "BitOps.first_n_mask".into(),
            Op::Select => "BitOps.select".into(),
            Op::LoadStore => "BitOps.load+store".into(),
            Op::StoreUninit => "BitOps.load_ptr+store_uninit".into(),
            Op::Many2 => "BitOps.load_many+store_many_uninit".into(),
            Op::LoadPadFull => "BitOps.load_pad".into(),
            Op::PtrMaskFull => "BitOps.load_ptr_mask+store_ptr_mask".into(),
            Op::Bits => "Simd.to_bits+from_bits+same_cast".into(),
            Op::One => "NumOps.one".into(),
            Op::Add => "NumOps.add".into(),
            Op::Sub => "NumOps.sub".into(),
            Op::Mul => "NumOps.mul".into(),
            Op::MulAdd => "NumOps.mul_add".into(),
            Op::PolyEval => "NumOps.poly_eval".into(),
            Op::Lt => "NumOps.lt".into(),
            Op::Le => "NumOps.le".into(),
            Op::Eq => "NumOps.eq".into(),
            Op::Ge => "NumOps.ge".into(),
            Op::Gt => "NumOps.gt".into(),
            Op::Min => "NumOps.min".into(),
            Op::Max => "NumOps.max".into(),
            Op::Clamp => "NumOps.clamp".into(),
            Op::Sum => "NumOps.sum".into(),
            Op::Div => "FloatOps.div".into(),
            Op::Recip => "FloatOps.reciprocal".into(),
            Op::FNeg => "FloatOps.neg".into(),
            Op::FAbs => "FloatOps.abs".into(),
            Op::RoundTiesEven => "FloatOps.round_ties_even".into(),
            Op::MulSubFrom => "FloatOps.mul_sub_from".into(),
            Op::ToIntTrunc => "FloatOps.to_int_trunc".into(),
            Op::ToIntRound => "FloatOps.to_int_round".into(),
            Op::Shl(k) => format!("IntOps.shift_left<{}>", k),
            Op::Shr(k) => format!("IntOps.shift_right<{}>", k),
            Op::INeg => "SignedIntOps.neg".into(),
            Op::IAbs => "SignedIntOps.abs".into(),
            Op::ExtendLow => "Extend.extend_low".into(),
            Op::ExtendHigh => "Extend.extend_high".into(),
            Op::InterleaveLow => "Interleave.interleave_low".into(),
            Op::InterleaveHigh => "Interleave.interleave_high".into(),
            Op::ConcatLow => "Concat.concat_low".into(),
            Op::ConcatHigh => "Concat.concat_high".into(),
            Op::ToFloat => "ToFloat.to_float".into(),
            Op::NarrowSat => "NarrowSaturate.narrow_saturate".into(),
            Op::MaskAnd => "MaskOps.and".into(),
            Op::MaskAny => "MaskOps.any".into(),
            Op::MaskAll => "MaskOps.all".into(),
            Op::MaskAllFalse => "MaskOps.all_false".into(),
            Op::Reinterpret => "Simd.reinterpret_cast".into(),
        }
    }
}

/// Inputs and outputs of one bulk evaluation. All input slices have the same
/// length, a multiple of 128 elements (so a multiple of twice any vector
/// length). `out` has the same length (and is reinterpreted for ops whose
/// output lanes have a different width); `outm` receives mask lanes / bools.
pub struct Io<'a, T: El> {
    pub op: Op,
    pub a: &'a [T],
    pub b: &'a [T],
    pub c: &'a [T],
    pub out: &'a mut [T],
    pub outm: &'a mut [u8],
}

pub struct Bulk<'a, T: El>(pub Io<'a, T>);

#[inline(always)]
fn uninit<T>(xs: &mut [T]) -> &mut [MaybeUninit<T>] {
    // Safety: MaybeUninit<T> has the same layout as T; we only write.
    unsafe { std::mem::transmute::<&mut [T], &mut [MaybeUninit<T>]>(xs) }
}

#[inline(always)]
fn put_mask<M: Mask>(m: M, l: usize, dst: &mut [u8]) {
    let arr = m.to_array();
    let s = arr.as_ref();
    for j in 0..l {
        dst[j] = s[j] as u8;
    }
}

/// Arms for `BitOps` (+ `MaskOps` when `with_mask_ops`). `mo` provides integer
/// comparisons on the same-width signed integer type, used only to construct
/// arbitrary masks from the bit patterns of an input array.
#[inline(always)]
fn bit_arms<T, O, MT, M, K>(ops: O, mo: M, mk: K, io: &mut Io<T>) -> bool
where
    T: El,
    MT: El,
    O: BitOps<T>,
    M: NumOps<MT>,
    M::Simd: Simd<Mask = <O::Simd as Simd>::Mask>,
    K: MaskOps<<O::Simd as Simd>::Mask>,
{
    let l = ops.len();
    let n = io.a.len();
    macro_rules! un {
        ($f:expr) => {{
            let mut i = 0;
            while i + l <= n {
                let x = ops.load(&io.a[i..]);
                let r = $f(x, i);
                ops.store(r, &mut io.out[i..]);
                i += l;
            }
            true
        }};
    }
    macro_rules! bin {
        ($f:expr) => {{
            let mut i = 0;
            while i + l <= n {
                let x = ops.load(&io.a[i..]);
                let y = ops.load(&io.b[i..]);
                let r = $f(x, y, i);
                ops.store(r, &mut io.out[i..]);
                i += l;
            }
            true
        }};
    }
    // Mask with lane j set iff the bit pattern of `src[i + j]`, read as a
    // signed integer, is > 0.
    macro_rules! mask_from {
        ($src:expr, $i:expr) => {{
            let bits: &[MT] = cast_slice::<T, MT>($src);
            mo.gt(mo.load(&bits[$i..]), mo.zero())
        }};
    }
    match io.op {
        Op::Zero => un!(|_x, _i| ops.zero()),
        Op::Splat => un!(|_x, i: usize| ops.splat(io.a[i])),
        Op::Bcast(0) => un!(|x, _i| ops.broadcast_lane::<0>(x)),
        Op::Bcast(1) => un!(|x, _i| ops.broadcast_lane::<1>(x)),
        Op::Bcast(3) => un!(|x, _i| ops.broadcast_lane::<3>(x)),
        Op::And => bin!(|x, y, _i| ops.and(x, y)),
        Op::Or => bin!(|x, y, _i| ops.or(x, y)),
        Op::Xor => bin!(|x, y, _i| ops.xor(x, y)),
        Op::Not => un!(|x, _i| ops.not(x)),
        Op::FoldSplat => un!(|x, i: usize| ops.fold_splat(x, io.b[i], |acc: T, v: T| T::from_raw(
            acc.raw().wrapping_add(v.raw())
        ))),
        Op::FirstNMask => {
            let mut i = 0;
            while i + l <= n {
                let k = (io.a[i].raw() % (l as u64 + 1)) as usize;
                put_mask(ops.first_n_mask(k), l, &mut io.outm[i..]);
                i += l;
            }
            true
        }
        Op::Select => bin!(|x, y, i: usize| {
            let m = mask_from!(io.c, i);
            ops.select(x, y, m)
        }),
        Op::LoadStore => un!(|x, _i| x),
        Op::StoreUninit => {
            let mut i = 0;
            while i + l <= n {
                // Safety: `a[i..]` has at least `l` elements.
                let x = unsafe { ops.load_ptr(io.a[i..].as_ptr()) };
                let written = ops.store_uninit(x, uninit(&mut io.out[i..]));
                io.outm[i] = (written.len() == l) as u8;
                i += l;
            }
            true
        }
        Op::Many2 => {
            let mut i = 0;
            while i + 2 * l <= n {
                let v = ops.load_many::<2>(&io.a[i..]);
                let written = ops.store_many_uninit(v, uninit(&mut io.out[i..]));
                io.outm[i] = (written.len() == 2 * l) as u8;
                i += 2 * l;
            }
            true
        }
        Op::LoadPadFull => {
            let mut i = 0;
            while i + l <= n {
                let (x, m) = ops.load_pad(&io.a[i..]);
                ops.store(x, &mut io.out[i..]);
                put_mask(m, l, &mut io.outm[i..]);
                i += l;
            }
            true
        }
        Op::PtrMaskFull => {
            let mut i = 0;
            while i + l <= n {
                let m = ops.first_n_mask(l);
                // Safety: all `l` lanes are in bounds.
                unsafe {
                    let x = ops.load_ptr_mask(io.a[i..].as_ptr(), m);
                    ops.store_ptr_mask(x, io.out[i..].as_mut_ptr(), m);
                }
                i += l;
            }
            true
        }
        Op::Bits => un!(|x: O::Simd, _i| {
            let y = ops.from_bits(x.to_bits());
            y.same_cast::<O::Simd>()
        }),
        Op::MaskAnd => {
            let mut i = 0;
            while i + l <= n {
                let m1 = mask_from!(io.a, i);
                let m2 = mask_from!(io.b, i);
                put_mask(mk.and(m1, m2), l, &mut io.outm[i..]);
                i += l;
            }
            true
        }
        Op::MaskAny | Op::MaskAll | Op::MaskAllFalse => {
            let mut i = 0;
            while i + l <= n {
                // Half of the vectors use a prefix mask so that all-true and
                // all-false occur often; the others an arbitrary mask.
                let m = if io.b[i].raw() & 1 == 1 {
                    ops.first_n_mask((io.a[i].raw() % (l as u64 + 1)) as usize)
                } else {
                    mask_from!(io.a, i)
                };
                let r = match io.op {
                    Op::MaskAny => mk.any(m),
                    Op::MaskAll => mk.all(m),
                    _ => mk.all_false(m),
                };
                io.outm[i] = r as u8;
                i += l;
            }
            true
        }
        _ => false,
    }
}

#[inline(always)]
fn num_arms<T: El, O: NumOps<T>>(ops: O, io: &mut Io<T>) -> bool {
    let l = ops.len();
    let n = io.a.len();
    macro_rules! bin {
        ($f:expr) => {{
            let mut i = 0;
            while i + l <= n {
                let x = ops.load(&io.a[i..]);
                let y = ops.load(&io.b[i..]);
                let r = $f(x, y);
                ops.store(r, &mut io.out[i..]);
                i += l;
            }
            true
        }};
    }
    macro_rules! tern {
        ($f:expr) => {{
            let mut i = 0;
            while i + l <= n {
                let x = ops.load(&io.a[i..]);
                let y = ops.load(&io.b[i..]);
                let z = ops.load(&io.c[i..]);
                let r = $f(x, y, z);
                ops.store(r, &mut io.out[i..]);
                i += l;
            }
            true
        }};
    }
    macro_rules! cmp {
        ($f:expr) => {{
            let mut i = 0;
            while i + l <= n {
                let x = ops.load(&io.a[i..]);
                let y = ops.load(&io.b[i..]);
                put_mask($f(x, y), l, &mut io.outm[i..]);
                i += l;
            }
            true
        }};
    }
    match io.op {
        Op::One => bin!(|_x, _y| ops.one()),
        Op::Add => bin!(|x, y| ops.add(x, y)),
        Op::Sub => bin!(|x, y| ops.sub(x, y)),
        Op::Mul => bin!(|x, y| ops.mul(x, y)),
        Op::MulAdd => tern!(|x, y, z| ops.mul_add(x, y, z)),
        Op::PolyEval => tern!(|x, y, z| ops.poly_eval(x, &[y, z, ops.one()])),
        Op::Lt => cmp!(|x, y| ops.lt(x, y)),
        Op::Le => cmp!(|x, y| ops.le(x, y)),
        Op::Eq => cmp!(|x, y| ops.eq(x, y)),
        Op::Ge => cmp!(|x, y| ops.ge(x, y)),
        Op::Gt => cmp!(|x, y| ops.gt(x, y)),
        Op::Min => bin!(|x, y| ops.min(x, y)),
        Op::Max => bin!(|x, y| ops.max(x, y)),
        Op::Clamp => tern!(|x, y, z| ops.clamp(x, y, z)),
        Op::Sum => {
            let mut i = 0;
            while i + l <= n {
                let x = ops.load(&io.a[i..]);
                let s = ops.sum(x);
                for j in 0..l {
                    io.out[i + j] = T::default();
                }
                io.out[i] = s;
                i += l;
            }
            true
        }
        _ => false,
    }
}

#[inline(always)]
fn float_arms<O>(ops: O, io: &mut Io<f32>) -> bool
where
    O: FloatOps<f32>,
    O::Int: Simd<Elem = i32>,
{
    let l = ops.len();
    let n = io.a.len();
    macro_rules! un {
        ($f:expr) => {{
            let mut i = 0;
            while i + l <= n {
                let x = ops.load(&io.a[i..]);
                let r = $f(x);
                ops.store(r, &mut io.out[i..]);
                i += l;
            }
            true
        }};
    }
    macro_rules! to_int {
        ($f:expr) => {{
            let mut i = 0;
            while i + l <= n {
                let x = ops.load(&io.a[i..]);
                let r: O::Int = $f(x);
                let arr = r.to_array();
                for j in 0..l {
                    io.out[i + j] = f32::from_bits(arr[j] as u32);
                }
                i += l;
            }
            true
        }};
    }
    match io.op {
        Op::Div => {
            let mut i = 0;
            while i + l <= n {
                let x = ops.load(&io.a[i..]);
                let y = ops.load(&io.b[i..]);
                ops.store(ops.div(x, y), &mut io.out[i..]);
                i += l;
            }
            true
        }
        Op::MulSubFrom => {
            let mut i = 0;
            while i + l <= n {
                let x = ops.load(&io.a[i..]);
                let y = ops.load(&io.b[i..]);
                let z = ops.load(&io.c[i..]);
                ops.store(ops.mul_sub_from(x, y, z), &mut io.out[i..]);
                i += l;
            }
            true
        }
        Op::Recip => un!(|x| ops.reciprocal(x)),
        Op::FNeg => un!(|x| ops.neg(x)),
        Op::FAbs => un!(|x| ops.abs(x)),
        Op::RoundTiesEven => un!(|x| ops.round_ties_even(x)),
        Op::ToIntTrunc => to_int!(|x| ops.to_int_trunc(x)),
        Op::ToIntRound => to_int!(|x| ops.to_int_round(x)),
        _ => false,
    }
}

#[inline(always)]
fn int_arms<T: El, O: IntOps<T>>(ops: O, io: &mut Io<T>) -> bool {
    let l = ops.len();
    let n = io.a.len();
    macro_rules! un {
        ($f:expr) => {{
            let mut i = 0;
            while i + l <= n {
                let x = ops.load(&io.a[i..]);
                let r = $f(x);
                ops.store(r, &mut io.out[i..]);
                i += l;
            }
            true
        }};
    }
    match io.op {
        Op::Shl(0) => un!(|x| ops.shift_left::<0>(x)),
        Op::Shl(1) => un!(|x| ops.shift_left::<1>(x)),
        Op::Shl(3) => un!(|x| ops.shift_left::<3>(x)),
        Op::Shl(7) => un!(|x| ops.shift_left::<7>(x)),
        Op::Shl(15) => un!(|x| ops.shift_left::<15>(x)),
        Op::Shl(23) => un!(|x| ops.shift_left::<23>(x)),
        Op::Shl(31) => un!(|x| ops.shift_left::<31>(x)),
        Op::Shr(0) => un!(|x| ops.shift_right::<0>(x)),
        Op::Shr(1) => un!(|x| ops.shift_right::<1>(x)),
        Op::Shr(3) => un!(|x| ops.shift_right::<3>(x)),
        Op::Shr(7) => un!(|x| ops.shift_right::<7>(x)),
        Op::Shr(15) => un!(|x| ops.shift_right::<15>(x)),
        Op::Shr(23) => un!(|x| ops.shift_right::<23>(x)),
        Op::Shr(31) => un!(|x| ops.shift_right::<31>(x)),
        _ => false,
    }
}

#[inline(always)]
fn signed_arms<T: El, O: SignedIntOps<T>>(ops: O, io: &mut Io<T>) -> bool {
    let l = ops.len();
    let n = io.a.len();
    let neg = match io.op {
        Op::INeg => true,
        Op::IAbs => false,
        _ => return false,
    };
    let mut i = 0;
    while i + l <= n {
        let x = ops.load(&io.a[i..]);
        let r = if neg { ops.neg(x) } else { ops.abs(x) };
        ops.store(r, &mut io.out[i..]);
        i += l;
    }
    true
}

/// Extend: one input vector of `l` lanes -> `l / 2` lanes of twice the width,
/// written over the bytes of the corresponding output vector.
#[inline(always)]
fn extend_arms<T, W, O>(ops: O, io: &mut Io<T>) -> bool
where
    T: El,
    W: El,
    O: Extend<T>,
    O::Output: Simd<Elem = W>,
{
    let l = ops.len();
    let n = io.a.len();
    let low = match io.op {
        Op::ExtendLow => true,
        Op::ExtendHigh => false,
        _ => return false,
    };
    let outw: &mut [W] = cast_slice_mut::<T, W>(io.out);
    let mut i = 0;
    while i + l <= n {
        let x = ops.load(&io.a[i..]);
        let r = if low { ops.extend_low(x) } else { ops.extend_high(x) };
        let arr = r.to_array();
        for j in 0..l / 2 {
            outw[i / 2 + j] = arr[j];
        }
        i += l;
    }
    true
}

#[inline(always)]
fn interleave_arms<T: El, O: Interleave<T>>(ops: O, io: &mut Io<T>) -> bool {
    let l = ops.len();
    let n = io.a.len();
    let low = match io.op {
        Op::InterleaveLow => true,
        Op::InterleaveHigh => false,
        _ => return false,
    };
    let mut i = 0;
    while i + l <= n {
        let x = ops.load(&io.a[i..]);
        let y = ops.load(&io.b[i..]);
        let r = if low { ops.interleave_low(x, y) } else { ops.interleave_high(x, y) };
        ops.store(r, &mut io.out[i..]);
        i += l;
    }
    true
}

#[inline(always)]
fn concat_arms<T: El, O: Concat<T>>(ops: O, io: &mut Io<T>) -> bool {
    let l = ops.len();
    let n = io.a.len();
    let low = match io.op {
        Op::ConcatLow => true,
        Op::ConcatHigh => false,
        _ => return false,
    };
    let mut i = 0;
    while i + l <= n {
        let x = ops.load(&io.a[i..]);
        let y = ops.load(&io.b[i..]);
        let r = if low { ops.concat_low(x, y) } else { ops.concat_high(x, y) };
        ops.store(r, &mut io.out[i..]);
        i += l;
    }
    true
}

/// NarrowSaturate: two input vectors (from `a` and `b`) of `l` lanes -> one
/// vector of `2 l` lanes of half the width, written over the bytes of the
/// corresponding output vector.
#[inline(always)]
fn narrow_arms<T, U, O>(ops: O, io: &mut Io<T>) -> bool
where
    T: El,
    U: El,
    O: NarrowSaturate<T, U>,
{
    if io.op != Op::NarrowSat {
        return false;
    }
    let l = ops.len();
    let n = io.a.len();
    let outn: &mut [U] = cast_slice_mut::<T, U>(io.out);
    let mut i = 0;
    while i + l <= n {
        let x = ops.load(&io.a[i..]);
        let y = ops.load(&io.b[i..]);
        let r = ops.narrow_saturate(x, y);
        let arr = r.to_array();
        for j in 0..2 * l {
            outn[2 * i + j] = arr[j];
        }
        i += l;
    }
    true
}

impl SimdOp for Bulk<'_, f32> {
    type Output = Option<usize>;

    #[inline(always)]
    fn eval<I: Isa>(mut self, isa: I) -> Option<usize> {
        let ops = isa.f32();
        let io = &mut self.0;
        let l = ops.len();
        if io.op == Op::Len {
            return Some(l);
        }
        if io.op == Op::Reinterpret {
            let n = io.a.len();
            let mut i = 0;
            while i + l <= n {
                let x = ops.load(&io.a[i..]);
                let y: I::I32 = x.reinterpret_cast();
                let arr = y.to_array();
                for j in 0..l {
                    io.out[i + j] = f32::from_bits(arr[j] as u32);
                }
                i += l;
            }
            return Some(l);
        }
        let ok = bit_arms(ops, isa.i32(), isa.m32(), io)
            || num_arms(ops, io)
            || float_arms(ops, io)
            || narrow_arms::<f32, f16, _>(ops, io);
        ok.then_some(l)
    }
}

impl SimdOp for Bulk<'_, f16> {
    type Output = Option<usize>;

    #[inline(always)]
    fn eval<I: Isa>(mut self, isa: I) -> Option<usize> {
        let ops = isa.f16();
        let io = &mut self.0;
        let l = ops.len();
        if io.op == Op::Len {
            return Some(l);
        }
        let ok = bit_arms(ops, isa.i16(), isa.m16(), io) || extend_arms::<f16, f32, _>(ops, io);
        ok.then_some(l)
    }
}

impl SimdOp for Bulk<'_, i32> {
    type Output = Option<usize>;

    #[inline(always)]
    fn eval<I: Isa>(mut self, isa: I) -> Option<usize> {
        let ops = isa.i32();
        let io = &mut self.0;
        let l = ops.len();
        if io.op == Op::Len {
            return Some(l);
        }
        if io.op == Op::Reinterpret {
            let n = io.a.len();
            let mut i = 0;
            while i + l <= n {
                let x = ops.load(&io.a[i..]);
                let y: I::F32 = x.reinterpret_cast();
                let arr = y.to_array();
                for j in 0..l {
                    io.out[i + j] = arr[j].to_bits() as i32;
                }
                i += l;
            }
            return Some(l);
        }
        if io.op == Op::ToFloat {
            let n = io.a.len();
            let mut i = 0;
            while i + l <= n {
                let x = ops.load(&io.a[i..]);
                let y: I::F32 = ops.to_float(x);
                let arr = y.to_array();
                for j in 0..l {
                    io.out[i + j] = arr[j].to_bits() as i32;
                }
                i += l;
            }
            return Some(l);
        }
        let ok = bit_arms(ops, ops, isa.m32(), io)
            || num_arms(ops, io)
            || int_arms(ops, io)
            || signed_arms(ops, io)
            || concat_arms(ops, io)
            || narrow_arms::<i32, i16, _>(ops, io);
        ok.then_some(l)
    }
}

impl SimdOp for Bulk<'_, i16> {
    type Output = Option<usize>;

    #[inline(always)]
    fn eval<I: Isa>(mut self, isa: I) -> Option<usize> {
        let ops = isa.i16();
        let io = &mut self.0;
        let l = ops.len();
        if io.op == Op::Len {
            return Some(l);
        }
        let ok = bit_arms(ops, ops, isa.m16(), io)
            || num_arms(ops, io)
            || int_arms(ops, io)
            || signed_arms(ops, io)
            || extend_arms::<i16, i32, _>(ops, io)
            || interleave_arms(ops, io)
            || narrow_arms::<i16, u8, _>(ops, io);
        ok.then_some(l)
    }
}

impl SimdOp for Bulk<'_, i8> {
    type Output = Option<usize>;

    #[inline(always)]
    fn eval<I: Isa>(mut self, isa: I) -> Option<usize> {
        let ops = isa.i8();
        let io = &mut self.0;
        let l = ops.len();
        if io.op == Op::Len {
            return Some(l);
        }
        let ok = bit_arms(ops, ops, isa.m8(), io)
            || num_arms(ops, io)
            || int_arms(ops, io)
            || signed_arms(ops, io)
            || extend_arms::<i8, i16, _>(ops, io)
            || interleave_arms(ops, io);
        ok.then_some(l)
    }
}

impl SimdOp for Bulk<'_, u8> {
    type Output = Option<usize>;

    #[inline(always)]
    fn eval<I: Isa>(mut self, isa: I) -> Option<usize> {
        let ops = isa.u8();
        let io = &mut self.0;
        let l = ops.len();
        if io.op == Op::Len {
            return Some(l);
        }
        let ok = bit_arms(ops, isa.i8(), isa.m8(), io)
            || num_arms(ops, io)
            || int_arms(ops, io)
            || extend_arms::<u8, u16, _>(ops, io)
            || interleave_arms(ops, io);
        ok.then_some(l)
    }
}

impl SimdOp for Bulk<'_, u16> {
    type Output = Option<usize>;

    #[inline(always)]
    fn eval<I: Isa>(mut self, isa: I) -> Option<usize> {
        let ops = isa.u16();
        let io = &mut self.0;
        let l = ops.len();
        if io.op == Op::Len {
            return Some(l);
        }
        let ok = bit_arms(ops, isa.i16(), isa.m16(), io) || num_arms(ops, io) || int_arms(ops, io);
        ok.then_some(l)
    }
}
