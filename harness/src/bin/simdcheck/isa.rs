//! `simdcheck isa` (C18): every primitive x element type x ISA against scalar
//! definitions and across ISAs; slice helpers under guard pages (slices.rs).
use std::collections::BTreeMap;

use rayon::prelude::*;
use rten_simd::verif::IsaKind;
use rten_simd::{SimdOp, f16};
use vcommon::*;

use crate::common::*;
use crate::oracle::{self, Cmp, Expect, Oracle};
use crate::prims::{Bulk, Io, Op};
use crate::slices;

pub const MAX_N: usize = 65536;
const BLOCK: usize = 128;

pub struct Finding {
    pub op: Op,
    pub elem: &'static str,
    pub isa: IsaKind,
    pub kind: &'static str,
    /// Deterministic order key: smallest wins when merging.
    pub order: (u64, u64),
    pub detail: Json,
    /// The 128-element aligned input block containing the failing lane.
    pub block: [Vec<u64>; 3],
}

impl Finding {
    fn key(&self) -> String {
        format!("C18|{}|{}|{}|{}", self.op.name(), self.elem, isa_name(self.isa), self.kind)
    }
}

#[derive(Default)]
pub struct Acc {
    pub lanes: u64,
    pub tuples: u64,
    pub unspec: u64,
    pub cross: u64,
    pub either_second: u64,
    pub combos: BTreeMap<(String, &'static str, &'static str), u64>,
    pub findings: BTreeMap<String, Finding>,
    pub chunks: BTreeMap<String, u64>,
}

impl Acc {
    pub fn merge(mut self, o: Acc) -> Acc {
        self.lanes += o.lanes;
        self.tuples += o.tuples;
        self.unspec += o.unspec;
        self.cross += o.cross;
        self.either_second += o.either_second;
        for (k, v) in o.combos {
            *self.combos.entry(k).or_insert(0) += v;
        }
        for (k, v) in o.chunks {
            *self.chunks.entry(k).or_insert(0) += v;
        }
        for (k, f) in o.findings {
            match self.findings.get(&k) {
                Some(old) if old.order <= f.order => {}
                _ => {
                    self.findings.insert(k, f);
                }
            }
        }
        self
    }

    fn add_finding(&mut self, f: Finding) {
        let k = f.key();
        match self.findings.get(&k) {
            Some(old) if old.order <= f.order => {}
            _ => {
                self.findings.insert(k, f);
            }
        }
    }
}

pub struct Work {
    out: Vec<Buf>,
    outm: Vec<Vec<u8>>,
    ex: Expect,
}

impl Work {
    pub fn new() -> Work {
        Work {
            out: (0..3).map(|_| Buf::bytes(MAX_N * 4)).collect(),
            outm: (0..3).map(|_| vec![0u8; MAX_N]).collect(),
            ex: Expect::new(MAX_N),
        }
    }
}

fn is_nan_raw(x: u64, cmp: Cmp) -> bool {
    match cmp {
        Cmp::Raw => false,
        Cmp::NanF32 => (x & 0x7fff_ffff) > 0x7f80_0000,
        Cmp::NanF16 => (x & 0x7fff) > 0x7c00,
    }
}

struct LaneFail {
    lane: usize,
    is_mask: bool,
    got: u64,
    e1: u64,
    e2: u64,
    mode: u8,
    cross: bool,
}

/// Compare one ISA's outputs with the expectation (and, for CROSS lanes, with
/// the reference ISA's outputs). Returns the first failing lane.
fn compare(
    ex: &Expect,
    n: usize,
    out: &Buf,
    outm: &[u8],
    reference: Option<(&Buf, &[u8])>,
    acc: &mut Acc,
) -> Option<LaneFail> {
    let mut fail: Option<LaneFail> = None;
    macro_rules! lanes {
        ($t:ty) => {{
            let g = out.as_slice::<$t>(ex.n_out);
            let e1 = ex.e1.as_slice::<$t>(ex.n_out);
            let e2 = ex.e2.as_slice::<$t>(ex.n_out);
            let r = reference.map(|(b, _)| b.as_slice::<$t>(ex.n_out));
            for i in 0..ex.n_out {
                let m = ex.mode[i];
                if m == oracle::EXACT && g[i] == e1[i] {
                    continue;
                }
                let (gi, a, b) = (g[i] as u64, e1[i] as u64, e2[i] as u64);
                let eq = |x: u64, y: u64| x == y || (is_nan_raw(x, ex.cmp) && is_nan_raw(y, ex.cmp));
                let ok = match m {
                    oracle::EXACT => eq(gi, a),
                    oracle::EITHER => {
                        if eq(gi, a) {
                            true
                        } else {
                            acc.either_second += 1;
                            eq(gi, b)
                        }
                    }
                    oracle::VALEQ => f32::from_bits(gi as u32) == f32::from_bits(a as u32),
                    oracle::TOL => {
                        let d = (f32::from_bits(gi as u32) as f64 - f32::from_bits(a as u32) as f64).abs();
                        d <= f32::from_bits(b as u32) as f64
                    }
                    oracle::UNSPEC => {
                        acc.unspec += 1;
                        true
                    }
                    _ => match &r {
                        Some(rv) => {
                            acc.cross += 1;
                            if eq(gi, rv[i] as u64) {
                                true
                            } else {
                                fail.get_or_insert(LaneFail { lane: i, is_mask: false, got: gi, e1: rv[i] as u64, e2: 0, mode: m, cross: true });
                                true
                            }
                        }
                        None => true,
                    },
                };
                if !ok && fail.is_none() {
                    fail = Some(LaneFail { lane: i, is_mask: false, got: gi, e1: a, e2: b, mode: m, cross: false });
                }
            }
        }};
    }
    if ex.n_out > 0 {
        match ex.out_size {
            1 => lanes!(u8),
            2 => lanes!(u16),
            _ => lanes!(u32),
        }
        acc.lanes += ex.n_out as u64;
    }
    if ex.check_mask {
        for i in 0..n {
            if outm[i] != ex.em[i] && fail.is_none() {
                fail = Some(LaneFail { lane: i, is_mask: true, got: outm[i] as u64, e1: ex.em[i] as u64, e2: 0, mode: oracle::EXACT, cross: false });
            }
        }
        acc.lanes += n as u64;
    }
    fail
}

/// Ops whose expectation does not depend on the vector length.
fn lanewise(op: Op) -> bool {
    !matches!(
        op,
        Op::Splat
            | Op::Bcast(_)
            | Op::FoldSplat
            | Op::FirstNMask
            | Op::StoreUninit
            | Op::Many2
            | Op::Sum
            | Op::ExtendLow
            | Op::ExtendHigh
            | Op::InterleaveLow
            | Op::InterleaveHigh
            | Op::ConcatLow
            | Op::ConcatHigh
            | Op::NarrowSat
            | Op::MaskAny
            | Op::MaskAll
            | Op::MaskAllFalse
    )
}

fn block_of<T: El>(xs: &[T], lane_in: usize) -> Vec<u64> {
    let s = lane_in / BLOCK * BLOCK;
    xs[s..s + BLOCK].iter().map(|x| x.raw()).collect()
}

/// Evaluate `ops` on one chunk under each ISA and compare.
pub fn run_chunk<T: Oracle>(w: &mut Work, isas: &[IsaKind], ops: &[Op], a: &[T], b: &[T], c: &[T], order: u64, acc: &mut Acc)
where
    for<'x> Bulk<'x, T>: SimdOp<Output = Option<usize>>,
{
    let n = a.len();
    assert!(n % BLOCK == 0 && n <= MAX_N && b.len() == n && c.len() == n);
    acc.tuples += n as u64;
    for (oi, &op) in ops.iter().enumerate() {
        let mut have_expect_for: Option<usize> = None;
        let mut ref_idx: Option<usize> = None;
        for (k, &isa) in isas.iter().enumerate() {
            w.out[k].fill(0xA5);
            w.outm[k][..n].fill(0);
            let res = {
                let out = w.out[k].as_mut::<T>(n);
                let outm = &mut w.outm[k][..n];
                catch(|| run_on(isa, Bulk(Io { op, a, b, c, out, outm })))
            };
            let ord = (order, oi as u64);
            let l = match res {
                Err(msg) => {
                    acc.add_finding(Finding {
                        op,
                        elem: T::NAME,
                        isa,
                        kind: "panic",
                        order: ord,
                        detail: json!({"panic": msg}),
                        block: [block_of(a, 0), block_of(b, 0), block_of(c, 0)],
                    });
                    continue;
                }
                Ok(None) => panic!("harness: op {:?} not implemented for {}", op, T::NAME),
                Ok(Some(l)) => l,
            };
            *acc.combos.entry((op.name(), T::NAME, isa_name(isa))).or_insert(0) += n as u64;
            if op == Op::Len {
                if l * T::BYTES != isa_bytes(isa) {
                    acc.add_finding(Finding {
                        op,
                        elem: T::NAME,
                        isa,
                        kind: "scalar_mismatch",
                        order: ord,
                        detail: json!({"len": l, "expected": isa_bytes(isa) / T::BYTES}),
                        block: [block_of(a, 0), block_of(b, 0), block_of(c, 0)],
                    });
                }
                continue;
            }
            if have_expect_for != Some(l) && !(have_expect_for.is_some() && lanewise(op)) {
                assert!(T::expect(op, l, a, b, c, &mut w.ex), "harness: no oracle for {:?} on {}", op, T::NAME);
                have_expect_for = Some(l);
            }
            // CROSS lanes are compared with the first ISA that produced a
            // result; only meaningful for lane-wise ops.
            let reference = match ref_idx {
                Some(r) if lanewise(op) => Some((&w.out[r], &w.outm[r][..n])),
                _ => None,
            };
            if let Some(f) = compare(&w.ex, n, &w.out[k], &w.outm[k][..n], reference, acc) {
                // Map the output lane back to an input lane.
                let lane_in = if f.is_mask || w.ex.n_out == n {
                    f.lane
                } else if w.ex.n_out == n / 2 {
                    f.lane / (l / 2) * l
                } else {
                    f.lane / (2 * l) * l
                };
                let size = if f.is_mask { 1 } else { w.ex.out_size };
                acc.add_finding(Finding {
                    op,
                    elem: T::NAME,
                    isa,
                    kind: if f.cross { "isa_mismatch" } else { "scalar_mismatch" },
                    order: ord,
                    detail: json!({
                        "output_lane": f.lane, "lanes_per_vector": l, "output": if f.is_mask { "mask/bool" } else { "vector" },
                        "got": hex(f.got, size), "expected": hex(f.e1, size), "expected_alt": hex(f.e2, size), "mode": f.mode,
                        "reference_isa": ref_idx.map(|r| isa_name(isas[r])),
                        "a": hex(a[lane_in.min(n - 1)].raw(), T::BYTES), "b": hex(b[lane_in.min(n - 1)].raw(), T::BYTES), "c": hex(c[lane_in.min(n - 1)].raw(), T::BYTES),
                    }),
                    block: [block_of(a, lane_in.min(n - 1)), block_of(b, lane_in.min(n - 1)), block_of(c, lane_in.min(n - 1))],
                });
            }
            if ref_idx.is_none() {
                ref_idx = Some(k);
            }
        }
    }
}

// ---------------------------------------------------------------- inputs

pub fn f32_specials() -> Vec<u32> {
    let mut v: Vec<u32> = vec![
        0x0000_0000, 0x8000_0000, // +-0
        0x7f80_0000, 0xff80_0000, // +-inf
        0x7fc0_0000, 0xffc0_0000, 0x7f80_0001, 0xff80_0001, 0x7fff_ffff, 0x7fa0_0000, // NaNs (quiet, signalling)
        0x0000_0001, 0x8000_0001, 0x007f_ffff, 0x807f_ffff, 0x0040_0000, // subnormals
        0x0080_0000, 0x8080_0000, 0x0080_0001, // smallest normals
        0x7f7f_ffff, 0xff7f_ffff, 0x7f7f_fffe, 0x7f00_0000, // largest
        0x3f80_0000, 0xbf80_0000, 0x3f80_0001, 0x3f7f_ffff, // around 1
        0x3400_0000, 0x3380_0000, // epsilon, epsilon/2
    ];
    for x in [
        0.5f32, -0.5, 1.5, -1.5, 2.5, -2.5, 3.5, 0.49999997, 0.50000006, 2.0, 3.0, -3.0, 10.0, 0.1, -0.1, 1e-20, 1e20, -1e20, 1e38, 3e38, 1e-38,
        8388607.5, 8388608.0, 8388609.0, -8388607.5, 16777216.0, 16777217.0, 2147483648.0, -2147483648.0, 2147483520.0, -2147483904.0, 4294967296.0,
        65504.0, 65519.99, 65520.0, 65536.0, -65520.0, 6.1035156e-5, 6.0975552e-5, 5.9604645e-8, 2.9802322e-8, 2.9802326e-8, 8.940697e-8, 104.0, -104.0, 88.0, -87.5,
        48000.0, 3.1415927, 6.2831855, 12582912.0, 0.33333334, 7.0, 255.0, 256.0, 32767.0, 32768.0, -32768.0, -32769.0,
    ] {
        v.push(x.to_bits());
    }
    v.sort_unstable();
    v.dedup();
    v
}

pub fn int_boundaries(bits: u32) -> Vec<u64> {
    let mask = if bits == 64 { u64::MAX } else { (1u64 << bits) - 1 };
    let mut v: Vec<u64> = vec![0, 1, 2, 3, 5, 7, 0x55555555_55555555, 0xaaaaaaaa_aaaaaaaa, 0x7f, 0x80, 0x81, 0xff, 0x100, 0x7fff, 0x8000, 0x8001, 0xffff, 0x10000];
    for k in 0..bits {
        let p = 1u64 << k;
        v.extend([p, p.wrapping_sub(1), p.wrapping_add(1), (!p), (!p).wrapping_add(1), (!p).wrapping_sub(1)]);
    }
    // -128, -129, -32768, -32769 etc. as two's complement of this width
    for x in [128u64, 129, 255, 256, 257, 32767, 32768, 32769, 65535, 65536] {
        v.push(x.wrapping_neg());
    }
    let mut v: Vec<u64> = v.into_iter().map(|x| x & mask).collect();
    v.sort_unstable();
    v.dedup();
    v
}

#[derive(Clone, Debug)]
pub enum Desc {
    /// 8-bit: all 65536 (a, b) pairs; c = fixed value or a hash of (a, b).
    Pairs8 { c: Option<u8> },
    /// 16-bit: fixed a, all 65536 values of b, c = hash.
    Pairs16 { a: u16 },
    /// 16-bit (f16 too): a = all 65536 values, b = a rotated by `rot`, c = hash.
    All16 { rot: u16 },
    /// all pairs of boundary/special values, block `i`.
    Boundary { i: usize },
    /// random bit patterns
    Random { stream: u64, n: usize },
    /// f32: b and c related to a so that sums cancel and products round.
    Related { stream: u64, n: usize },
    /// 32-bit: a = all values with high half `hi`; b, c pseudo-random.
    All32 { hi: u16 },
}

impl Desc {
    fn class(&self) -> &'static str {
        match self {
            Desc::Pairs8 { .. } => "pairs8_exhaustive",
            Desc::Pairs16 { .. } => "pairs16_fixed_a_all_b",
            Desc::All16 { .. } => "all16_values",
            Desc::Boundary { .. } => "boundary_pairs",
            Desc::Random { .. } => "random_bits",
            Desc::Related { .. } => "f32_related_operands",
            Desc::All32 { .. } => "all32_values_of_a",
        }
    }
}

fn mix(x: u64) -> u64 {
    let mut z = x.wrapping_add(0x9e3779b97f4a7c15);
    z = (z ^ (z >> 30)).wrapping_mul(0xbf58476d1ce4e5b9);
    z = (z ^ (z >> 27)).wrapping_mul(0x94d049bb133111eb);
    z ^ (z >> 31)
}

fn boundary_values<T: El>() -> Vec<u64> {
    if T::NAME == "f32" {
        f32_specials().into_iter().map(|x| x as u64).collect()
    } else if T::NAME == "f16" {
        let mut v = int_boundaries(16);
        v.extend([0x7c00, 0xfc00, 0x7e00, 0x7c01, 0x03ff, 0x0400, 0x7bff, 0x3c00, 0xbc00]);
        v.sort_unstable();
        v.dedup();
        v
    } else {
        int_boundaries(8 * T::BYTES as u32)
    }
}

/// Number of Boundary blocks (each MAX_N/16 = 4096 lanes) for a type.
fn n_boundary_blocks<T: El>() -> usize {
    let k = boundary_values::<T>().len();
    (k * k).div_ceil(4096)
}

fn fill<T: El>(d: &Desc, seed: u64, a: &mut Vec<T>, b: &mut Vec<T>, c: &mut Vec<T>) {
    a.clear();
    b.clear();
    c.clear();
    match d {
        Desc::Pairs8 { c: cv } => {
            for i in 0..65536u64 {
                a.push(T::from_raw(i >> 8));
                b.push(T::from_raw(i & 255));
                c.push(T::from_raw(match cv {
                    Some(v) => *v as u64,
                    None => (i >> 8).wrapping_mul(7).wrapping_add((i & 255) * 13).wrapping_add(5) & 255,
                }));
            }
        }
        Desc::Pairs16 { a: av } => {
            for i in 0..65536u64 {
                a.push(T::from_raw(*av as u64));
                b.push(T::from_raw(i));
                c.push(T::from_raw(mix(((*av as u64) << 16) | i) & 0xffff));
            }
        }
        Desc::All16 { rot } => {
            for i in 0..65536u64 {
                a.push(T::from_raw(i));
                b.push(T::from_raw((i + *rot as u64) & 0xffff));
                c.push(T::from_raw(mix(i ^ ((*rot as u64) << 20)) & 0xffff));
            }
        }
        Desc::Boundary { i } => {
            let vals = boundary_values::<T>();
            let k = vals.len();
            for p in i * 4096..(i + 1) * 4096 {
                let p = p % (k * k);
                a.push(T::from_raw(vals[p / k]));
                b.push(T::from_raw(vals[p % k]));
                c.push(T::from_raw(vals[(p / k + p % k * 7 + p / 4096) % k]));
            }
        }
        Desc::Random { stream, n } => {
            let mut rng = Rng::derive(seed, *stream);
            for _ in 0..*n {
                a.push(T::from_raw(rng.next_u64()));
                b.push(T::from_raw(rng.next_u64()));
                c.push(T::from_raw(rng.next_u64()));
            }
        }
        Desc::Related { stream, n } => {
            // f32 only
            let mut rng = Rng::derive(seed, *stream);
            for _ in 0..*n {
                let x = f32::from_bits(rng.next_u32() & 0x7fff_ffff | ((rng.next_u32() & 1) << 31));
                let x = if x.is_finite() && x.abs() > 1e-18 && x.abs() < 1e18 { x } else { rng.f32_in(-4.0, 4.0) };
                let y = match rng.below(4) {
                    0 => x * (1.0 + rng.f32_in(-1e-6, 1e-6)),
                    1 => -x,
                    2 => rng.f32_in(-3.0, 3.0),
                    _ => 1.0 / x,
                };
                let z = match rng.below(3) {
                    0 => -(x * y),
                    1 => -(x * y) * (1.0 + rng.f32_in(-1e-6, 1e-6)),
                    _ => rng.f32_in(-3.0, 3.0),
                };
                a.push(T::from_raw(x.to_bits() as u64));
                b.push(T::from_raw(y.to_bits() as u64));
                c.push(T::from_raw(z.to_bits() as u64));
            }
        }
        Desc::All32 { hi } => {
            for i in 0..65536u64 {
                let x = ((*hi as u64) << 16) | i;
                a.push(T::from_raw(x));
                b.push(T::from_raw(mix(x)));
                c.push(T::from_raw(mix(x ^ 0x5555_0000_0000)));
            }
        }
    }
}

fn descs_for<T: El>(thorough: bool, seed: u64) -> Vec<Desc> {
    let mut d = Vec::new();
    let mut rng = Rng::derive(seed, 0xC18_0000 + T::BYTES as u64 * 16 + T::IS_FLOAT as u64);
    for i in 0..n_boundary_blocks::<T>() {
        d.push(Desc::Boundary { i });
    }
    match T::BYTES {
        1 => {
            d.push(Desc::Pairs8 { c: None });
            if thorough {
                for c in 0..=255u8 {
                    d.push(Desc::Pairs8 { c: Some(c) });
                }
            } else {
                for c in [0u8, 1, 0x7f, 0x80, 0xff] {
                    d.push(Desc::Pairs8 { c: Some(c) });
                }
                for _ in 0..10 {
                    d.push(Desc::Pairs8 { c: Some(rng.next_u32() as u8) });
                }
            }
            for s in 0..if thorough { 4096 } else { 64 } {
                d.push(Desc::Random { stream: s, n: 4096 });
            }
        }
        2 => {
            for rot in [0u16, 1, 0x8000, 0x7fff, 12345] {
                d.push(Desc::All16 { rot });
            }
            if T::NAME != "f16" {
                if thorough {
                    for a in 0..=65535u16 {
                        d.push(Desc::Pairs16 { a });
                    }
                } else {
                    let mut avs: Vec<u16> = vec![0, 1, 2, 0x7f, 0x80, 0xff, 0x100, 0x7ffe, 0x7fff, 0x8000, 0x8001, 0xfffe, 0xffff, 0x5555, 0xaaaa, 0xff00];
                    for _ in 0..16 {
                        avs.push(rng.next_u32() as u16);
                    }
                    for a in avs {
                        d.push(Desc::Pairs16 { a });
                    }
                }
            }
            for s in 0..if thorough { 4096 } else { 64 } {
                d.push(Desc::Random { stream: s, n: 4096 });
            }
        }
        _ => {
            for s in 0..if thorough { 16384 } else { 256 } {
                d.push(Desc::Random { stream: s, n: 4096 });
            }
            if T::IS_FLOAT {
                for s in 0..if thorough { 16384 } else { 256 } {
                    d.push(Desc::Related { stream: 1_000_000 + s, n: 4096 });
                }
            }
            if thorough {
                for hi in 0..=65535u16 {
                    d.push(Desc::All32 { hi });
                }
            }
        }
    }
    d
}

fn run_type<T: Oracle>(isas: &[IsaKind], thorough: bool, seed: u64, shard: usize, shards: usize) -> Acc
where
    for<'x> Bulk<'x, T>: SimdOp<Output = Option<usize>>,
{
    let ops = T::ops();
    let descs = descs_for::<T>(thorough, seed);
    descs
        .par_iter()
        .enumerate()
        .filter(|(i, _)| i % shards == shard)
        .map_init(
            || (Work::new(), Vec::<T>::new(), Vec::<T>::new(), Vec::<T>::new()),
            |(w, a, b, c), (i, d)| {
                let mut acc = Acc::default();
                fill::<T>(d, seed, a, b, c);
                *acc.chunks.entry(format!("{}:{}", T::NAME, d.class())).or_insert(0) += a.len() as u64;
                run_chunk::<T>(w, isas, &ops, a, b, c, i as u64, &mut acc);
                acc
            },
        )
        .reduce(Acc::default, Acc::merge)
}

// ---------------------------------------------------------------- shrinking / reporting

fn rerun_block<T: Oracle>(isas: &[IsaKind], op: Op, isa: IsaKind, kind: &str, block: &[Vec<u64>; 3]) -> Option<Finding>
where
    for<'x> Bulk<'x, T>: SimdOp<Output = Option<usize>>,
{
    let a: Vec<T> = block[0].iter().map(|x| T::from_raw(*x)).collect();
    let b: Vec<T> = block[1].iter().map(|x| T::from_raw(*x)).collect();
    let c: Vec<T> = block[2].iter().map(|x| T::from_raw(*x)).collect();
    let mut w = Work::new();
    let mut acc = Acc::default();
    // For isa_mismatch the reference ISA has to run too.
    let use_isas: Vec<IsaKind> = if kind == "isa_mismatch" { isas.to_vec() } else { vec![isa] };
    run_chunk::<T>(&mut w, &use_isas, &[op], &a, &b, &c, 0, &mut acc);
    acc.findings.into_values().find(|f| f.isa == isa && f.kind == kind)
}

/// Shrink a finding to splat operands and then towards 0 / 1, with a bounded
/// number of re-executions. Returns (signature suffix, final finding).
fn shrink<T: Oracle>(isas: &[IsaKind], f: Finding) -> (String, Finding)
where
    for<'x> Bulk<'x, T>: SimdOp<Output = Option<usize>>,
{
    let raw = |s: &str| u64::from_str_radix(s.trim_start_matches("0x"), 16).unwrap_or(0);
    let mut ops3 = [0u64; 3];
    for (i, k) in ["a", "b", "c"].iter().enumerate() {
        ops3[i] = f.detail.get(*k).and_then(|v| v.as_str()).map(raw).unwrap_or(f.block[i][0]);
    }
    let splat = |v: [u64; 3]| [vec![v[0]; BLOCK], vec![v[1]; BLOCK], vec![v[2]; BLOCK]];
    let Some(mut best) = rerun_block::<T>(isas, f.op, f.isa, f.kind, &splat(ops3)) else {
        return ("vector-dependent".to_string(), f);
    };
    for i in (0..3).rev() {
        for cand in [0u64, 1] {
            if ops3[i] == cand {
                break;
            }
            let mut t = ops3;
            t[i] = cand;
            if let Some(g) = rerun_block::<T>(isas, f.op, f.isa, f.kind, &splat(t)) {
                ops3 = t;
                best = g;
                break;
            }
        }
    }
    (
        format!("a={},b={},c={}", hex(ops3[0], T::BYTES), hex(ops3[1], T::BYTES), hex(ops3[2], T::BYTES)),
        best,
    )
}

fn report_finding<T: Oracle>(rep: &mut Report, isas: &[IsaKind], f: Finding)
where
    for<'x> Bulk<'x, T>: SimdOp<Output = Option<usize>>,
{
    let (suffix, f) = shrink::<T>(isas, f);
    let sig = format!("{}|{}", f.key(), suffix);
    let what = match f.kind {
        "panic" => format!("panicked: {}", f.detail["panic"].as_str().unwrap_or("")),
        "isa_mismatch" => format!(
            "lane {} = {} but {} gives {} for the same operands (a={}, b={}, c={})",
            f.detail["output_lane"], f.detail["got"], f.detail["reference_isa"], f.detail["expected"], f.detail["a"], f.detail["b"], f.detail["c"]
        ),
        _ => format!(
            "output lane {} = {}, scalar definition gives {} (a={}, b={}, c={}); {}",
            f.detail["output_lane"], f.detail["got"], f.detail["expected"], f.detail["a"], f.detail["b"], f.detail["c"], f.detail
        ),
    };
    rep.violation(
        sig,
        format!("{} on {} lanes under the {} ISA: {}", f.op.name(), f.elem, isa_name(f.isa), what),
        json!({
            "mode": "prim", "op": format!("{:?}", f.op), "op_name": f.op.name(), "elem": f.elem, "isa": isa_name(f.isa), "kind": f.kind,
            "a": f.block[0].iter().map(|x| x.to_string()).collect::<Vec<_>>(),
            "b": f.block[1].iter().map(|x| x.to_string()).collect::<Vec<_>>(),
            "c": f.block[2].iter().map(|x| x.to_string()).collect::<Vec<_>>(),
            "detail": f.detail,
        }),
    );
}

macro_rules! for_elem {
    ($name:expr, $f:ident, $($args:expr),*) => {
        match $name {
            "f32" => $f::<f32>($($args),*),
            "f16" => $f::<f16>($($args),*),
            "i32" => $f::<i32>($($args),*),
            "i16" => $f::<i16>($($args),*),
            "i8" => $f::<i8>($($args),*),
            "u8" => $f::<u8>($($args),*),
            "u16" => $f::<u16>($($args),*),
            other => panic!("unknown element type {}", other),
        }
    };
}

fn op_from_debug<T: Oracle>(s: &str) -> Option<Op> {
    let mut ops = T::ops();
    ops.push(Op::Len);
    ops.into_iter().find(|o| format!("{:?}", o) == s)
}

fn replay_prim<T: Oracle>(rep: &mut Report, isas: &[IsaKind], w: &Json)
where
    for<'x> Bulk<'x, T>: SimdOp<Output = Option<usize>>,
{
    let op = op_from_debug::<T>(w["op"].as_str().unwrap()).expect("unknown op");
    let isa = isa_from_name(w["isa"].as_str().unwrap()).unwrap();
    if !isas.contains(&isa) {
        rep.inconclusive = Some(format!("ISA {} unavailable on this machine", isa_name(isa)));
        return;
    }
    let kind: &'static str = match w["kind"].as_str().unwrap() {
        "panic" => "panic",
        "isa_mismatch" => "isa_mismatch",
        _ => "scalar_mismatch",
    };
    let get = |k: &str| -> Vec<u64> { w[k].as_array().unwrap().iter().map(|v| v.as_str().unwrap().parse::<u64>().unwrap()).collect() };
    let block = [get("a"), get("b"), get("c")];
    rep.eval();
    rep.nontrivial(&(w["op"].as_str(), T::NAME, isa_name(isa)));
    if let Some(f) = rerun_block::<T>(isas, op, isa, kind, &block) {
        report_finding::<T>(rep, isas, f);
    }
}

pub const ELEMS: [&str; 7] = ["i8", "u8", "i16", "u16", "i32", "f32", "f16"];

const RULE: &str = "every primitive of the public rten-simd traits (BitOps, NumOps, FloatOps, IntOps, SignedIntOps, Extend, Interleave, Concat, ToFloat, NarrowSaturate, MaskOps, Simd casts) x every element type it exists for x every available ISA (forced via the public ISA types inside a target_feature wrapper mirroring dispatch; slice helpers through the process-wide hook) is applied vector by vector to input arrays and every output lane compared with a scalar definition written from the trait documentation, lanes without a scalar definition being compared across ISAs; inputs: all 8-bit pairs (thorough: all 2^24 triples), 16-bit: all values and (thorough) all 2^32 pairs, (quick) 32 fixed operands x all 65536, 32-bit and f32: all pairs of boundary/special values (NaNs, infinities, signed zeros, subnormals, extremes, rounding ties), random bit patterns, related operands (cancellation), (thorough) all 2^32 values of the first operand; slice helpers (simd_map, simd_apply, SimdUnaryOp::map/map_mut, load_pad, load/store(_many), masked load/store, SimdIterable, SliceWriter) for lengths 0..=4*lanes+3 flush against a PROT_NONE page after and before the slices and at every element alignment offset with canaries, in a forked child; a case is non-trivial when the primitive really ran under that ISA; distinct by (primitive, element type, ISA) and (helper, element type, ISA, placement)";

pub fn run(args: &Args) {
    let mut rep = Report::new("C18", "simdcheck isa", args, RULE);
    if cfg!(miri) {
        rep.inconclusive = Some("Miri cannot execute AVX2/AVX-512 intrinsics; simdcheck needs a native build".into());
        rep.finish();
        return;
    }
    let isas = available_isas();
    rep.note("isas_available", json!(isas.iter().map(|k| isa_name(*k)).collect::<Vec<_>>()));
    rep.note(
        "isas_unavailable",
        json!(ALL_ISAS.iter().filter(|k| !isas.contains(k)).map(|k| isa_name(*k)).collect::<Vec<_>>()),
    );

    if let Some(path) = &args.replay {
        let w: Json = serde_json::from_str(&std::fs::read_to_string(path).unwrap()).unwrap();
        let w = if w.get("witness").is_some() { w["witness"].clone() } else { w };
        match w["mode"].as_str() {
            Some("prim") => {
                let elem = w["elem"].as_str().unwrap().to_string();
                for_elem!(elem.as_str(), replay_prim, &mut rep, &isas, &w)
            }
            Some("slice") => slices::replay(&mut rep, &isas, &w),
            other => panic!("unknown witness mode {:?}", other),
        }
        rep.finish();
        return;
    }

    // Guarded slice cases fork, so they run first, before rayon starts any
    // thread.
    if args.get("skip-slices").is_none() {
        slices::run(&mut rep, args, &isas);
    }

    if args.get("skip-prims").is_none() {
        let only = args.get("elem").map(|s| s.to_string());
        let mut total = Acc::default();
        for elem in ELEMS {
            if only.as_deref().is_some_and(|o| o != elem) {
                continue;
            }
            let t0 = std::time::Instant::now();
            let acc: Acc = for_elem!(elem, run_type, &isas, args.thorough, args.seed, args.shard, args.shards);
            rep.note(&format!("wall_s_prims_{}", elem), json!(t0.elapsed().as_secs_f64()));
            total = total.merge(acc);
        }
        rep.evaluations += total.tuples;
        rep.add("prim_operand_tuples_evaluated", total.tuples);
        rep.add("prim_output_lanes_compared", total.lanes);
        rep.add("prim_lanes_unspecified_skipped", total.unspec);
        rep.add("prim_lanes_cross_isa_only", total.cross);
        rep.add("prim_lanes_matching_second_allowed_value", total.either_second);
        rep.add("prim_op_elem_isa_combinations", total.combos.len() as u64);
        for (k, v) in &total.chunks {
            rep.add(&format!("inputs_{}", k), *v);
        }
        let mut per_isa: BTreeMap<&str, u64> = BTreeMap::new();
        let mut per_elem: BTreeMap<&str, u64> = BTreeMap::new();
        for ((op, elem, isa), _) in &total.combos {
            *per_isa.entry(isa).or_insert(0) += 1;
            *per_elem.entry(elem).or_insert(0) += 1;
            rep.nontrivial(&("prim", op.as_str(), *elem, *isa));
        }
        rep.note("prim_combinations_per_isa", json!(per_isa));
        rep.note("prim_combinations_per_elem", json!(per_elem));
        let mut names: Vec<String> = total.combos.keys().map(|(op, _, _)| op.clone()).collect();
        names.sort();
        names.dedup();
        rep.note("primitives_covered", json!(names));
        for (_, f) in total.findings {
            let elem = f.elem;
            for_elem!(elem, report_finding, &mut rep, &isas, f);
        }
        if args.thorough && args.shards == 1 && only.is_none() {
            rep.note("exhaustive_parts", json!("8-bit operand triples, 16-bit operand pairs, all 2^32 first operands for 32-bit element types"));
        }
    }
    for k in ALL_ISAS {
        if !isas.contains(&k) {
            rep.count(&format!("isa_unavailable_{}", isa_name(k)));
        }
    }
    rep.finish();
}
