//! `simdcheck math` (C19): vectorised Exp / Sigmoid / Tanh / Erf / Sin / Cos
//! against two references (the f32 reference the in-tree `#[ignore]`d
//! exhaustive tests use, and the same function evaluated in f64 and rounded to
//! f32) over all f32 bit patterns (thorough) or a structured sample (quick),
//! under every available ISA; Softmax invariants on random vectors.
use std::mem::MaybeUninit;

use rayon::prelude::*;
use rten_simd::functional::simd_map;
use rten_simd::verif::{IsaKind, set_forced_isa};
use rten_simd::{Isa, SimdOp, SimdUnaryOp};
use rten_vecmath::{Cos, Erf, Exp, Sigmoid, Sin, Softmax, Tanh};
use vcommon::*;

use crate::common::*;

#[derive(Clone, Copy, PartialEq, Eq, Debug)]
pub enum Fun {
    Exp,
    Sigmoid,
    Tanh,
    Erf,
    Sin,
    Cos,
}

pub const FUNS: [Fun; 6] = [Fun::Exp, Fun::Sigmoid, Fun::Tanh, Fun::Erf, Fun::Sin, Fun::Cos];

#[derive(Clone, Copy, Debug)]
enum Tol {
    /// `check_f32s_are_equal_ulps` of rten-vecmath/src/testing.rs
    Ulp(f32),
    /// `check_f32s_are_equal_atol`
    Abs(f32),
}

/// Threshold above which Sin/Cos fall back to the standard library
/// (rten-vecmath/src/sin_cos.rs `LARGE_THRESHOLD`); the documented bounds and
/// the in-tree exhaustive tests cover `[-48000, 48000]`.
const SIN_COS_RANGE: f32 = 48_000.0;

impl Fun {
    pub fn name(self) -> &'static str {
        match self {
            Fun::Exp => "exp",
            Fun::Sigmoid => "sigmoid",
            Fun::Tanh => "tanh",
            Fun::Erf => "erf",
            Fun::Sin => "sin",
            Fun::Cos => "cos",
        }
    }

    fn from_name(s: &str) -> Option<Fun> {
        FUNS.iter().copied().find(|f| f.name() == s)
    }

    /// Bounds exactly as in the in-tree ignored exhaustive tests.
    fn tol(self) -> Tol {
        match self {
            Fun::Exp => Tol::Ulp(1.0),     // exp.rs MAX_EXP_ERROR_ULPS
            Fun::Sigmoid => Tol::Ulp(4.0), // exp.rs MAX_SIGMOID_ERROR_ULPS
            Fun::Tanh => Tol::Ulp(3.0),    // tanh.rs MAX_TANH_ERROR_ULPS
            Fun::Erf => Tol::Abs(6.631017e-7), // erf.rs MAX_EXPECTED_DIFF
            Fun::Sin => Tol::Abs(3e-7),    // sin_cos.rs test_sin_exhaustive
            Fun::Cos => Tol::Abs(5e-7),    // sin_cos.rs test_cos_exhaustive
        }
    }

    fn quote(self) -> &'static str {
        match self {
            Fun::Exp => "exp.rs: 'This has a maximum error of 1 ULP compared to `f32::exp`'; test_exp_exhaustive: reference f32::exp, range AllF32s, Tolerance::Ulp(MAX_EXP_ERROR_ULPS = 1.0)",
            Fun::Sigmoid => "exp.rs: 'This has a maximum error of 4 ULPs compared to a reference implementation using `1. / (1. + (-x).exp())`'; test_sigmoid_exhaustive: reference_sigmoid, AllF32s, Tolerance::Ulp(MAX_SIGMOID_ERROR_ULPS = 4.0)",
            Fun::Tanh => "tanh.rs: 'Maximum error of `Tanh` compared to `f32::tanh`' MAX_TANH_ERROR_ULPS = 3.0; test_tanh_exhaustive: reference f32::tanh, AllF32s, Tolerance::Ulp(3.0)",
            Fun::Erf => "erf.rs: 'This has a maximum absolute error of 6.631017e-7 when comparing to `libm::erff` as a source of truth'; test_erf_exhaustive: reference libm::erff, AllF32s, Tolerance::Absolute(MAX_EXPECTED_DIFF = 6.631017e-7)",
            Fun::Sin => "sin_cos.rs: 'The implementation has a maximum absolute error of 2.98e-7 (2.5 * f32::EPSILON)'; test_sin_exhaustive: reference f32::sin, all_floats_in_range(-LARGE_THRESHOLD, LARGE_THRESHOLD) with LARGE_THRESHOLD = 48_000.0, Tolerance::Absolute(3e-7)",
            Fun::Cos => "sin_cos.rs: 'The implementation has a maximum absolute error of 4.17e-7 (3.5 * f32::EPSILON)'; test_cos_exhaustive: reference f32::cos, all_floats_in_range(-48000, 48000), Tolerance::Absolute(5e-7)",
        }
    }

    fn ref32(self, x: f32) -> f32 {
        match self {
            Fun::Exp => x.exp(),
            Fun::Sigmoid => 1. / (1. + (-x).exp()),
            Fun::Tanh => x.tanh(),
            Fun::Erf => libm::erff(x),
            Fun::Sin => x.sin(),
            Fun::Cos => x.cos(),
        }
    }

    fn ref64(self, x: f32) -> f32 {
        let x = x as f64;
        (match self {
            Fun::Exp => libm::exp(x),
            Fun::Sigmoid => 1. / (1. + libm::exp(-x)),
            Fun::Tanh => libm::tanh(x),
            Fun::Erf => libm::erf(x),
            Fun::Sin => libm::sin(x),
            Fun::Cos => libm::cos(x),
        }) as f32
    }

    /// True if the documented bound applies to `x`; otherwise only the class
    /// of the result (NaN / infinite / finite) is compared.
    fn bound_applies(self, x: f32) -> bool {
        match self {
            Fun::Sin | Fun::Cos => x.abs() <= SIN_COS_RANGE,
            _ => true,
        }
    }
}

/// In-place map, identical to `SimdMapOp` in rten-simd/src/dispatch.rs (what
/// `SimdUnaryOp::map_mut` dispatches), but evaluated under a chosen ISA.
struct MapMut<'a, F: SimdUnaryOp<f32>> {
    f: &'a F,
    buf: &'a mut [f32],
}

impl<F: SimdUnaryOp<f32>> SimdOp for MapMut<'_, F> {
    type Output = ();

    #[inline(always)]
    fn eval<I: Isa>(self, isa: I) {
        simd_map(
            isa.f32(),
            self.buf,
            #[inline(always)]
            |x| self.f.eval(isa, x),
        );
    }
}

fn eval_direct(fun: Fun, isa: IsaKind, buf: &mut [f32]) {
    match fun {
        Fun::Exp => run_on(isa, MapMut { f: &Exp {}, buf }),
        Fun::Sigmoid => run_on(isa, MapMut { f: &Sigmoid {}, buf }),
        Fun::Tanh => run_on(isa, MapMut { f: &Tanh {}, buf }),
        Fun::Erf => run_on(isa, MapMut { f: &Erf {}, buf }),
        Fun::Sin => run_on(isa, MapMut { f: &Sin::new(), buf }),
        Fun::Cos => run_on(isa, MapMut { f: &Cos::new(), buf }),
    }
}

/// The public path: `SimdUnaryOp::map_mut` with the forced-ISA hook set by the
/// caller (single-threaded sections only).
fn eval_public(fun: Fun, buf: &mut [f32]) {
    match fun {
        Fun::Exp => Exp {}.map_mut(buf),
        Fun::Sigmoid => Sigmoid {}.map_mut(buf),
        Fun::Tanh => Tanh {}.map_mut(buf),
        Fun::Erf => Erf {}.map_mut(buf),
        Fun::Sin => Sin::new().map_mut(buf),
        Fun::Cos => Cos::new().map_mut(buf),
    }
}

/// `Ulp::ulp` of rten-vecmath/src/ulp.rs, literally (including `f32::MIN` for
/// zero, which makes the in-tree check accept anything when the reference is
/// exactly zero).
fn ulp_intree(x: f32) -> f32 {
    if x.is_nan() {
        x
    } else if x.is_infinite() {
        f32::INFINITY
    } else if x == 0. {
        f32::MIN
    } else if x == f32::MIN || x == f32::MAX {
        f32::from_bits((127 + 104) << 23)
    } else {
        let next_up = f32::from_bits(x.to_bits() + 1);
        (next_up - x).abs()
    }
}

#[derive(Clone, Copy, PartialEq, Debug)]
enum Err1 {
    /// Error in the unit of the function's tolerance (ULPs or absolute).
    Val(f32),
    /// NaN / infinity status differs from the reference.
    Class,
}

/// Error of `actual` w.r.t. `expected` as the in-tree checks compute it.
fn error_of(tol: Tol, actual: f32, expected: f32) -> Err1 {
    if actual == expected || (actual.is_nan() && expected.is_nan()) {
        return Err1::Val(0.0);
    }
    if actual.is_nan() != expected.is_nan() || actual.is_infinite() != expected.is_infinite() {
        return Err1::Class;
    }
    if actual.is_infinite() {
        // both infinite, opposite signs
        return Err1::Class;
    }
    let diff = (actual - expected).abs();
    match tol {
        Tol::Ulp(_) => Err1::Val((diff / ulp_intree(expected)).max(0.0)),
        Tol::Abs(_) => Err1::Val(diff),
    }
}

fn class_only(actual: f32, expected: f32) -> Err1 {
    if actual.is_nan() != expected.is_nan() || actual.is_infinite() != expected.is_infinite() {
        Err1::Class
    } else {
        Err1::Val(0.0)
    }
}

fn exceeds(tol: Tol, e: Err1) -> bool {
    match (tol, e) {
        (_, Err1::Class) => true,
        (Tol::Ulp(t), Err1::Val(v)) | (Tol::Abs(t), Err1::Val(v)) => !(v <= t),
    }
}

fn severity(e: Err1) -> f32 {
    match e {
        Err1::Class => f32::INFINITY,
        Err1::Val(v) => v,
    }
}

#[derive(Clone, Copy, Debug)]
struct Worst {
    err: f32,
    bits: u32,
}

impl Worst {
    const NONE: Worst = Worst { err: -1.0, bits: 0 };
    fn update(&mut self, err: f32, bits: u32) {
        if err > self.err || (err == self.err && bits < self.bits) {
            *self = Worst { err, bits };
        }
    }
    fn merge(&mut self, o: Worst) {
        if o.err >= 0.0 {
            self.update(o.err, o.bits);
        }
    }
}

/// Per (function, ISA) statistics.
#[derive(Clone, Debug)]
struct Stat {
    n: u64,
    n_bounded: u64,
    worst: [Worst; 2],
    class_mismatch: [u64; 2],
    first_class_mismatch: [Option<u32>; 2],
    exceed: [u64; 2],
    exceed_both: u64,
    /// Worst argument exceeding the bound against both references, by the
    /// error against the f64 reference (ties: smallest bit pattern).
    worst_both: Worst,
    /// Up to 16 arguments (smallest bit patterns) exceeding against both.
    both_list: Vec<u32>,
    zero_sign_differs: u64,
    ref_zero_nonzero_result: u64,
    refs_disagree_on_verdict: u64,
}

impl Stat {
    fn new() -> Stat {
        Stat {
            n: 0,
            n_bounded: 0,
            worst: [Worst::NONE; 2],
            class_mismatch: [0; 2],
            first_class_mismatch: [None; 2],
            exceed: [0; 2],
            exceed_both: 0,
            worst_both: Worst::NONE,
            both_list: Vec::new(),
            zero_sign_differs: 0,
            ref_zero_nonzero_result: 0,
            refs_disagree_on_verdict: 0,
        }
    }
    fn merge(&mut self, o: &Stat) {
        self.n += o.n;
        self.n_bounded += o.n_bounded;
        for r in 0..2 {
            self.worst[r].merge(o.worst[r]);
            self.class_mismatch[r] += o.class_mismatch[r];
            self.first_class_mismatch[r] = match (self.first_class_mismatch[r], o.first_class_mismatch[r]) {
                (Some(a), Some(b)) => Some(a.min(b)),
                (a, b) => a.or(b),
            };
            self.exceed[r] += o.exceed[r];
        }
        self.exceed_both += o.exceed_both;
        self.worst_both.merge(o.worst_both);
        self.both_list.extend_from_slice(&o.both_list);
        self.both_list.sort_unstable();
        self.both_list.dedup();
        self.both_list.truncate(16);
        self.zero_sign_differs += o.zero_sign_differs;
        self.ref_zero_nonzero_result += o.ref_zero_nonzero_result;
        self.refs_disagree_on_verdict += o.refs_disagree_on_verdict;
    }
    fn observe(&mut self, fun: Fun, x: f32, y: f32, r32: f32, r64: f32) {
        let tol = fun.tol();
        self.n += 1;
        let bounded = fun.bound_applies(x);
        let errs = if bounded { [error_of(tol, y, r32), error_of(tol, y, r64)] } else { [class_only(y, r32), class_only(y, r64)] };
        if bounded {
            self.n_bounded += 1;
        }
        let mut ex = [false; 2];
        for r in 0..2 {
            match errs[r] {
                Err1::Class => {
                    self.class_mismatch[r] += 1;
                    let b = x.to_bits();
                    self.first_class_mismatch[r] = Some(self.first_class_mismatch[r].map_or(b, |p| p.min(b)));
                }
                Err1::Val(v) => self.worst[r].update(v, x.to_bits()),
            }
            ex[r] = exceeds(tol, errs[r]);
            if ex[r] {
                self.exceed[r] += 1;
            }
        }
        if ex[0] && ex[1] {
            self.exceed_both += 1;
            // Ranked by the error against the f64 reference, which does not
            // depend on the host's libm.
            self.worst_both.update(severity(errs[1]), x.to_bits());
            if self.both_list.len() < 16 || x.to_bits() < *self.both_list.last().unwrap() {
                self.both_list.push(x.to_bits());
                self.both_list.sort_unstable();
                self.both_list.dedup();
                self.both_list.truncate(16);
            }
        } else if ex[0] != ex[1] {
            self.refs_disagree_on_verdict += 1;
        }
        if y == 0.0 && r64 == 0.0 && y.to_bits() != r64.to_bits() {
            self.zero_sign_differs += 1;
        }
        if r32 == 0.0 && y != 0.0 && !y.is_nan() {
            self.ref_zero_nonzero_result += 1;
        }
    }
}

struct ChunkBufs {
    x: Vec<f32>,
    y: Vec<f32>,
    r32: Vec<f32>,
    r64: Vec<f32>,
}

/// Evaluate one function on `bits` under each ISA; update `stats[isa]`.
fn eval_chunk(fun: Fun, isas: &[IsaKind], bits: &[u32], bufs: &mut ChunkBufs, stats: &mut [Stat]) {
    bufs.x.clear();
    bufs.x.extend(bits.iter().map(|b| f32::from_bits(*b)));
    if matches!(fun, Fun::Sin | Fun::Cos) {
        // Sin/Cos evaluate a whole vector with the standard library when any
        // lane is >= 48000 in magnitude: keep such arguments apart so that
        // in-range arguments always take the vectorised path.
        bufs.x.sort_by_key(|x| !(x.abs() >= SIN_COS_RANGE) as u8);
        let n_large = bufs.x.iter().take_while(|x| x.abs() >= SIN_COS_RANGE).count();
        // pad the "large" group to a multiple of 16 lanes with another large
        // value so that the boundary between the groups is vector aligned
        let pad = (16 - n_large % 16) % 16;
        if n_large > 0 && pad > 0 {
            let filler = bufs.x[0];
            for _ in 0..pad {
                bufs.x.insert(n_large, filler);
            }
        }
    }
    let n = bufs.x.len();
    bufs.r32.clear();
    bufs.r64.clear();
    bufs.r32.extend(bufs.x.iter().map(|x| fun.ref32(*x)));
    // Outside the bounded domain (Sin/Cos beyond +-48000) only the class of the
    // result is compared; the (slow, Payne-Hanek) f64 evaluation is skipped.
    bufs.r64.extend(bufs.x.iter().zip(&bufs.r32).map(|(x, r)| if fun.bound_applies(*x) { fun.ref64(*x) } else { *r }));
    for (k, &isa) in isas.iter().enumerate() {
        bufs.y.clear();
        bufs.y.extend_from_slice(&bufs.x);
        eval_direct(fun, isa, &mut bufs.y[..n]);
        let st = &mut stats[k];
        for i in 0..n {
            st.observe(fun, bufs.x[i], bufs.y[i], bufs.r32[i], bufs.r64[i]);
        }
    }
}

/// Arguments previously observed as worst cases on this host (kept in the
/// quick sample so that both tiers see them).
const POINTS_OF_INTEREST: [u32; 7] = [
    0x3ef2_414f, // 0.47315452: tanh 4 ULP vs glibc tanhf (2 ULP vs f64), DESIGN C19
    0xc733_2eea, // -45870.914: sin, DESIGN C19
    0x4732_d0ad, // 45776.676: worst sin argument under AVX2 / AVX-512 (exhaustive sweep)
    0x4718_4209, // 38978.035: worst sin argument under the generic ISA (vs the f64 reference)
    0x4719_bb09, // 39355.035: worst sin argument under the generic ISA (vs the f32 reference)
    0xc730_4df6, // -45133.96: worst cos argument under the generic ISA
    0x3d1b_8342, // 0.037966974: worst erf argument (generic ISA, exactly at the bound)
];

/// Quick-tier sample: every 1024th bit pattern, plus every pattern within 64 of
/// an exponent boundary, of the documented cut-offs and of multiples of pi/2 up
/// to 48000. Deterministic (independent of the seed).
fn quick_sample() -> Vec<u32> {
    let mut v: Vec<u32> = Vec::with_capacity(14_000_000);
    for k in 0..(1u32 << 22) {
        v.push(k << 10);
    }
    let around = |v: &mut Vec<u32>, b: u32| {
        for d in -64i64..=64 {
            let x = b as i64 + d;
            if (0..=u32::MAX as i64).contains(&x) {
                v.push(x as u32);
            }
        }
    };
    for sign in 0..2u32 {
        for e in 0..=255u32 {
            around(&mut v, (sign << 31) | (e << 23));
        }
        around(&mut v, (sign << 31) | 0x7fff_ffff);
    }
    let exp_lower_cutoff: f32 = -126.5 * std::f32::consts::LN_2 + 0.01; // exp.rs EXP_LOWER_CUTOFF
    let cutoffs: [f32; 14] = [
        104.0,                      // exp.rs overflow / underflow masks
        exp_lower_cutoff.abs(),     // exp.rs ReducedRangeExp underflow
        (-exp_lower_cutoff).sqrt(), // erf: exp(-x^2) reaches the cutoff
        52.0,                       // tanh: 2x reaches exp's overflow mask
        9.02,                       // tanh.rs x_cutoff
        0.0004,                     // tanh.rs x_tiny
        0.55,                       // tanh.rs x_small
        48_000.0,                   // sin_cos.rs LARGE_THRESHOLD
        std::f32::consts::LN_2 / 2.0,
        88.72284,  // ln(f32::MAX)
        87.33655,  // -ln(f32::MIN_POSITIVE)
        103.27893, // -ln(smallest subnormal)
        16.635532, // sigmoid saturates to 1
        1.0,
    ];
    for c in cutoffs {
        around(&mut v, c.to_bits());
        around(&mut v, (-c).to_bits());
    }
    let mut k = 1u32;
    loop {
        let x = (k as f64 * std::f64::consts::FRAC_PI_2) as f32;
        if x > SIN_COS_RANGE {
            break;
        }
        around(&mut v, x.to_bits());
        around(&mut v, (-x).to_bits());
        k += 1;
    }
    for p in POINTS_OF_INTEREST {
        around(&mut v, p);
    }
    v.sort_unstable();
    v.dedup();
    v
}

fn stat_json(fun: Fun, st: &Stat) -> Json {
    let unit = match fun.tol() {
        Tol::Ulp(_) => "ulp",
        Tol::Abs(_) => "absolute",
    };
    let w = |w: Worst| {
        if w.err < 0.0 {
            json!(null)
        } else {
            json!({"error": w.err, "unit": unit, "x_bits": format!("0x{:08x}", w.bits), "x": f32::from_bits(w.bits)})
        }
    };
    json!({
        "arguments": st.n, "arguments_in_bounded_domain": st.n_bounded,
        "worst_vs_f32_reference": w(st.worst[0]), "worst_vs_f64_reference": w(st.worst[1]),
        "exceeding_bound_vs_f32_reference": st.exceed[0], "exceeding_bound_vs_f64_reference": st.exceed[1],
        "exceeding_bound_vs_both": st.exceed_both,
        "first_arguments_exceeding_vs_both": st.both_list.iter().map(|b| format!("0x{:08x}", b)).collect::<Vec<_>>(),
        "class_mismatch_vs_f32_reference": st.class_mismatch[0], "class_mismatch_vs_f64_reference": st.class_mismatch[1],
        "first_class_mismatch_bits": [st.first_class_mismatch[0].map(|b| format!("0x{:08x}", b)), st.first_class_mismatch[1].map(|b| format!("0x{:08x}", b))],
        "zero_results_with_sign_differing_from_f64_reference": st.zero_sign_differs,
        "f32_reference_exactly_zero_but_result_nonzero": st.ref_zero_nonzero_result,
        "references_disagree_on_verdict": st.refs_disagree_on_verdict,
    })
}

/// Evaluate a single argument (splat over 64 lanes) and describe it.
fn point_report(fun: Fun, isa: IsaKind, bits: u32) -> (bool, Json) {
    let x = f32::from_bits(bits);
    let mut buf = vec![x; 64];
    eval_direct(fun, isa, &mut buf);
    let y = buf[0];
    let (r32, r64) = (fun.ref32(x), fun.ref64(x));
    let tol = fun.tol();
    let bounded = fun.bound_applies(x);
    let (e32, e64) = if bounded { (error_of(tol, y, r32), error_of(tol, y, r64)) } else { (class_only(y, r32), class_only(y, r64)) };
    let show = |e: Err1| match e {
        Err1::Class => json!("class mismatch"),
        Err1::Val(v) => json!(v),
    };
    let viol = exceeds(tol, e32) && exceeds(tol, e64);
    (
        viol,
        json!({
            "mode": "math", "fun": fun.name(), "isa": isa_name(isa), "x_bits": format!("0x{:08x}", bits), "x": format!("{:e}", x),
            "result": format!("{:e}", y), "result_bits": format!("0x{:08x}", y.to_bits()),
            "f32_reference": format!("{:e}", r32), "f32_reference_bits": format!("0x{:08x}", r32.to_bits()),
            "f64_reference_rounded": format!("{:e}", r64), "f64_reference_bits": format!("0x{:08x}", r64.to_bits()),
            "error_vs_f32_reference": show(e32), "error_vs_f64_reference": show(e64),
            "bound": format!("{:?}", tol), "all_lanes_equal": buf.iter().all(|v| v.to_bits() == y.to_bits()),
        }),
    )
}

fn report_point(rep: &mut Report, fun: Fun, isa: IsaKind, bits: u32, others: u64) {
    let (viol, w) = point_report(fun, isa, bits);
    if !viol {
        rep.note(&format!("unconfirmed_{}_{}", fun.name(), isa_name(isa)), json!({"bits": format!("0x{:08x}", bits), "note": "flagged in the sweep but not reproduced alone; not reported"}));
        rep.count("math_unreproduced_points");
        return;
    }
    rep.violation(
        format!("C19|{}|{}|x=0x{:08x}", fun.name(), isa_name(isa), bits),
        format!(
            "{} under the {} ISA at x = {} (bits 0x{:08x}) gives {}; f32 reference {} (error {}), f64 reference rounded to f32 {} (error {}); documented bound {:?} is exceeded against both; {} other argument(s) also exceed it against both under this ISA",
            fun.name(), isa_name(isa), w["x"].as_str().unwrap(), bits, w["result"].as_str().unwrap(), w["f32_reference"].as_str().unwrap(), w["error_vs_f32_reference"],
            w["f64_reference_rounded"].as_str().unwrap(), w["error_vs_f64_reference"], fun.tol(), others
        ),
        w,
    );
}

// ---------------------------------------------------------------- softmax

#[derive(Clone, Copy, Debug, PartialEq)]
enum SmVariant {
    New,
    NewMut,
    NewFlush,
    NewMutFlush,
}

const SM_VARIANTS: [SmVariant; 4] = [SmVariant::New, SmVariant::NewMut, SmVariant::NewFlush, SmVariant::NewMutFlush];

fn run_softmax(isa: IsaKind, variant: SmVariant, input: &[f32]) -> Vec<f32> {
    match variant {
        SmVariant::New | SmVariant::NewFlush => {
            let mut out: Vec<MaybeUninit<f32>> = vec![MaybeUninit::new(f32::NAN); input.len()];
            let op = Softmax::new(input, &mut out).flush_nans_to_zero(variant == SmVariant::NewFlush);
            run_on(isa, op).to_vec()
        }
        _ => {
            let mut buf = input.to_vec();
            let op = Softmax::new_mut(&mut buf).flush_nans_to_zero(variant == SmVariant::NewMutFlush);
            run_on(isa, op);
            buf
        }
    }
}

const SM_PATTERNS: [&str; 10] = [
    "uniform(-10,10)",
    "large_magnitude",
    "all_equal",
    "some_neg_inf",
    "all_neg_inf",
    "one_dominant",
    "near_max",
    "subnormal_and_zero",
    "wide_range",
    "random_finite_bits",
];

fn gen_softmax(rng: &mut Rng, pattern: usize, n: usize) -> Vec<f32> {
    match pattern {
        0 => (0..n).map(|_| rng.f32_in(-10.0, 10.0)).collect(),
        1 => (0..n).map(|_| if rng.bool() { 1.0 } else { -1.0 } * rng.f32_in(1e30, 3.4e38)).collect(),
        2 => {
            let v = *rng.choose(&[0.0f32, -0.0, 1.0, -1e30, 3.4e38, -3.4e38, 88.0, -104.0, 1e-40]);
            let v = if rng.chance(1, 3) { rng.f32_in(-1e4, 1e4) } else { v };
            vec![v; n]
        }
        3 => {
            let mut v: Vec<f32> = (0..n).map(|_| if rng.chance(1, 3) { f32::NEG_INFINITY } else { rng.f32_in(-50.0, 50.0) }).collect();
            // at least one finite entry
            let i = rng.below(n);
            v[i] = rng.f32_in(-50.0, 50.0);
            v
        }
        4 => vec![f32::NEG_INFINITY; n],
        5 => {
            let mut v = vec![-1000.0f32; n];
            let i = rng.below(n);
            v[i] = 1000.0;
            v
        }
        6 => {
            let m = rng.f32_in(-100.0, 100.0);
            (0..n).map(|_| m - rng.f32_in(0.0, 1e-3)).collect()
        }
        7 => (0..n).map(|_| *rng.choose(&[0.0f32, -0.0, 1e-45, -1e-45, 1e-39, -1e-39, f32::MIN_POSITIVE])).collect(),
        8 => (0..n).map(|_| rng.f32_in(-120.0, 120.0)).collect(),
        _ => (0..n)
            .map(|_| loop {
                let x = f32::from_bits(rng.next_u32());
                if x.is_finite() {
                    break x;
                }
            })
            .collect(),
    }
}

/// Returns a description of what is wrong with `out`, if anything.
fn softmax_wrong(input: &[f32], out: &[f32], variant: SmVariant) -> Option<String> {
    let n = input.len();
    if out.len() != n {
        return Some(format!("output has {} elements for {} inputs", out.len(), n));
    }
    let all_neg_inf = input.iter().all(|x| *x == f32::NEG_INFINITY);
    let flush = matches!(variant, SmVariant::NewFlush | SmVariant::NewMutFlush);
    if all_neg_inf {
        // Documented: NaN normally, zeros with flush_nans_to_zero. Neither
        // sums to one; only the flushed variant is checked (non-negative).
        if flush {
            if let Some(i) = out.iter().position(|y| !(*y >= 0.0)) {
                return Some(format!("output[{}] = {} for all -inf input with flush_nans_to_zero", i, out[i]));
            }
        }
        return None;
    }
    if let Some(i) = out.iter().position(|y| !(*y >= 0.0)) {
        return Some(format!("output[{}] = {} is negative or NaN", i, out[i]));
    }
    let sum: f64 = out.iter().map(|y| *y as f64).sum();
    if !((sum - 1.0).abs() <= 1e-6 * n as f64) {
        return Some(format!("outputs sum to {} (tolerance 1e-6 * {})", sum, n));
    }
    None
}

fn softmax_part(rep: &mut Report, args: &Args, isas: &[IsaKind]) {
    let n_cases = args.budget(40_000, 2_000_000);
    let found: Vec<(usize, usize, usize, u64, String)> = (0..n_cases)
        .into_par_iter()
        .filter_map(|case| {
            let mut rng = Rng::derive(args.seed, 0xC19_5000 + case * args.shards as u64 + args.shard as u64);
            let pattern = rng.below(SM_PATTERNS.len());
            let n = if rng.chance(1, 4) { rng.urange(1, 20) } else { rng.urange(1, 300) };
            let input = gen_softmax(&mut rng, pattern, n);
            for (k, &isa) in isas.iter().enumerate() {
                for (vi, &variant) in SM_VARIANTS.iter().enumerate() {
                    let out = run_softmax(isa, variant, &input);
                    if let Some(msg) = softmax_wrong(&input, &out, variant) {
                        return Some((k, vi, pattern, case, format!("{} (n = {})", msg, n)));
                    }
                }
            }
            None
        })
        .collect();
    rep.evaluations += n_cases * (isas.len() * SM_VARIANTS.len()) as u64;
    rep.add("softmax_vectors", n_cases);
    rep.add("softmax_evaluations", n_cases * (isas.len() * SM_VARIANTS.len()) as u64);
    for p in 0..SM_PATTERNS.len() {
        for isa in isas {
            rep.nontrivial(&("softmax", p, isa_name(*isa)));
        }
    }
    rep.note("softmax_patterns", json!(SM_PATTERNS));
    rep.note(
        "softmax_documented_exclusions",
        json!("softmax.rs `flush_nans_to_zero`: 'the case where the input values are all negative infinity. In that case the normal output would be NaN' -> all -inf input is excluded from the sum check (with flush the documented zeros are checked to be non-negative); inputs containing NaN or +inf are not generated (x - max is NaN)"),
    );
    // Keep the smallest case number per (isa, variant, pattern); shrink by
    // truncating the vector.
    let mut best: std::collections::BTreeMap<(usize, usize, usize), (u64, String)> = Default::default();
    for (k, vi, p, case, msg) in found {
        let e = best.entry((k, vi, p)).or_insert((case, msg.clone()));
        if case < e.0 {
            *e = (case, msg);
        }
    }
    for ((k, vi, p), (case, msg)) in best {
        let mut rng = Rng::derive(args.seed, 0xC19_5000 + case * args.shards as u64 + args.shard as u64);
        let _ = rng.below(SM_PATTERNS.len());
        let n = if rng.chance(1, 4) { rng.urange(1, 20) } else { rng.urange(1, 300) };
        let mut input = gen_softmax(&mut rng, p, n);
        // shrink: shortest failing prefix (bounded)
        let mut lo = 1;
        for _ in 0..12 {
            if lo >= input.len() {
                break;
            }
            let mid = (lo + input.len()) / 2;
            let out = run_softmax(isas[k], SM_VARIANTS[vi], &input[..mid]);
            if softmax_wrong(&input[..mid], &out, SM_VARIANTS[vi]).is_some() {
                input.truncate(mid);
            } else {
                lo = mid + 1;
            }
        }
        rep.violation(
            format!("C19|softmax|{}|{:?}|pattern={},n={}", isa_name(isas[k]), SM_VARIANTS[vi], SM_PATTERNS[p], input.len()),
            format!("Softmax ({:?}) under the {} ISA on a {} vector: {}", SM_VARIANTS[vi], isa_name(isas[k]), SM_PATTERNS[p], msg),
            json!({"mode": "softmax", "isa": isa_name(isas[k]), "variant": vi, "input_bits": input.iter().map(|x| x.to_bits()).collect::<Vec<_>>()}),
        );
    }
}

// ---------------------------------------------------------------- entry

const RULE: &str = "for each of Exp, Sigmoid, Tanh, Erf, Sin, Cos and each available ISA the public vectorised operation is applied in place (simd_map, as SimdUnaryOp::map_mut does) to f32 arguments - thorough: all 2^32 bit patterns; quick: every 1024th bit pattern plus every pattern within 64 of an exponent boundary, of the documented cut-offs and of multiples of pi/2 up to 48000 (seed independent) - and each result is compared, with the in-tree tests' own error definition and bounds, against the f32 reference the in-tree ignored exhaustive tests use and against the same function evaluated in f64 (libm crate) and rounded to f32; an argument is a violation only if the bound (or the NaN/infinity class) fails against both references; per (function, ISA) only the worst such argument is reported, the others are counted; Softmax (new/new_mut, with and without flush_nans_to_zero) on random vectors of length 1-300 in ten patterns (uniform, large magnitudes, all equal, -inf entries, all -inf, one dominant, near-max, subnormals, wide range, random finite bit patterns): outputs non-negative and summing to 1 within 1e-6*n; a case is non-trivial when the function really ran under that ISA on arguments of a distinct binade / pattern; distinct by (function, ISA, sign, exponent) and (softmax pattern, ISA)";

pub fn run(args: &Args) {
    let mut rep = Report::new("C19", "simdcheck math", args, RULE);
    if cfg!(miri) {
        rep.inconclusive = Some("Miri cannot execute AVX2/AVX-512 intrinsics; simdcheck needs a native build".into());
        rep.finish();
        return;
    }
    let isas = available_isas();
    rep.note("isas_available", json!(isas.iter().map(|k| isa_name(*k)).collect::<Vec<_>>()));
    rep.note(
        "isas_unavailable",
        json!(ALL_ISAS.iter().filter(|k| !isas.contains(k)).map(|k| isa_name(*k)).collect::<Vec<_>>()),
    );
    for k in ALL_ISAS {
        if !isas.contains(&k) {
            rep.count(&format!("isa_unavailable_{}", isa_name(k)));
        }
    }

    if let Some(path) = &args.replay {
        let w: Json = serde_json::from_str(&std::fs::read_to_string(path).unwrap()).unwrap();
        let w = if w.get("witness").is_some() { w["witness"].clone() } else { w };
        let isa = isa_from_name(w["isa"].as_str().unwrap()).unwrap();
        if !isas.contains(&isa) {
            rep.inconclusive = Some(format!("ISA {} unavailable on this machine", isa_name(isa)));
            rep.finish();
            return;
        }
        rep.eval();
        match w["mode"].as_str() {
            Some("math") => {
                let fun = Fun::from_name(w["fun"].as_str().unwrap()).unwrap();
                let bits = u32::from_str_radix(w["x_bits"].as_str().unwrap().trim_start_matches("0x"), 16).unwrap();
                rep.nontrivial(&(fun.name(), isa_name(isa), bits));
                report_point(&mut rep, fun, isa, bits, 0);
            }
            Some("softmax") => {
                let input: Vec<f32> = w["input_bits"].as_array().unwrap().iter().map(|b| f32::from_bits(b.as_u64().unwrap() as u32)).collect();
                let vi = w["variant"].as_u64().unwrap() as usize;
                rep.nontrivial(&("softmax", isa_name(isa), vi));
                let out = run_softmax(isa, SM_VARIANTS[vi], &input);
                if let Some(msg) = softmax_wrong(&input, &out, SM_VARIANTS[vi]) {
                    rep.violation(
                        format!("C19|softmax|{}|{:?}|replay,n={}", isa_name(isa), SM_VARIANTS[vi], input.len()),
                        format!("Softmax ({:?}) under the {} ISA: {}", SM_VARIANTS[vi], isa_name(isa), msg),
                        w.clone(),
                    );
                }
            }
            other => panic!("unknown witness mode {:?}", other),
        }
        rep.finish();
        return;
    }

    let only_fun = args.get("fun").and_then(Fun::from_name);

    // 1. The public path (SimdUnaryOp::map_mut through dispatch with the
    //    forced-ISA hook) and the harness's direct ISA instantiation must agree
    //    bit for bit; single-threaded, before rayon starts.
    let t_sample = std::time::Instant::now();
    let sample: Vec<u32> = if args.thorough || args.get("full").is_some() { Vec::new() } else { quick_sample() };
    rep.note("wall_s_sample_generation", json!(t_sample.elapsed().as_secs_f64()));
    let t_pub = std::time::Instant::now();
    {
        let probe: Vec<u32> = if sample.is_empty() { (0..(1u32 << 20)).map(|k| k << 12).collect() } else { sample.iter().copied().step_by(16).collect() };
        let xs: Vec<f32> = probe.iter().map(|b| f32::from_bits(*b)).collect();
        let mut diff = 0u64;
        for fun in FUNS {
            for &isa in &isas {
                let mut a = xs.clone();
                let mut b = xs.clone();
                assert!(set_forced_isa(Some(isa)));
                eval_public(fun, &mut a);
                set_forced_isa(None);
                eval_direct(fun, isa, &mut b);
                diff += a.iter().zip(&b).filter(|(p, q)| p.to_bits() != q.to_bits()).count() as u64;
            }
        }
        rep.add("public_map_mut_vs_direct_isa_arguments", (xs.len() * FUNS.len() * isas.len()) as u64);
        rep.add("public_map_mut_vs_direct_isa_bit_differences", diff);
        if diff > 0 {
            rep.inconclusive = Some(format!("harness: SimdUnaryOp::map_mut under the forced-ISA hook and the direct ISA instantiation differ on {} arguments", diff));
            rep.finish();
            return;
        }
    }

    rep.note("wall_s_public_vs_direct", json!(t_pub.elapsed().as_secs_f64()));

    // 2. Sweep.
    let exhaustive = sample.is_empty();
    const CHUNK: usize = 1 << 16;
    let n_chunks: usize = if exhaustive { 1 << 16 } else { sample.len().div_ceil(CHUNK) };
    for fun in FUNS {
        if only_fun.is_some_and(|f| f != fun) {
            continue;
        }
        let t0 = std::time::Instant::now();
        let stats: Vec<Stat> = (0..n_chunks)
            .into_par_iter()
            .filter(|c| c % args.shards == args.shard)
            .fold(
                || (vec![Stat::new(); isas.len()], ChunkBufs { x: Vec::new(), y: Vec::new(), r32: Vec::new(), r64: Vec::new() }, Vec::<u32>::new()),
                |(mut stats, mut bufs, mut bits), c| {
                    bits.clear();
                    if exhaustive {
                        bits.extend((0..CHUNK as u32).map(|i| ((c as u32) << 16) | i));
                    } else {
                        bits.extend_from_slice(&sample[c * CHUNK..((c + 1) * CHUNK).min(sample.len())]);
                    }
                    eval_chunk(fun, &isas, &bits, &mut bufs, &mut stats);
                    (stats, bufs, bits)
                },
            )
            .map(|(stats, _, _)| stats)
            .reduce(
                || vec![Stat::new(); isas.len()],
                |mut a, b| {
                    for (x, y) in a.iter_mut().zip(&b) {
                        x.merge(y);
                    }
                    a
                },
            );
        for (k, &isa) in isas.iter().enumerate() {
            let st = &stats[k];
            rep.evaluations += st.n;
            rep.add(&format!("arguments_{}_{}", fun.name(), isa_name(isa)), st.n);
            rep.add(&format!("exceed_both_references_{}_{}", fun.name(), isa_name(isa)), st.exceed_both);
            rep.add(&format!("exceed_f32_reference_only_or_both_{}_{}", fun.name(), isa_name(isa)), st.exceed[0]);
            rep.add(&format!("exceed_f64_reference_only_or_both_{}_{}", fun.name(), isa_name(isa)), st.exceed[1]);
            rep.note(&format!("stats_{}_{}", fun.name(), isa_name(isa)), stat_json(fun, st));
            if st.worst_both.err >= 0.0 {
                report_point(&mut rep, fun, isa, st.worst_both.bits, st.exceed_both - 1);
            }
            // Evidence: the worst arguments against each reference.
            for r in 0..2 {
                if st.worst[r].err >= 0.0 && rep.wants_sample() && k == isas.len() - 1 {
                    let (_, w) = point_report(fun, isa, st.worst[r].bits);
                    rep.sample(|| w);
                }
            }
            // non-trivial identities: (function, ISA, binade) actually evaluated
            if exhaustive {
                for se in 0..512u32 {
                    if (se as usize) % args.shards == args.shard || args.shards == 1 {
                        rep.nontrivial(&(fun.name(), isa_name(isa), se));
                    }
                }
            }
        }
        if !exhaustive {
            let mut seen = [false; 512];
            for b in &sample {
                seen[(b >> 23) as usize] = true;
            }
            for (se, s) in seen.iter().enumerate() {
                if *s {
                    for isa in &isas {
                        rep.nontrivial(&(fun.name(), isa_name(*isa), se as u32));
                    }
                }
            }
        }
        rep.note(&format!("documented_bound_{}", fun.name()), json!(fun.quote()));
        rep.note(&format!("wall_s_{}", fun.name()), json!(t0.elapsed().as_secs_f64()));
    }
    rep.note(
        "ulp_definition",
        json!("rten-vecmath/src/testing.rs check_f32s_are_equal_ulps: equal values pass; NaN status and infinite status must match the reference; otherwise |actual - expected| (f32) / expected.ulp() <= threshold, with ulp.rs Ulp::ulp(x) = |x.next_bit_pattern - x| (2^104 at +-MAX, and f32::MIN for 0, i.e. any finite result passes when the reference is exactly 0; counted as f32_reference_exactly_zero_but_result_nonzero); check_f32s_are_equal_atol: both NaN pass, else |actual - expected| <= max_diff. Stricter here only in: infinities of opposite sign are a class mismatch. Sign of zero is not compared (the in-tree checks use ==); differences are counted."),
    );
    rep.note("sample", json!(if exhaustive { "all 2^32 bit patterns".to_string() } else { format!("{} bit patterns (seed independent)", sample.len()) }));
    if exhaustive && args.shards == 1 && only_fun.is_none() {
        rep.exhaustive = true;
    }

    // 3. Softmax
    if only_fun.is_none() {
        let t_sm = std::time::Instant::now();
        softmax_part(&mut rep, args, &isas);
        rep.note("wall_s_softmax", json!(t_sm.elapsed().as_secs_f64()));
    }
    rep.finish();
}
