//! C16: f32 GEMM of every kernel vs an f64 reference, with poisoned outputs
//! and operands on guard pages.
use std::mem::MaybeUninit;

use rten_gemm::{BiasVector, GemmExecutor, GemmInputA, GemmInputB, GemmOptions, GemmUninitOptions, Im2Col, PackedAMatrix, PackedBMatrix};
use rten_tensor::Matrix;
use vcommon::guard::GuardPos;
use vcommon::*;

use crate::common::*;

const POISON_BITS: u32 = 0xFFFF_FFFF;
const EPS: f64 = f32::EPSILON as f64;
const ABS_SLACK: f64 = 1e-35;

pub const ALPHAS: [f32; 4] = [0.0, 1.0, -1.0, 0.5];
pub const BETAS: [f32; 3] = [0.0, 1.0, -0.5];

#[derive(Clone, Debug, PartialEq)]
pub struct Member {
    pub m: usize,
    pub n: usize,
    /// Columns of A.
    pub ka: usize,
    /// Rows of B (differs from `ka` only in deliberately ill-formed cases).
    pub kb: usize,
    pub a_lay: Lay,
    pub b_lay: Lay,
}

#[derive(Clone, Debug, PartialEq)]
pub struct Case {
    pub kernel: String,
    /// 0 gemm, 1 gemm_uninit, 2 batched_gemm_uninit.
    pub api: u8,
    pub members: Vec<Member>,
    /// Batched only: number of B inputs minus number of A inputs.
    pub b_extra: usize,
    /// Batched only: 0 = out length batch*M0*N0, 1 = sum of member sizes.
    pub out_len_mode: u8,
    /// 0 unpacked, 1 prepacked.
    pub a_form: u8,
    /// 0 unpacked, 1 prepacked, 2 im2col.
    pub b_form: u8,
    pub conv: Option<Conv>,
    pub alpha: f32,
    pub beta: f32,
    /// 0 none, 1 row (length N), 2 column (length M).
    pub bias: u8,
    pub vals: u8,
    pub prefill: u8,
    pub threads: usize,
    pub data_seed: u64,
}

impl Case {
    pub fn to_json(&self) -> Json {
        json!({
            "kernel": self.kernel, "api": self.api,
            "members": self.members.iter().map(|m| json!({"m": m.m, "n": m.n, "ka": m.ka, "kb": m.kb, "a_lay": m.a_lay.to_json(), "b_lay": m.b_lay.to_json()})).collect::<Vec<_>>(),
            "b_extra": self.b_extra, "out_len_mode": self.out_len_mode,
            "a_form": self.a_form, "b_form": self.b_form,
            "conv": self.conv.as_ref().map(|c| c.to_json()),
            "alpha": self.alpha, "beta": self.beta, "bias": self.bias,
            "vals": self.vals, "prefill": self.prefill, "threads": self.threads,
            "data_seed": self.data_seed.to_string(),
        })
    }

    pub fn from_json(j: &Json) -> Case {
        Case {
            kernel: js(j, "kernel"),
            api: ju(j, "api") as u8,
            members: j["members"]
                .as_array()
                .map(|a| {
                    a.iter()
                        .map(|m| Member { m: ju(m, "m"), n: ju(m, "n"), ka: ju(m, "ka"), kb: ju(m, "kb"), a_lay: Lay::from_json(&m["a_lay"]), b_lay: Lay::from_json(&m["b_lay"]) })
                        .collect()
                })
                .unwrap_or_default(),
            b_extra: ju(j, "b_extra"),
            out_len_mode: ju(j, "out_len_mode") as u8,
            a_form: ju(j, "a_form") as u8,
            b_form: ju(j, "b_form") as u8,
            conv: Conv::from_json(&j["conv"]),
            alpha: j["alpha"].as_f64().unwrap_or(1.0) as f32,
            beta: j["beta"].as_f64().unwrap_or(0.0) as f32,
            bias: ju(j, "bias") as u8,
            vals: ju(j, "vals") as u8,
            prefill: ju(j, "prefill") as u8,
            threads: ju(j, "threads").max(1),
            data_seed: j["data_seed"].as_str().and_then(|s| s.parse().ok()).unwrap_or(0),
        }
    }

    /// True if the arguments are consistent, so that a result is required.
    pub fn well_formed(&self) -> bool {
        if self.api != 2 {
            let m = &self.members[0];
            return m.ka == m.kb;
        }
        if self.b_extra != 0 {
            return false;
        }
        let Some(first) = self.members.first() else { return true };
        let stride = first.m * first.n;
        if self.out_len() != self.members.len() * stride {
            return false;
        }
        self.members.iter().all(|mb| {
            mb.ka == mb.kb
                && mb.m * mb.n == stride
                && match self.bias {
                    1 => mb.n == first.n,
                    2 => mb.m == first.m,
                    _ => true,
                }
        })
    }

    pub fn out_len(&self) -> usize {
        match (self.api, self.out_len_mode) {
            (2, 0) => self.members.first().map(|f| f.m * f.n * self.members.len()).unwrap_or(0),
            _ => self.members.iter().map(|m| m.m * m.n).sum(),
        }
    }

    pub fn api_name(&self) -> &'static str {
        match self.api {
            0 => "gemm",
            1 => "gemm_uninit",
            _ => "batched",
        }
    }

    /// Path label used in signatures and counters.
    pub fn path(&self) -> &'static str {
        if self.b_form == 2 {
            return "im2col";
        }
        if self.b_form == 1 {
            return "prepacked_b";
        }
        if self.a_form == 1 {
            return "prepacked_a";
        }
        if let [m] = self.members.as_slice() {
            if m.m == 1 && m.n > 0 && m.ka > 0 && m.ka == m.kb {
                return "gemv";
            }
        }
        self.api_name()
    }

    pub fn nontrivial(&self) -> bool {
        self.well_formed()
            && self.members.first().map(|m| m.m >= 1 && m.n >= 1 && m.ka >= 1 && !(m.m == 1 && m.n == 1 && m.ka == 1)).unwrap_or(false)
    }

    pub fn identity(&self) -> String {
        format!(
            "{}|{}|{}{}|{:?}|{}|{}|{}|{}",
            self.kernel,
            self.api,
            self.a_form,
            self.b_form,
            self.members.iter().map(|m| (m.m, m.n, m.ka, m.a_lay.kind, m.a_lay.pad, m.b_lay.kind, m.b_lay.pad)).collect::<Vec<_>>(),
            self.alpha,
            self.beta,
            self.bias,
            self.conv.as_ref().map(|c| c.to_json().to_string()).unwrap_or_default()
        )
    }
}

pub fn signature(case: &Case, kind: &str, guard: Option<GuardPos>) -> String {
    let mut parts = vec!["C16".to_string(), format!("kernel={}", case.kernel), format!("path={}", case.path()), format!("fail={}", kind)];
    if let Some(f) = case.members.first() {
        parts.push(format!("m={},n={},k={}", f.m, f.n, f.ka));
        if f.ka != f.kb {
            parts.push(format!("kb={}", f.kb));
        }
        if !f.a_lay.is_default() {
            parts.push(format!("a={}", f.a_lay.name()));
        }
        if !f.b_lay.is_default() && case.b_form != 2 {
            parts.push(format!("b={}", f.b_lay.name()));
        }
    }
    if case.api == 2 {
        parts.push(format!("batch={}", case.members.len()));
        if case.members.len() > 1 {
            let rest: Vec<String> = case.members[1..].iter().map(|m| format!("{}x{}x{}/{}", m.m, m.ka, m.kb, m.n)).collect();
            parts.push(format!("others=[{}]", rest.join(",")));
        }
        if case.b_extra != 0 {
            parts.push(format!("b_extra={}", case.b_extra));
        }
    }
    if case.path() != case.api_name() && case.api != 0 {
        parts.push(format!("api={}", case.api_name()));
    }
    if let Some(c) = &case.conv {
        if c.kh * c.kw > 1 || c.pt + c.pl + c.pb + c.pr > 0 || c.sh * c.sw > 1 {
            parts.push(format!("conv={}", c.to_json()));
        }
    }
    if case.alpha != 1.0 {
        parts.push(format!("alpha={}", case.alpha));
    }
    if case.beta != 0.0 {
        parts.push(format!("beta={}", case.beta));
    }
    if case.bias != 0 {
        parts.push(format!("bias={}", if case.bias == 1 { "row" } else { "col" }));
    }
    if case.threads > 1 {
        parts.push("threads>1".to_string());
    }
    if let Some(g) = guard {
        parts.push(format!("guard={}", guard_name(Some(g))));
    }
    parts.join("|")
}

// ------------------------------------------------------------------ generation

fn value(rng: &mut Rng, mode: u8) -> f32 {
    match mode {
        0 => rng.small_f32(),
        1 => rng.f32_in(-1.0, 1.0),
        2 => rng.f32_in(-1.0, 1.0) * 2f32.powi(rng.range(-20, 20) as i32),
        3 => match rng.below(4) {
            0 => 0.0,
            1 => -0.0,
            _ => rng.small_f32(),
        },
        _ => rng.range(-3, 3) as f32,
    }
}

pub fn gen_case(rng: &mut Rng, kernel: &str, guard_phase: bool) -> Case {
    let (mut m, mut n, mut k) = pick_mnk(rng);
    // Favour the vector-matrix path regularly.
    if rng.chance(1, 8) {
        m = 1;
    }
    // Three depth blocks (KC = 256) now and then.
    if !is_miri() && rng.chance(1, 40) {
        k = *rng.choose(&[511usize, 512, 513, 600]);
        m = m.min(17);
        n = n.min(40);
    }
    let api = match rng.below(10) {
        0..=4 => 0u8,
        5..=7 => 1,
        _ => 2,
    };
    let a_form = if rng.chance(1, 4) { 1 } else { 0 };
    let mut b_form = match rng.below(10) {
        0..=5 => 0u8,
        6..=7 => 1,
        _ => 2,
    };
    let mut conv = None;
    if b_form == 2 {
        if n == 0 || k == 0 || rng.chance(1, 3) {
            let c = Conv::random(rng);
            n = c.n();
            k = c.k();
            if m.max(1) * n * k > MAX_PRODUCT {
                m = rng.urange(1, 9);
            }
            conv = Some(c);
        } else {
            conv = Some(Conv::pointwise(k, n, rng));
        }
    }
    let alpha = *rng.choose(&ALPHAS);
    let beta = if api == 0 { *rng.choose(&BETAS) } else { 0.0 };
    let bias = rng.below(3) as u8;
    let mut members = Vec::new();
    let mut b_extra = 0;
    let mut out_len_mode = 0;
    if api == 2 {
        let batch = match rng.below(8) {
            0 => 0,
            1 => 1,
            _ => rng.urange(2, 4),
        };
        // keep total work bounded
        while batch * m.max(1) * n.max(1) * k.max(1) > MAX_PRODUCT && m > 1 {
            m /= 2;
        }
        for _ in 0..batch {
            members.push(Member { m, n, ka: k, kb: k, a_lay: Lay::pick(rng), b_lay: Lay::pick(rng) });
        }
        // Ill-formed batches (only with plain matrices).
        if batch >= 2 && b_form != 2 && rng.chance(1, 4) {
            let j = rng.urange(1, batch - 1);
            match rng.below(5) {
                0 => members[j].kb = k + 1,
                1 => members[j].ka = k + rng.urange(1, 3),
                2 => {
                    members[j].m = m + 1;
                    out_len_mode = rng.below(2) as u8;
                }
                3 => {
                    // Same number of output elements, different shape: this
                    // is a consistent call when M*N match.
                    if m >= 2 && m % 2 == 0 {
                        members[j].m = m / 2;
                        members[j].n = n * 2;
                    } else {
                        members[j].n = n + 1;
                        out_len_mode = rng.below(2) as u8;
                    }
                }
                _ => b_extra = 1,
            }
        }
        if b_form == 2 && batch == 0 {
            b_form = 0;
            conv = None;
        }
    } else {
        members.push(Member { m, n, ka: k, kb: k, a_lay: Lay::pick(rng), b_lay: Lay::pick(rng) });
    }
    Case {
        kernel: kernel.to_string(),
        api,
        members,
        b_extra,
        out_len_mode,
        a_form,
        b_form,
        conv,
        alpha,
        beta,
        bias,
        vals: rng.below(5) as u8,
        prefill: rng.below(4) as u8,
        threads: if guard_phase { *rng.choose(&[1usize, 1, 3]) } else { *rng.choose(&[1usize, 4]) },
        data_seed: rng.next_u64(),
    }
}

// ------------------------------------------------------------------ execution

struct MemberData {
    a: Buf<f32>,
    /// B matrix buffer, or the image buffer for im2col.
    b: Buf<f32>,
}

fn poison_prefill(mode: u8) -> f32 {
    match mode {
        0 => f32::NAN,
        1 => f32::INFINITY,
        2 => f32::NEG_INFINITY,
        _ => f32::from_bits(POISON_BITS),
    }
}

pub fn exec(case: &Case, gemm: &GemmExecutor, guard: Option<GuardPos>) -> Outcome {
    with_threads(case.threads, || exec_inner(case, gemm, guard))
}

fn exec_inner(case: &Case, gemm: &GemmExecutor, guard: Option<GuardPos>) -> Outcome {
    let mut rng = Rng::derive(case.data_seed, 0xF32);
    let well_formed = case.well_formed();

    // ---- operand buffers
    let mut data: Vec<MemberData> = Vec::new();
    for mb in &case.members {
        let a = fill_mat(mb.a_lay, mb.m, mb.ka, f32::NAN, || value(&mut rng, case.vals));
        let b = if let Some(conv) = &case.conv {
            let (st, len) = conv.img_strides();
            let mut img = vec![f32::NAN; len];
            for c in 0..conv.c {
                for y in 0..conv.h {
                    for x in 0..conv.w {
                        img[c * st[0] + y * st[1] + x * st[2]] = value(&mut rng, case.vals);
                    }
                }
            }
            img
        } else {
            fill_mat(mb.b_lay, mb.kb, mb.n, f32::NAN, || value(&mut rng, case.vals))
        };
        data.push(MemberData { a: Buf::new(a, guard), b: Buf::new(b, guard) });
    }
    let first = case.members.first().cloned();
    let bias_len = match (case.bias, &first) {
        (1, Some(f)) => f.n,
        (2, Some(f)) => f.m,
        _ => 0,
    };
    let bias_vals: Vec<f32> = (0..bias_len).map(|_| value(&mut rng, case.vals)).collect();
    let bias_buf = Buf::new(bias_vals, guard);
    let bias_opt = match (case.bias, &first) {
        (1, Some(_)) => Some(BiasVector::Row(bias_buf.as_slice())),
        (2, Some(_)) => Some(BiasVector::Column(bias_buf.as_slice())),
        _ => None,
    };

    // ---- views
    let a_views: Vec<Matrix<f32>> = case
        .members
        .iter()
        .zip(&data)
        .map(|(mb, d)| {
            let (rs, cs) = mb.a_lay.strides(mb.m, mb.ka);
            Matrix::from_slice_with_strides([mb.m, mb.ka], d.a.as_slice(), [rs, cs]).expect("A view")
        })
        .collect();
    let b_views: Vec<Option<Matrix<f32>>> = case
        .members
        .iter()
        .zip(&data)
        .map(|(mb, d)| {
            if case.conv.is_some() {
                None
            } else {
                let (rs, cs) = mb.b_lay.strides(mb.kb, mb.n);
                Some(Matrix::from_slice_with_strides([mb.kb, mb.n], d.b.as_slice(), [rs, cs]).expect("B view"))
            }
        })
        .collect();

    // ---- prepacking / im2col
    let mut packed_a: Vec<Option<PackedAMatrix<f32>>> = Vec::new();
    let mut packed_b: Vec<Option<PackedBMatrix<f32>>> = Vec::new();
    let mut im2cols: Vec<Option<Im2Col<f32>>> = Vec::new();
    for (i, d) in data.iter().enumerate() {
        if case.a_form == 1 {
            match catch(|| gemm.prepack_a(a_views[i])) {
                Ok(p) => packed_a.push(Some(p)),
                Err(msg) => return panic_outcome(well_formed, "prepack_a", &msg),
            }
        } else {
            packed_a.push(None);
        }
        if case.b_form == 1 {
            match catch(|| gemm.prepack_b(b_views[i].unwrap())) {
                Ok(p) => packed_b.push(Some(p)),
                Err(msg) => return panic_outcome(well_formed, "prepack_b", &msg),
            }
        } else {
            packed_b.push(None);
        }
        if let Some(conv) = &case.conv {
            im2cols.push(Some(conv.build(d.b.as_slice(), gemm.im2col_col_count_step(), gemm.im2col_row_count_step())));
        } else {
            im2cols.push(None);
        }
    }
    let a_inputs: Vec<GemmInputA<f32>> = (0..data.len())
        .map(|i| match &packed_a[i] {
            Some(p) => GemmInputA::Packed(p),
            None => GemmInputA::Unpacked(a_views[i]),
        })
        .collect();
    let mut b_inputs: Vec<GemmInputB<f32>> = (0..data.len())
        .map(|i| match (&packed_b[i], &im2cols[i]) {
            (Some(p), _) => GemmInputB::Packed(p),
            (_, Some(im)) => GemmInputB::Im2Col(im),
            _ => GemmInputB::Unpacked(b_views[i].unwrap()),
        })
        .collect();
    for _ in 0..case.b_extra {
        if let Some(last) = b_inputs.last().copied() {
            b_inputs.push(last);
        }
    }

    // ---- output buffer and call
    let out_len = case.out_len();
    let mut prior: Vec<f32> = Vec::new();
    let result: Result<Result<Vec<f32>, String>, String>;
    if case.api == 0 {
        let init: Vec<f32> = if case.beta == 0.0 {
            vec![poison_prefill(case.prefill); out_len]
        } else {
            (0..out_len).map(|_| value(&mut rng, case.vals)).collect()
        };
        prior = init.clone();
        let mut out = Buf::new(init, guard);
        let opts = GemmOptions { alpha: case.alpha, beta: case.beta, bias: bias_opt, a_quant: None, b_quant: None };
        let r = catch(|| gemm.gemm(out.as_mut_slice(), a_inputs[0], b_inputs[0], opts));
        result = r.map(|r| r.map(|_| out.as_slice().to_vec()).map_err(|e| format!("{:?}", e)));
    } else {
        let opts = GemmUninitOptions { alpha: case.alpha, bias: bias_opt, a_quant: None, b_quant: None };
        let mut heap: Vec<f32>;
        let mut guarded: Buf<MaybeUninit<f32>>;
        let out: &mut [MaybeUninit<f32>] = if is_miri() {
            // Genuinely uninitialised, so that Miri sees reads of it.
            heap = Vec::with_capacity(out_len);
            &mut heap.spare_capacity_mut()[..out_len]
        } else {
            guarded = Buf::new(vec![MaybeUninit::new(f32::from_bits(POISON_BITS)); out_len], guard);
            guarded.as_mut_slice()
        };
        let out_ptr = out.as_ptr() as usize;
        let r = catch(|| {
            if case.api == 1 {
                gemm.gemm_uninit(out, a_inputs[0], b_inputs[0], opts)
            } else {
                gemm.batched_gemm_uninit(out, &a_inputs, &b_inputs, opts)
            }
        });
        result = r.map(|r| match r {
            Ok(init) => {
                if init.len() != out_len || init.as_ptr() as usize != out_ptr {
                    Err(format!("RETURNED_SLICE len {} ptr_same {}", init.len(), init.as_ptr() as usize == out_ptr))
                } else {
                    Ok(init.to_vec())
                }
            }
            Err(e) => Err(format!("{:?}", e)),
        });
    }

    // ---- verdict
    let out = match result {
        Err(msg) => return panic_outcome(well_formed, case.api_name(), &msg),
        Ok(Err(e)) if e.starts_with("RETURNED_SLICE") => return Outcome::fail("bad_returned_slice", json!({"what": e})),
        Ok(Err(e)) => {
            return if well_formed {
                Outcome::fail(&format!("error:{}", e), json!({"error": e}))
            } else {
                Outcome::no_result(format!("error:{}", e))
            };
        }
        Ok(Ok(out)) => out,
    };
    if !well_formed {
        return Outcome::fail("accepted_mismatch", json!({"what": "ill-formed batch accepted with Ok"}));
    }

    let mut max_ratio = 0.0f64;
    let mut first_bad: Option<(String, Json)> = None;
    let mut n_bad = 0u64;
    let mut off = 0usize;
    for (i, mb) in case.members.iter().enumerate() {
        let (m, n, k) = (mb.m, mb.n, mb.ka);
        // Dense f64 copies: A row-major, B column-major.
        let (ars, acs) = mb.a_lay.strides(m, k);
        let a_buf = data[i].a.as_slice();
        let af: Vec<f64> = (0..m * k).map(|idx| a_buf[(idx / k.max(1)) * ars + (idx % k.max(1)) * acs] as f64).collect();
        let b_buf = data[i].b.as_slice();
        let mut bt = vec![0f64; n * k];
        if let Some(conv) = &case.conv {
            for c in 0..n {
                for kk in 0..k {
                    bt[c * k + kk] = conv.source(kk, c).map(|o| b_buf[o] as f64).unwrap_or(0.0);
                }
            }
        } else {
            let (brs, bcs) = mb.b_lay.strides(k, n);
            for c in 0..n {
                for kk in 0..k {
                    bt[c * k + kk] = b_buf[kk * brs + c * bcs] as f64;
                }
            }
        }
        for r in 0..m {
            let arow = &af[r * k..(r + 1) * k];
            for c in 0..n {
                let bcol = &bt[c * k..(c + 1) * k];
                let mut s = 0f64;
                let mut sa = 0f64;
                for kk in 0..k {
                    let p = arow[kk] * bcol[kk];
                    s += p;
                    sa += p.abs();
                }
                let c0 = if case.api == 0 && case.beta != 0.0 { prior[off + r * n + c] as f64 } else { 0.0 };
                let bias = match case.bias {
                    1 => bias_buf.as_slice()[c] as f64,
                    2 => bias_buf.as_slice()[r] as f64,
                    _ => 0.0,
                };
                let want = case.alpha as f64 * s + case.beta as f64 * c0 + bias;
                let mag = (case.alpha as f64).abs() * sa + (case.beta as f64 * c0).abs() + bias.abs();
                let bound = 4.0 * (k as f64 + 2.0) * EPS * mag + ABS_SLACK;
                let got = out[off + r * n + c];
                let kind = if case.api != 0 && got.to_bits() == POISON_BITS {
                    Some("unwritten")
                } else if !got.is_finite() {
                    Some(if case.beta == 0.0 { "nonfinite_beta0" } else { "nonfinite" })
                } else {
                    let err = (got as f64 - want).abs();
                    let ratio = err / bound;
                    if ratio > max_ratio {
                        max_ratio = ratio;
                    }
                    if err > bound { Some("mismatch") } else { None }
                };
                if let Some(kind) = kind {
                    n_bad += 1;
                    if first_bad.is_none() {
                        first_bad = Some((
                            kind.to_string(),
                            json!({"member": i, "row": r, "col": c, "got": format!("{:e}", got), "got_bits": format!("{:08x}", got.to_bits()), "want": want, "bound": bound}),
                        ));
                    }
                }
            }
        }
        off += m * n;
    }
    match first_bad {
        Some((kind, mut detail)) => {
            detail["bad_elements"] = json!(n_bad);
            detail["elements"] = json!(out.len());
            let mut o = Outcome::fail(&kind, detail);
            o.ratio = max_ratio;
            o
        }
        None => Outcome::ok(max_ratio),
    }
}

fn panic_outcome(well_formed: bool, site: &str, msg: &str) -> Outcome {
    let class = panic_class(msg);
    if well_formed {
        Outcome::fail(&format!("panic@{}:{}", site, short_class(&class)), json!({"panic": msg}))
    } else {
        Outcome::no_result(format!("panic:{}", short_class(&class)))
    }
}

fn short_class(class: &str) -> String {
    // Keep the message head and the file name (no path, no line).
    let (head, loc) = class.rsplit_once(" @ ").unwrap_or((class, ""));
    let file = loc.rsplit('/').next().unwrap_or("").split(':').next().unwrap_or("");
    let head: String = head.chars().take(60).collect();
    format!("{}@{}", head.trim(), file)
}

// ------------------------------------------------------------------ shrinking

pub type Runner<'a> = dyn FnMut(&Case, Option<GuardPos>) -> Outcome + 'a;

/// Greedy bounded shrink preserving the failure class.
pub fn shrink(case: &Case, guard: Option<GuardPos>, kind: &str, run: &mut Runner) -> (Case, Option<GuardPos>, u32) {
    let mut cur = case.clone();
    let mut g = guard;
    let mut runs = 0u32;
    let max_runs = max_shrink_runs();
    let mut still = |c: &Case, g: Option<GuardPos>, runs: &mut u32| -> bool {
        if *runs >= max_runs {
            return false;
        }
        *runs += 1;
        run(c, g).fail_kind() == Some(kind)
    };
    // Is the guard page needed at all? (Some faults, e.g. a read through a
    // dangling pointer, do not depend on it.)
    if g.is_some() && still(&cur, None, &mut runs) {
        g = None;
    }
    // batch -> single member
    if cur.api == 2 && cur.well_formed() {
        for j in 0..cur.members.len() {
            let mut c = cur.clone();
            c.members = vec![cur.members[j].clone()];
            if still(&c, g, &mut runs) {
                cur = c;
                break;
            }
        }
        // otherwise drop members from the end
        while cur.members.len() > 2 {
            let mut c = cur.clone();
            c.members.pop();
            if still(&c, g, &mut runs) {
                cur = c;
            } else {
                break;
            }
        }
        if cur.members.len() == 1 {
            let mut c = cur.clone();
            c.api = 1;
            if still(&c, g, &mut runs) {
                cur = c;
            }
        }
    }
    if cur.api == 1 {
        let mut c = cur.clone();
        c.api = 0;
        if still(&c, g, &mut runs) {
            cur = c;
        }
    }
    let simple: Vec<Box<dyn Fn(&mut Case)>> = vec![
        Box::new(|c| c.a_form = 0),
        Box::new(|c| {
            if c.b_form == 1 {
                c.b_form = 0
            }
        }),
        Box::new(|c| {
            if c.b_form == 2 {
                c.b_form = 0;
                c.conv = None;
            }
        }),
        Box::new(|c| {
            if let Some(cv) = &c.conv {
                let mut r = Rng::new(1);
                let mut p = Conv::pointwise(cv.k(), cv.n(), &mut r);
                p.h = 1;
                p.w = cv.n();
                p.img_lay = 0;
                c.conv = Some(p);
            }
        }),
        Box::new(|c| c.threads = 1),
        Box::new(|c| c.alpha = 1.0),
        Box::new(|c| c.beta = 0.0),
        Box::new(|c| c.bias = 0),
        Box::new(|c| c.members.iter_mut().for_each(|m| m.a_lay = Lay::ROW)),
        Box::new(|c| c.members.iter_mut().for_each(|m| m.b_lay = Lay::ROW)),
        Box::new(|c| c.vals = 4),
        Box::new(|c| c.prefill = 0),
        Box::new(|c| c.data_seed = 1),
    ];
    for f in &simple {
        let mut c = cur.clone();
        f(&mut c);
        if c != cur && still(&c, g, &mut runs) {
            cur = c;
        }
    }
    // dimensions (uniform batches and single products only)
    let uniform = cur.members.windows(2).all(|w| (w[0].m, w[0].n, w[0].ka, w[0].kb) == (w[1].m, w[1].n, w[1].ka, w[1].kb));
    if uniform && !cur.members.is_empty() && cur.members[0].ka == cur.members[0].kb {
        for _pass in 0..2 {
            let before = cur.clone();
            for dim in 0..3 {
                let curv = match dim {
                    0 => cur.members[0].m,
                    1 => cur.members[0].n,
                    _ => cur.members[0].ka,
                };
                let min = if cur.conv.is_some() && dim > 0 { 1 } else { 0 };
                for cand in smaller_dims(curv, min) {
                    let mut c = cur.clone();
                    for mb in c.members.iter_mut() {
                        match dim {
                            0 => mb.m = cand,
                            1 => mb.n = cand,
                            _ => {
                                mb.ka = cand;
                                mb.kb = cand;
                            }
                        }
                    }
                    if let Some(cv) = &cur.conv {
                        if cv.kh * cv.kw != 1 || cv.pt + cv.pl + cv.pb + cv.pr != 0 || cv.sh * cv.sw != 1 {
                            break; // general geometry: sizes are tied to it
                        }
                        let mut p = cv.clone();
                        p.c = c.members[0].ka;
                        p.h = 1;
                        p.w = c.members[0].n;
                        c.conv = Some(p);
                    }
                    if still(&c, g, &mut runs) {
                        cur = c;
                        break;
                    }
                }
            }
            if cur == before {
                break;
            }
        }
    }
    (cur, g, runs)
}

// ------------------------------------------------------------------ driver

pub struct F32Engine {
    kernels: Vec<(String, GemmExecutor)>,
    seed: u64,
    stream: u64,
}

impl F32Engine {
    fn gemm(&self, name: &str) -> Option<&GemmExecutor> {
        self.kernels.iter().find(|(n, _)| n == name).map(|(_, g)| g)
    }
}

impl Engine for F32Engine {
    type Case = Case;

    fn gen_case(&self, idx: u64, guard_phase: bool) -> Case {
        let mut rng = Rng::derive(self.seed, (self.stream << 24) ^ ((guard_phase as u64) << 23) ^ idx);
        let kernel = &self.kernels[(idx as usize) % self.kernels.len()].0;
        gen_case(&mut rng, kernel, guard_phase)
    }

    fn exec(&self, case: &Case, guard: Option<GuardPos>) -> Outcome {
        match self.gemm(&case.kernel) {
            Some(g) => exec(case, g, guard),
            None => Outcome::no_result("kernel unavailable".into()),
        }
    }

    fn record(&self, rep: &mut Report, case: &Case, o: &Outcome, guarded: bool) {
        rep.eval();
        rep.count(&format!("problems:kernel={}", case.kernel));
        rep.count(&format!("problems:path={}", case.path()));
        rep.count(&format!("problems:kernel={}:path={}", case.kernel, case.path()));
        rep.count(&format!("problems:api={}", case.api_name()));
        if guarded {
            rep.count("guard_page_cases");
        }
        if case.threads > 1 {
            rep.count("multi_threaded_cases");
        }
        match &o.status {
            Status::Ok => {
                rep.count("results_checked");
                rep.max(&format!("max_err_over_bound_ppm:kernel={}", case.kernel), (o.ratio * 1e6) as u64);
                if case.nontrivial() {
                    rep.nontrivial(&case.identity());
                }
                if case.members.iter().any(|m| m.m == 0 || m.n == 0 || m.ka == 0) {
                    rep.count("zero_sized_checked");
                }
                if case.api == 2 && case.members.windows(2).any(|w| (w[0].m, w[0].n) != (w[1].m, w[1].n)) {
                    rep.count("batched_reshaped_members_ok");
                }
            }
            Status::NoResult(why) => {
                rep.count(&format!("no_result:{}", why));
                if !case.well_formed() {
                    rep.count("ill_formed_batches_rejected");
                }
            }
            Status::Fail { .. } => {}
        }
    }

    fn report_failure(&self, rep: &mut Report, case: &Case, guard: Option<GuardPos>, o: &Outcome, shared: Option<&Shared>) {
        let kind = o.fail_kind().unwrap().to_string();
        let mut runner = |c: &Case, g: Option<GuardPos>| match shared {
            Some(sh) => exec_in_child(self, sh, c, g),
            None => self.exec(c, None),
        };
        let (small, g, runs) = shrink(case, guard, &kind, &mut runner);
        let final_o = runner(&small, g);
        let (detail, final_kind) = match &final_o.status {
            Status::Fail { kind, detail } => (detail.clone(), kind.clone()),
            _ => (json!(null), kind.clone()),
        };
        let f = small.members.first();
        rep.violation(
            signature(&small, &final_kind, g),
            format!(
                "{} kernel {} {} (guard {}): {} on m={} n={} k={} alpha={} beta={} bias={} [{}]",
                small.api_name(),
                small.kernel,
                small.path(),
                guard_name(g),
                final_kind,
                f.map(|f| f.m).unwrap_or(0),
                f.map(|f| f.n).unwrap_or(0),
                f.map(|f| f.ka).unwrap_or(0),
                small.alpha,
                small.beta,
                small.bias,
                detail
            ),
            json!({"sub": "f32", "case": small.to_json(), "guard": guard_name(g), "fail": final_kind, "detail": detail,
                   "original_case": case.to_json(), "original_guard": guard_name(guard),
                   "original_detail": match &o.status { Status::Fail{detail, ..} => detail.clone(), _ => json!(null) },
                   "shrink_runs": runs, "seed": self.seed}),
        );
    }

    fn coarse_class(&self, case: &Case, kind: &str) -> String {
        format!("{}|{}|{}|{}", case.kernel, case.path(), kind, case.well_formed())
    }

    fn fault_class(&self, case: &Case) -> String {
        format!("{}|{}", case.kernel, case.path())
    }

    fn sample(&self, case: &Case, o: &Outcome) -> Option<Json> {
        if case.nontrivial() { Some(json!({"case": case.to_json(), "path": case.path(), "max_err_over_bound": o.ratio})) } else { None }
    }
}

pub const RULE: &str = "every f32 kernel reported by rten_gemm::verif::f32_kernels(); M,N,K sampled from {0..9,15,16,17,31,32,33,63,64,65,127,128,129,255,256,257} and uniformly 0..300 (some K up to 600) with M*N*K bounded; A/B row-major, column-major (transposed views), padded leading dimension, both strides non-unit, stride-0 broadcast; alpha in {0,1,-1,0.5}; beta in {0,1,-0.5}; row/column/no bias; A unpacked/prepacked; B unpacked/prepacked/im2col (1x1 and general convolution geometry incl. padding, stride, dilation); gemm (output pre-filled with NaN/inf when beta=0), gemm_uninit and batched_gemm_uninit (output 0xFF bytes behind MaybeUninit; batches with different strides, reshaped members, and ill-formed batches that must be rejected); 1 and 4 rayon threads; a quarter of the cases run in forked children with every operand and the output flush against a PROT_NONE page (after the end, or before the start). Oracle: f64 reference of alpha*A*B+beta*C+bias, |err| <= 4*(K+2)*eps*(|alpha|*sum|a_i*b_i|+|beta*c|+|bias|) + 1e-35; no NaN/inf may survive when beta=0; every element of an uninit output must be overwritten; a fault is a violation. Non-trivial = consistent arguments with M,N,K >= 1 and not all equal to 1; distinct by (kernel, api, forms, shapes, layouts, alpha, beta, bias, geometry)";

pub fn run(args: &Args) {
    let mut rep = Report::new("C16", "gemmcheck f32", args, RULE);
    rep.max_samples = 8;
    let e = F32Engine { kernels: rten_gemm::verif::f32_kernels(), seed: args.seed, stream: 0xC16_000 + args.shard as u64 };
    rep.note(
        "kernels_available",
        json!(e.kernels.iter().map(|(n, g)| json!({"hook_name": n, "kernel_name": g.kernel_name(), "im2col_col_step": g.im2col_col_count_step()})).collect::<Vec<_>>()),
    );
    for want in ["Generic", "Fma", "Avx512"] {
        if e.gemm(want).is_none() {
            rep.count(&format!("kernel_unavailable:{}", want));
        }
    }

    if let Some(path) = &args.replay {
        let w = read_witness(path);
        let case = Case::from_json(&w["case"]);
        let guard = guard_from_name(w["guard"].as_str().unwrap_or("none"));
        if e.gemm(&case.kernel).is_none() {
            rep.inconclusive = Some(format!("kernel {} unavailable on this machine", case.kernel));
            rep.finish();
            return;
        }
        let o = if is_miri() { e.exec(&case, None) } else { exec_in_child(&e, &Shared::new(), &case, guard) };
        e.record(&mut rep, &case, &o, guard.is_some());
        rep.nontrivial(&case.identity());
        if let Status::Fail { kind, detail } = &o.status {
            rep.violation(
                signature(&case, kind, guard),
                format!("replay: {} kernel {} {}: {} [{}]", case.api_name(), case.kernel, case.path(), kind, detail),
                json!({"sub": "f32", "case": case.to_json(), "guard": guard_name(guard), "fail": kind, "detail": detail, "seed": args.seed}),
            );
        }
        rep.finish();
        return;
    }

    let total = args.budget(9_000, 900_000);
    let n_guard = if is_miri() { 0 } else { total / 4 };
    drive(&e, &mut rep, n_guard, total - n_guard);
    if rep.nontrivial_count() == 0 {
        rep.inconclusive = Some("no non-trivial GEMM problem produced a result".into());
    }
    rep.finish();
}
