//! C17: u8 x i8 -> i32 GEMM of every kernel vs exact integer arithmetic, and
//! the DynamicQuantizeLinear / DequantizeLinear round trip.
use std::mem::MaybeUninit;

use rten::BufferPool;
use rten_gemm::{BiasVector, GemmExecutor, GemmInputA, GemmInputB, GemmOptions, GemmUninitOptions, Im2Col, PackedAMatrix, PackedBMatrix, QuantParams};
use rten_tensor::prelude::*;
use rten_tensor::{Matrix, Tensor};
use vcommon::guard::GuardPos;
use vcommon::*;

use crate::common::*;

type Gemm8 = GemmExecutor<u8, i8, i32>;

/// Byte pattern of "never written" output elements. As an i32 it is far
/// outside the range of any legitimate result of the generated problems.
const POISON: i32 = 0x8181_8181u32 as i32;

#[derive(Clone, Debug, PartialEq)]
pub struct Case {
    pub kernel: String,
    /// 0 gemm, 1 gemm_uninit, 2 batched_gemm_uninit.
    pub api: u8,
    pub batch: usize,
    pub m: usize,
    pub n: usize,
    pub k: usize,
    pub a_lay: Lay,
    pub b_lay: Lay,
    pub a_form: u8,
    pub b_form: u8,
    pub conv: Option<Conv>,
    /// 0 or 1 (api 0 only).
    pub beta: i32,
    pub bias: u8,
    /// A zero points: 0 none, 1 all zero, 2 per-row from {0,255}, 3 per-row random, 4 one random value, 5 ramp (row index + 1).
    pub a_zp: u8,
    /// B zero points: 0 none, 1 all zero, 2 per-column from {-128,127}, 3 per-column random, 4 one random value, 5 ramp (column index - 30).
    pub b_zp: u8,
    /// 0 extremes {0,255}x{-128,127}; 1 full range random; 2 both reduced
    /// (u8 0..=127, i8 -64..=63); 3 only i8 reduced; 4 only u8 reduced;
    /// 5 constant worst case (255, -128); 6 constant (255, 127); 7 small values.
    pub vals: u8,
    pub threads: usize,
    pub data_seed: u64,
}

impl Case {
    pub fn to_json(&self) -> Json {
        json!({
            "kernel": self.kernel, "api": self.api, "batch": self.batch, "m": self.m, "n": self.n, "k": self.k,
            "a_lay": self.a_lay.to_json(), "b_lay": self.b_lay.to_json(), "a_form": self.a_form, "b_form": self.b_form,
            "conv": self.conv.as_ref().map(|c| c.to_json()), "beta": self.beta, "bias": self.bias,
            "a_zp": self.a_zp, "b_zp": self.b_zp, "vals": self.vals, "threads": self.threads,
            "data_seed": self.data_seed.to_string(),
        })
    }

    pub fn from_json(j: &Json) -> Case {
        Case {
            kernel: js(j, "kernel"),
            api: ju(j, "api") as u8,
            batch: ju(j, "batch"),
            m: ju(j, "m"),
            n: ju(j, "n"),
            k: ju(j, "k"),
            a_lay: Lay::from_json(&j["a_lay"]),
            b_lay: Lay::from_json(&j["b_lay"]),
            a_form: ju(j, "a_form") as u8,
            b_form: ju(j, "b_form") as u8,
            conv: Conv::from_json(&j["conv"]),
            beta: j["beta"].as_i64().unwrap_or(0) as i32,
            bias: ju(j, "bias") as u8,
            a_zp: ju(j, "a_zp") as u8,
            b_zp: ju(j, "b_zp") as u8,
            vals: ju(j, "vals") as u8,
            threads: ju(j, "threads").max(1),
            data_seed: j["data_seed"].as_str().and_then(|s| s.parse().ok()).unwrap_or(0),
        }
    }

    pub fn reduced_range(&self) -> bool {
        matches!(self.vals, 2 | 3 | 4 | 7)
    }

    pub fn api_name(&self) -> &'static str {
        match self.api {
            0 => "gemm",
            1 => "gemm_uninit",
            _ => "batched",
        }
    }

    pub fn members(&self) -> usize {
        if self.api == 2 { self.batch } else { 1 }
    }

    pub fn path(&self) -> &'static str {
        if self.b_form == 2 {
            "im2col"
        } else if self.b_form == 1 {
            "prepacked_b"
        } else if self.a_form == 1 {
            "prepacked_a"
        } else if self.members() == 1 && self.m == 1 && self.n > 0 && self.k > 0 {
            "gemv"
        } else {
            self.api_name()
        }
    }

    pub fn nontrivial(&self) -> bool {
        self.members() >= 1 && self.m >= 1 && self.n >= 1 && self.k >= 1 && !(self.m == 1 && self.n == 1 && self.k == 1)
    }

    pub fn identity(&self) -> String {
        format!(
            "{}|{}|{}|{}{}|{},{},{}|{:?}{:?}|{}|{}|{}{}|{}|{}",
            self.kernel,
            self.api,
            self.batch,
            self.a_form,
            self.b_form,
            self.m,
            self.n,
            self.k,
            self.a_lay,
            self.b_lay,
            self.beta,
            self.bias,
            self.a_zp,
            self.b_zp,
            self.vals,
            self.conv.as_ref().map(|c| c.to_json().to_string()).unwrap_or_default()
        )
    }
}

pub fn signature(case: &Case, kind: &str, guard: Option<GuardPos>) -> String {
    let mut parts = vec![
        "C17".to_string(),
        format!("kernel={}", case.kernel),
        format!("path={}", case.path()),
        format!("fail={}", kind),
        format!("m={},n={},k={}", case.m, case.n, case.k),
    ];
    if case.api == 2 {
        parts.push(format!("batch={}", case.batch));
    } else if case.path() != case.api_name() && case.api != 0 {
        parts.push(format!("api={}", case.api_name()));
    }
    if !case.a_lay.is_default() {
        parts.push(format!("a={}", case.a_lay.name()));
    }
    if !case.b_lay.is_default() && case.b_form != 2 {
        parts.push(format!("b={}", case.b_lay.name()));
    }
    if let Some(c) = &case.conv {
        if c.kh * c.kw > 1 || c.pt + c.pl + c.pb + c.pr > 0 || c.sh * c.sw > 1 {
            parts.push(format!("conv={}", c.to_json()));
        }
    }
    if case.a_zp != 0 {
        parts.push(format!("a_zero={}", ["none", "zeros", "extreme", "random", "const", "ramp"][case.a_zp as usize % 6]));
    }
    if case.b_zp != 0 {
        parts.push(format!("b_zero={}", ["none", "zeros", "extreme", "random", "const", "ramp"][case.b_zp as usize % 6]));
    }
    parts.push(format!("vals={}", ["extremes", "full", "reduced", "i8_reduced", "u8_reduced", "const_255x-128", "const_255x127", "small"][case.vals as usize % 8]));
    if case.beta != 0 {
        parts.push(format!("beta={}", case.beta));
    }
    if case.bias != 0 {
        parts.push(format!("bias={}", if case.bias == 1 { "row" } else { "col" }));
    }
    if case.threads > 1 {
        parts.push("threads>1".to_string());
    }
    if let Some(g) = guard {
        parts.push(format!("guard={}", guard_name(Some(g))));
    }
    parts.join("|")
}

fn val_a(rng: &mut Rng, mode: u8) -> u8 {
    match mode {
        0 => *rng.choose(&[0u8, 255]),
        1 | 3 => rng.next_u32() as u8,
        2 | 4 => rng.below(128) as u8,
        5 | 6 => 255,
        _ => rng.below(4) as u8,
    }
}

fn val_b(rng: &mut Rng, mode: u8) -> i8 {
    match mode {
        0 => *rng.choose(&[-128i8, 127]),
        1 | 4 => rng.next_u32() as i8,
        2 | 3 => rng.range(-64, 63) as i8,
        5 => -128,
        6 => 127,
        _ => rng.range(-2, 2) as i8,
    }
}

pub fn gen_case(rng: &mut Rng, kernel: &str, guard_phase: bool) -> Case {
    let (mut m, mut n, mut k) = pick_mnk(rng);
    if rng.chance(1, 8) {
        m = 1;
    }
    // More than one depth block (KC = 1024 for i8) now and then.
    if !is_miri() && rng.chance(1, 30) {
        k = *rng.choose(&[1023usize, 1024, 1025, 1030, 1100]);
        m = m.min(17);
        n = n.min(40);
    }
    let api = match rng.below(10) {
        0..=4 => 0u8,
        5..=7 => 1,
        _ => 2,
    };
    let a_form = if rng.chance(1, 4) { 1 } else { 0 };
    let b_form = match rng.below(10) {
        0..=5 => 0u8,
        6..=7 => 1,
        _ => 2,
    };
    let mut conv = None;
    if b_form == 2 {
        if n == 0 || k == 0 || rng.chance(1, 3) {
            let c = Conv::random(rng);
            n = c.n();
            k = c.k();
            if m.max(1) * n * k > MAX_PRODUCT {
                m = rng.urange(1, 9);
            }
            conv = Some(c);
        } else {
            conv = Some(Conv::pointwise(k, n, rng));
        }
    }
    let mut batch = 1;
    if api == 2 {
        batch = match rng.below(8) {
            0 => 0,
            1 => 1,
            _ => rng.urange(2, 4),
        };
        while batch * m.max(1) * n.max(1) * k.max(1) > MAX_PRODUCT && m > 1 {
            m /= 2;
        }
    }
    let mut b_zp = rng.below(6) as u8;
    if b_form == 2 && (b_zp == 2 || b_zp == 3 || b_zp == 5) {
        // im2col inputs require one zero point for all columns.
        b_zp = 4;
    }
    Case {
        kernel: kernel.to_string(),
        api,
        batch,
        m,
        n,
        k,
        a_lay: Lay::pick(rng),
        b_lay: Lay::pick(rng),
        a_form,
        b_form,
        conv,
        beta: if api == 0 { rng.below(2) as i32 } else { 0 },
        bias: rng.below(3) as u8,
        a_zp: rng.below(6) as u8,
        b_zp,
        vals: rng.below(8) as u8,
        threads: if guard_phase { *rng.choose(&[1usize, 1, 3]) } else { *rng.choose(&[1usize, 4]) },
        data_seed: rng.next_u64(),
    }
}

pub fn exec(case: &Case, gemm: &Gemm8, guard: Option<GuardPos>) -> Outcome {
    with_threads(case.threads, || exec_inner(case, gemm, guard))
}

fn exec_inner(case: &Case, gemm: &Gemm8, guard: Option<GuardPos>) -> Outcome {
    let mut rng = Rng::derive(case.data_seed, 0x18);
    let (m, n, k) = (case.m, case.n, case.k);
    let members = case.members();

    // ---- operands (gap elements hold extreme values; they must not be read)
    let mut a_bufs: Vec<Buf<u8>> = Vec::new();
    let mut b_bufs: Vec<Buf<i8>> = Vec::new();
    for _ in 0..members {
        let a = fill_mat(case.a_lay, m, k, 0xA5u8, || val_a(&mut rng, case.vals));
        let b = if let Some(conv) = &case.conv {
            let (st, len) = conv.img_strides();
            let mut img = vec![0x5Ai8; len];
            for c in 0..conv.c {
                for y in 0..conv.h {
                    for x in 0..conv.w {
                        img[c * st[0] + y * st[1] + x * st[2]] = val_b(&mut rng, case.vals);
                    }
                }
            }
            img
        } else {
            fill_mat(case.b_lay, k, n, 0x5Ai8, || val_b(&mut rng, case.vals))
        };
        a_bufs.push(Buf::new(a, guard));
        b_bufs.push(Buf::new(b, guard));
    }
    let a_zero: Vec<u8> = match case.a_zp {
        2 => (0..m).map(|_| *rng.choose(&[0u8, 255])).collect(),
        3 => (0..m).map(|_| rng.next_u32() as u8).collect(),
        4 => vec![rng.next_u32() as u8; m],
        5 => (0..m).map(|r| (r + 1) as u8).collect(),
        _ => vec![0; m],
    };
    let b_zero: Vec<i8> = match case.b_zp {
        2 => (0..n).map(|_| *rng.choose(&[-128i8, 127])).collect(),
        3 => (0..n).map(|_| rng.next_u32() as i8).collect(),
        4 => vec![rng.next_u32() as i8; n],
        5 => (0..n).map(|c| (c as i64 - 30) as i8).collect(),
        _ => vec![0; n],
    };
    let a_zero_buf = Buf::new(a_zero.clone(), guard);
    let b_zero_buf = Buf::new(b_zero.clone(), guard);
    let a_quant = (case.a_zp != 0).then(|| QuantParams { zero_point: a_zero_buf.as_slice() });
    let b_quant = (case.b_zp != 0).then(|| QuantParams { zero_point: b_zero_buf.as_slice() });
    let bias_len = match case.bias {
        1 => n,
        2 => m,
        _ => 0,
    };
    let bias_vals: Vec<i32> = (0..bias_len).map(|_| rng.range(-1000, 1000) as i32).collect();
    let bias_buf = Buf::new(bias_vals, guard);
    let bias_opt = match case.bias {
        1 => Some(BiasVector::Row(bias_buf.as_slice())),
        2 => Some(BiasVector::Column(bias_buf.as_slice())),
        _ => None,
    };

    // ---- views, prepacking, im2col
    let (ars, acs) = case.a_lay.strides(m, k);
    let (brs, bcs) = case.b_lay.strides(k, n);
    let a_views: Vec<Matrix<u8>> = a_bufs.iter().map(|b| Matrix::from_slice_with_strides([m, k], b.as_slice(), [ars, acs]).expect("A view")).collect();
    let b_views: Vec<Option<Matrix<i8>>> = b_bufs
        .iter()
        .map(|b| if case.conv.is_some() { None } else { Some(Matrix::from_slice_with_strides([k, n], b.as_slice(), [brs, bcs]).expect("B view")) })
        .collect();
    let mut packed_a: Vec<Option<PackedAMatrix<u8>>> = Vec::new();
    let mut packed_b: Vec<Option<PackedBMatrix<i8>>> = Vec::new();
    let mut im2cols: Vec<Option<Im2Col<i8>>> = Vec::new();
    for i in 0..members {
        if case.a_form == 1 {
            match catch(|| gemm.prepack_a(a_views[i])) {
                Ok(p) => packed_a.push(Some(p)),
                Err(msg) => return panic_outcome(case, "prepack_a", &msg),
            }
        } else {
            packed_a.push(None);
        }
        if case.b_form == 1 {
            match catch(|| gemm.prepack_b(b_views[i].unwrap())) {
                Ok(p) => packed_b.push(Some(p)),
                Err(msg) => return panic_outcome(case, "prepack_b", &msg),
            }
        } else {
            packed_b.push(None);
        }
        im2cols.push(case.conv.as_ref().map(|conv| conv.build(b_bufs[i].as_slice(), gemm.im2col_col_count_step(), gemm.im2col_row_count_step())));
    }
    let a_inputs: Vec<GemmInputA<u8>> = (0..members)
        .map(|i| match &packed_a[i] {
            Some(p) => GemmInputA::Packed(p),
            None => GemmInputA::Unpacked(a_views[i]),
        })
        .collect();
    let b_inputs: Vec<GemmInputB<i8>> = (0..members)
        .map(|i| match (&packed_b[i], &im2cols[i]) {
            (Some(p), _) => GemmInputB::Packed(p),
            (_, Some(im)) => GemmInputB::Im2Col(im),
            _ => GemmInputB::Unpacked(b_views[i].unwrap()),
        })
        .collect();

    // ---- call
    let out_len = members * m * n;
    let mut prior: Vec<i32> = Vec::new();
    let result: Result<Result<Vec<i32>, String>, String>;
    if case.api == 0 {
        let init: Vec<i32> = if case.beta == 0 { vec![POISON; out_len] } else { (0..out_len).map(|_| rng.range(-1_000_000, 1_000_000) as i32).collect() };
        prior = init.clone();
        let mut out = Buf::new(init, guard);
        let opts = GemmOptions { alpha: 1.0, beta: case.beta, bias: bias_opt, a_quant, b_quant };
        let r = catch(|| gemm.gemm(out.as_mut_slice(), a_inputs[0], b_inputs[0], opts));
        result = r.map(|r| r.map(|_| out.as_slice().to_vec()).map_err(|e| format!("{:?}", e)));
    } else {
        let opts = GemmUninitOptions { alpha: 1.0, bias: bias_opt, a_quant, b_quant };
        let mut heap: Vec<i32>;
        let mut guarded: Buf<MaybeUninit<i32>>;
        let out: &mut [MaybeUninit<i32>] = if is_miri() {
            heap = Vec::with_capacity(out_len);
            &mut heap.spare_capacity_mut()[..out_len]
        } else {
            guarded = Buf::new(vec![MaybeUninit::new(POISON); out_len], guard);
            guarded.as_mut_slice()
        };
        let out_ptr = out.as_ptr() as usize;
        let r = catch(|| {
            if case.api == 1 {
                gemm.gemm_uninit(out, a_inputs[0], b_inputs[0], opts)
            } else {
                gemm.batched_gemm_uninit(out, &a_inputs, &b_inputs, opts)
            }
        });
        result = r.map(|r| match r {
            Ok(init) => {
                if init.len() != out_len || init.as_ptr() as usize != out_ptr {
                    Err("RETURNED_SLICE differs from the output buffer".to_string())
                } else {
                    Ok(init.to_vec())
                }
            }
            Err(e) => Err(format!("{:?}", e)),
        });
    }
    let out = match result {
        Err(msg) => return panic_outcome(case, case.api_name(), &msg),
        Ok(Err(e)) if e.starts_with("RETURNED_SLICE") => return Outcome::fail("bad_returned_slice", json!({"what": e})),
        Ok(Err(e)) => return Outcome::fail(&format!("error:{}", e), json!({"error": e})),
        Ok(Ok(out)) => out,
    };

    // ---- exact reference
    let judged = !gemm.may_saturate() || case.reduced_range();
    let mut n_bad = 0u64;
    let mut first_bad: Option<(String, Json)> = None;
    for i in 0..members {
        let a_buf = a_bufs[i].as_slice();
        let b_buf = b_bufs[i].as_slice();
        let af: Vec<i64> = (0..m * k).map(|idx| a_buf[(idx / k.max(1)) * ars + (idx % k.max(1)) * acs] as i64).collect();
        let mut bt = vec![0i64; n * k];
        for c in 0..n {
            for kk in 0..k {
                bt[c * k + kk] = match &case.conv {
                    Some(conv) => conv.source(kk, c).map(|o| b_buf[o] as i64).unwrap_or(0),
                    None => b_buf[kk * brs + c * bcs] as i64,
                };
            }
        }
        for r in 0..m {
            let az = if case.a_zp != 0 { a_zero[r] as i64 } else { 0 };
            let arow = &af[r * k..(r + 1) * k];
            for c in 0..n {
                let bz = if case.b_zp != 0 { b_zero[c] as i64 } else { 0 };
                let bcol = &bt[c * k..(c + 1) * k];
                let mut s = 0i64;
                for kk in 0..k {
                    s += (arow[kk] - az) * (bcol[kk] - bz);
                }
                let idx = i * m * n + r * n + c;
                if case.api == 0 && case.beta != 0 {
                    s += prior[idx] as i64;
                }
                s += match case.bias {
                    1 => bias_buf.as_slice()[c] as i64,
                    2 => bias_buf.as_slice()[r] as i64,
                    _ => 0,
                };
                let got = out[idx];
                let kind = if got == POISON {
                    Some("unwritten")
                } else if got as i64 != s {
                    Some("inexact")
                } else {
                    None
                };
                if let Some(kind) = kind {
                    n_bad += 1;
                    if first_bad.is_none() {
                        first_bad = Some((kind.to_string(), json!({"member": i, "row": r, "col": c, "got": got, "want": s})));
                    }
                }
            }
        }
    }
    match first_bad {
        Some((kind, mut detail)) => {
            detail["bad_elements"] = json!(n_bad);
            detail["elements"] = json!(out.len());
            if judged || kind == "unwritten" {
                Outcome::fail(&kind, detail)
            } else {
                let mut o = Outcome::ok(0.0);
                o.tags.push("unjudged_full_range_on_saturating_kernel:inexact".into());
                o
            }
        }
        None => {
            let mut o = Outcome::ok(0.0);
            if !judged {
                o.tags.push("unjudged_full_range_on_saturating_kernel:exact".into());
            }
            o
        }
    }
}

/// A panic inside rten. For zero-sized problems this is the generic
/// (element-type independent) defect that C16 reports; C17 is about the
/// exactness of results, so it is only counted here.
fn panic_outcome(case: &Case, site: &str, msg: &str) -> Outcome {
    if case.members() == 0 || case.m == 0 || case.n == 0 || case.k == 0 {
        return Outcome::no_result(format!("zero_sized_problem_panicked_(reported_under_C16)@{}", site));
    }
    panic_fail(site, msg)
}

fn panic_fail(site: &str, msg: &str) -> Outcome {
    let class = panic_class(msg);
    let (head, loc) = class.rsplit_once(" @ ").unwrap_or((&class, ""));
    let file = loc.rsplit('/').next().unwrap_or("").split(':').next().unwrap_or("");
    let head: String = head.chars().take(60).collect();
    Outcome::fail(&format!("panic@{}:{}@{}", site, head.trim(), file), json!({"panic": msg}))
}

// ------------------------------------------------------------------ shrinking

fn shrink(case: &Case, guard: Option<GuardPos>, kind: &str, run: &mut dyn FnMut(&Case, Option<GuardPos>) -> Outcome) -> (Case, Option<GuardPos>, u32) {
    let mut cur = case.clone();
    let mut g = guard;
    let mut runs = 0u32;
    let mut still = |c: &Case, g: Option<GuardPos>, runs: &mut u32| -> bool {
        if *runs >= max_shrink_runs() {
            return false;
        }
        *runs += 1;
        run(c, g).fail_kind() == Some(kind)
    };
    // Is the guard page needed at all? (Some faults, e.g. a read through a
    // dangling pointer, do not depend on it.)
    if g.is_some() && still(&cur, None, &mut runs) {
        g = None;
    }
    let simple: Vec<Box<dyn Fn(&mut Case)>> = vec![
        Box::new(|c| {
            if c.api == 2 {
                c.batch = 1;
            }
        }),
        Box::new(|c| {
            if c.api == 2 && c.batch == 1 {
                c.api = 1;
            }
        }),
        Box::new(|c| {
            if c.api == 1 {
                c.api = 0;
            }
        }),
        Box::new(|c| c.a_form = 0),
        Box::new(|c| {
            if c.b_form == 1 {
                c.b_form = 0;
            }
        }),
        Box::new(|c| {
            if c.b_form == 2 {
                c.b_form = 0;
                c.conv = None;
            }
        }),
        Box::new(|c| {
            if let Some(cv) = &c.conv {
                c.conv = Some(Conv { c: cv.k(), h: 1, w: cv.n(), kh: 1, kw: 1, sh: 1, sw: 1, pt: 0, pl: 0, pb: 0, pr: 0, dy: 1, dx: 1, img_lay: 0 });
            }
        }),
        Box::new(|c| c.threads = 1),
        Box::new(|c| c.beta = 0),
        Box::new(|c| c.bias = 0),
        Box::new(|c| c.a_zp = 0),
        Box::new(|c| c.b_zp = 0),
        Box::new(|c| {
            if c.a_zp > 1 {
                c.a_zp = 4;
            }
        }),
        Box::new(|c| {
            if c.a_zp > 1 && c.a_zp != 4 {
                c.a_zp = 5;
            }
        }),
        Box::new(|c| {
            if c.b_zp > 1 {
                c.b_zp = 4;
            }
        }),
        Box::new(|c| {
            if c.b_zp > 1 && c.b_zp != 4 && c.b_form != 2 {
                c.b_zp = 5;
            }
        }),
        Box::new(|c| c.a_lay = Lay::ROW),
        Box::new(|c| c.b_lay = Lay::ROW),
        Box::new(|c| c.vals = 7),
        Box::new(|c| c.data_seed = 1),
    ];
    for f in &simple {
        let mut c = cur.clone();
        f(&mut c);
        if c != cur && still(&c, g, &mut runs) {
            cur = c;
        }
    }
    for _pass in 0..2 {
        let before = cur.clone();
        for dim in 0..3 {
            let curv = [cur.m, cur.n, cur.k][dim];
            let min = if cur.conv.is_some() && dim > 0 { 1 } else { 0 };
            for cand in smaller_dims(curv, min) {
                let mut c = cur.clone();
                match dim {
                    0 => c.m = cand,
                    1 => c.n = cand,
                    _ => c.k = cand,
                }
                if let Some(cv) = &cur.conv {
                    if cv.kh * cv.kw != 1 || cv.pt + cv.pl + cv.pb + cv.pr != 0 || cv.sh * cv.sw != 1 {
                        break;
                    }
                    let mut p = cv.clone();
                    p.c = c.k;
                    p.h = 1;
                    p.w = c.n;
                    c.conv = Some(p);
                }
                if still(&c, g, &mut runs) {
                    cur = c;
                    break;
                }
            }
        }
        if cur == before {
            break;
        }
    }
    (cur, g, runs)
}

// ------------------------------------------------------------------ engine

pub struct Int8Engine {
    kernels: Vec<(String, Gemm8)>,
    seed: u64,
    stream: u64,
}

impl Int8Engine {
    fn gemm(&self, name: &str) -> Option<&Gemm8> {
        self.kernels.iter().find(|(n, _)| n == name).map(|(_, g)| g)
    }
}

impl Engine for Int8Engine {
    type Case = Case;

    fn gen_case(&self, idx: u64, guard_phase: bool) -> Case {
        let mut rng = Rng::derive(self.seed, (self.stream << 24) ^ ((guard_phase as u64) << 23) ^ idx);
        let kernel = &self.kernels[(idx as usize) % self.kernels.len()].0;
        gen_case(&mut rng, kernel, guard_phase)
    }

    fn exec(&self, case: &Case, guard: Option<GuardPos>) -> Outcome {
        match self.gemm(&case.kernel) {
            Some(g) => exec(case, g, guard),
            None => Outcome::no_result("kernel unavailable".into()),
        }
    }

    fn record(&self, rep: &mut Report, case: &Case, o: &Outcome, guarded: bool) {
        rep.eval();
        rep.count(&format!("problems:kernel={}", case.kernel));
        rep.count(&format!("problems:path={}", case.path()));
        rep.count(&format!("problems:kernel={}:path={}", case.kernel, case.path()));
        if guarded {
            rep.count("guard_page_cases");
        }
        for t in &o.tags {
            rep.count(&format!("{}:kernel={}", t, case.kernel));
        }
        match &o.status {
            Status::Ok => {
                let judged = o.tags.is_empty();
                if judged {
                    rep.count("results_checked_exact");
                    rep.count(&format!("exact:kernel={}:{}", case.kernel, if case.reduced_range() { "reduced_range" } else { "full_range" }));
                    if case.nontrivial() {
                        rep.nontrivial(&case.identity());
                    }
                    if case.a_zp >= 2 || case.b_zp >= 2 {
                        rep.count("exact_with_nonzero_zero_points");
                    }
                    if case.k > 1024 {
                        rep.count("exact_multi_depth_block");
                    }
                }
            }
            Status::NoResult(why) => rep.count(&format!("no_result:{}", why)),
            Status::Fail { .. } => {}
        }
    }

    fn report_failure(&self, rep: &mut Report, case: &Case, guard: Option<GuardPos>, o: &Outcome, shared: Option<&Shared>) {
        let kind = o.fail_kind().unwrap().to_string();
        let mut runner = |c: &Case, g: Option<GuardPos>| match shared {
            Some(sh) => exec_in_child(self, sh, c, g),
            None => self.exec(c, None),
        };
        let (small, g, runs) = shrink(case, guard, &kind, &mut runner);
        let final_o = runner(&small, g);
        let (detail, final_kind) = match &final_o.status {
            Status::Fail { kind, detail } => (detail.clone(), kind.clone()),
            _ => (json!(null), kind.clone()),
        };
        rep.violation(
            signature(&small, &final_kind, g),
            format!(
                "{} kernel {} {} (guard {}, may_saturate={}): {} on m={} n={} k={} a_zero mode {} b_zero mode {} vals mode {} [{}]",
                small.api_name(),
                small.kernel,
                small.path(),
                guard_name(g),
                self.gemm(&small.kernel).map(|g| g.may_saturate()).unwrap_or(false),
                final_kind,
                small.m,
                small.n,
                small.k,
                small.a_zp,
                small.b_zp,
                small.vals,
                detail
            ),
            json!({"sub": "int8", "case": small.to_json(), "guard": guard_name(g), "fail": final_kind, "detail": detail,
                   "original_case": case.to_json(), "original_guard": guard_name(guard), "shrink_runs": runs, "seed": self.seed}),
        );
    }

    fn coarse_class(&self, case: &Case, kind: &str) -> String {
        format!("{}|{}|{}|{}|{}", case.kernel, case.path(), kind, case.a_zp.min(2), case.b_zp.min(2))
    }

    fn fault_class(&self, case: &Case) -> String {
        format!("{}|{}", case.kernel, case.path())
    }

    fn sample(&self, case: &Case, _o: &Outcome) -> Option<Json> {
        if case.nontrivial() { Some(json!({"case": case.to_json(), "path": case.path()})) } else { None }
    }
}

pub const RULE: &str = "GEMM part: every u8 x i8 -> i32 kernel reported by rten_gemm::verif::int8_kernels(); shapes as for C16 (plus K in {1023..1100} to cross the depth block); A/B layouts as for C16; A unpacked/prepacked, B unpacked/prepacked/im2col; gemm with beta 0/1, gemm_uninit, batched_gemm_uninit; row/column/no bias; zero points absent / all zero / per-row (A) and per-column (B) from the extremes {0,255} / {-128,127} / random / one random value; values: extremes {0,255}x{-128,127}, full-range random, reduced range (u8 0..=127 and/or i8 -64..=63), constant worst cases 255*-128 and 255*127, small; exact i64 reference; a result is judged (must be exact) when the kernel reports may_saturate()==false or the values are in a reduced range (rten documents that limiting either operand to u7/i7 avoids saturation), otherwise it is only counted; output pre-filled with a poison pattern (every element must be written); a quarter of the cases in forked children with operands, zero points, bias and output on guard pages. Round-trip part: rten::ops::dynamic_quantize_linear::<u8> followed by rten::ops::dequantize_linear on random / extreme / constant / empty / strided inputs; judged when the input is finite and its range fits in f32: |x' - x| <= scale*(1+1e-3) + 1e-35 with scale the returned quantization step. Non-trivial = M,N,K >= 1, not all 1, judged (GEMM) / non-empty judged tensor (round trip)";

pub fn run(args: &Args) {
    let mut rep = Report::new("C17", "gemmcheck int8", args, RULE);
    rep.max_samples = 8;
    let e = Int8Engine { kernels: rten_gemm::verif::int8_kernels(), seed: args.seed, stream: 0xC17_000 + args.shard as u64 };
    rep.note(
        "kernels_available",
        json!(e.kernels.iter().map(|(n, g)| json!({"hook_name": n, "kernel_name": g.kernel_name(), "may_saturate": g.may_saturate(),
            "im2col_row_step": g.im2col_row_count_step(), "im2col_col_step": g.im2col_col_count_step()})).collect::<Vec<_>>()),
    );
    for (n, g) in &e.kernels {
        rep.add(&format!("may_saturate:kernel={}", n), g.may_saturate() as u64);
    }
    for want in ["Generic", "Avx2", "Avx512"] {
        if e.gemm(want).is_none() {
            rep.count(&format!("kernel_unavailable:{}", want));
        }
    }

    if let Some(path) = &args.replay {
        let w = read_witness(path);
        if w["sub"] == "qrt" {
            replay_qrt(&mut rep, &w);
            rep.finish();
            return;
        }
        let case = Case::from_json(&w["case"]);
        let guard = guard_from_name(w["guard"].as_str().unwrap_or("none"));
        if e.gemm(&case.kernel).is_none() {
            rep.inconclusive = Some(format!("kernel {} unavailable on this machine", case.kernel));
            rep.finish();
            return;
        }
        let o = if is_miri() { e.exec(&case, None) } else { exec_in_child(&e, &Shared::new(), &case, guard) };
        e.record(&mut rep, &case, &o, guard.is_some());
        rep.nontrivial(&case.identity());
        if let Status::Fail { kind, detail } = &o.status {
            rep.violation(
                signature(&case, kind, guard),
                format!("replay: {} kernel {} {}: {} [{}]", case.api_name(), case.kernel, case.path(), kind, detail),
                json!({"sub": "int8", "case": case.to_json(), "guard": guard_name(guard), "fail": kind, "detail": detail, "seed": args.seed}),
            );
        }
        rep.finish();
        return;
    }

    let total = args.budget(9_000, 900_000);
    let n_guard = if is_miri() { 0 } else { total / 4 };
    drive(&e, &mut rep, n_guard, total - n_guard);
    let gemm_nontrivial = rep.nontrivial_count();

    // ---- quantize / dequantize round trip
    let n_qrt = if is_miri() { (total / 10).max(3) } else { args.budget(1_500, 100_000) };
    run_qrt(&mut rep, args, n_qrt);

    if gemm_nontrivial == 0 {
        rep.inconclusive = Some("no non-trivial integer GEMM problem was judged".into());
    }
    rep.finish();
}

// ------------------------------------------------------------------ quantize round trip

#[derive(Clone, Debug)]
struct QCase {
    /// Logical shape.
    shape: Vec<usize>,
    /// 0 contiguous, 1 every second element of a larger buffer, 2 transposed (2-d only).
    view: u8,
    /// Value mode, see `qvalue`.
    mode: u8,
    scale_exp: i32,
    data_seed: u64,
}

impl QCase {
    fn to_json(&self) -> Json {
        json!({"shape": self.shape, "view": self.view, "mode": self.mode, "scale_exp": self.scale_exp, "data_seed": self.data_seed.to_string()})
    }
    fn from_json(j: &Json) -> QCase {
        QCase {
            shape: j["shape"].as_array().map(|a| a.iter().map(|x| x.as_u64().unwrap_or(0) as usize).collect()).unwrap_or_default(),
            view: ju(j, "view") as u8,
            mode: ju(j, "mode") as u8,
            scale_exp: j["scale_exp"].as_i64().unwrap_or(0) as i32,
            data_seed: j["data_seed"].as_str().and_then(|s| s.parse().ok()).unwrap_or(0),
        }
    }
}

const QMODES: [&str; 12] =
    ["uniform", "positive", "negative", "constant", "zeros", "outlier", "subnormal", "near_max", "max_and_min", "non_finite", "integers", "two_values"];

fn qvalues(c: &QCase) -> Vec<f32> {
    let mut rng = Rng::derive(c.data_seed, 0x9);
    let n: usize = c.shape.iter().product();
    let s = 2f32.powi(c.scale_exp);
    let konst = rng.f32_in(-1.0, 1.0) * s;
    let two = [rng.f32_in(-1.0, 1.0) * s, rng.f32_in(-1.0, 1.0) * s];
    (0..n)
        .map(|i| match c.mode {
            0 => rng.f32_in(-1.0, 1.0) * s,
            1 => rng.f32_in(0.25, 1.0) * s,
            2 => -rng.f32_in(0.25, 1.0) * s,
            3 => konst,
            4 => {
                if rng.bool() {
                    0.0
                } else {
                    -0.0
                }
            }
            5 => {
                if i == n / 2 {
                    1e6 * s
                } else {
                    rng.f32_in(-1.0, 1.0) * s
                }
            }
            6 => f32::from_bits(rng.next_u32() & 0x807f_ffff),
            7 => rng.f32_in(-1.0, 1.0) * 1.6e38,
            8 => match rng.below(3) {
                0 => f32::MAX,
                1 => f32::MIN,
                _ => rng.f32_in(-1.0, 1.0),
            },
            9 => rng.weird_f32(),
            10 => rng.range(-300, 300) as f32,
            _ => two[rng.below(2)],
        })
        .collect()
}

/// Returns (judged, failure).
fn exec_qrt(c: &QCase, rep: &mut Report) -> (bool, Option<(String, Json)>) {
    let vals = qvalues(c);
    let n: usize = c.shape.iter().product();
    // Build the (possibly strided) input view.
    let backing: Vec<f32>;
    let input: Tensor<f32>;
    let view = match c.view {
        1 => {
            // every second element of a buffer twice as long
            let mut b = vec![f32::NAN; 2 * n];
            for (i, v) in vals.iter().enumerate() {
                b[2 * i] = *v;
            }
            backing = b;
            let strides: Vec<usize> = {
                let mut st = vec![0usize; c.shape.len()];
                let mut acc = 2usize;
                for d in (0..c.shape.len()).rev() {
                    st[d] = acc;
                    acc *= c.shape[d].max(1);
                }
                st
            };
            match rten_tensor::TensorView::from_slice_with_strides(c.shape.as_slice(), &backing[..if n == 0 { 0 } else { 2 * n - 1 }], strides.as_slice()) {
                Ok(v) => v,
                Err(_) => return (false, None),
            }
        }
        2 if c.shape.len() == 2 => {
            // stored transposed
            let (r, cc) = (c.shape[0], c.shape[1]);
            let mut b = vec![0f32; n];
            for i in 0..r {
                for j in 0..cc {
                    b[j * r + i] = vals[i * cc + j];
                }
            }
            input = Tensor::from_data(&[cc, r], b);
            input.view().transposed()
        }
        _ => {
            input = Tensor::from_data(c.shape.as_slice(), vals.clone());
            input.view()
        }
    };
    let pool = BufferPool::new();
    let q = match catch(|| rten::ops::dynamic_quantize_linear::<u8>(&pool, view.clone())) {
        Ok(Ok(q)) => q,
        Ok(Err(e)) => {
            rep.count(&format!("qrt_no_result:quantize_error:{:?}", e));
            return (false, None);
        }
        Err(msg) => {
            rep.count(&format!("qrt_no_result:quantize_panic:{}", panic_class(&msg)));
            return (false, None);
        }
    };
    let deq = match catch(|| rten::ops::dequantize_linear(&pool, q.quantized.view(), q.scale.view(), Some(q.zero_point.view()), 1)) {
        Ok(Ok(d)) => d,
        Ok(Err(e)) => {
            rep.count(&format!("qrt_no_result:dequantize_error:{:?}", e));
            return (false, None);
        }
        Err(msg) => {
            rep.count(&format!("qrt_no_result:dequantize_panic:{}", panic_class(&msg)));
            return (false, None);
        }
    };
    let scale = q.scale.item().copied().unwrap_or(f32::NAN);
    if deq.shape() != c.shape.as_slice() || q.quantized.shape() != c.shape.as_slice() {
        return (true, Some(("qrt_shape".into(), json!({"deq_shape": deq.shape().to_vec(), "q_shape": q.quantized.shape().to_vec()}))));
    }
    if n == 0 {
        rep.count("qrt_empty_inputs");
        return (false, None);
    }
    // Is this input within what the statement can be asked about?
    if vals.iter().any(|v| !v.is_finite()) {
        rep.count("qrt_unjudged:non_finite_input");
        return (false, None);
    }
    let lo = vals.iter().fold(0f64, |a, v| a.min(*v as f64));
    let hi = vals.iter().fold(0f64, |a, v| a.max(*v as f64));
    if hi - lo > f32::MAX as f64 {
        rep.count("qrt_unjudged:range_overflows_f32");
        return (false, None);
    }
    if hi - lo < 1e-33 {
        rep.count("qrt_judged_with_absolute_slack_only(tiny_range)");
    }
    let onnx_scale = ((hi - lo) / 255.0) as f32;
    if (scale as f64 - onnx_scale as f64).abs() <= 1e-5 * onnx_scale as f64 + 1e-44 {
        rep.count("qrt_scale_matches_onnx_formula");
    } else {
        rep.count("qrt_scale_differs_from_onnx_formula");
    }
    let tol = scale as f64 * (1.0 + 1e-3) + 1e-35;
    let deq_vals: Vec<f32> = deq.iter().copied().collect();
    let mut worst = 0f64;
    for (i, (x, y)) in vals.iter().zip(&deq_vals).enumerate() {
        let err = (*x as f64 - *y as f64).abs();
        if !(err <= tol) {
            return (
                true,
                Some((
                    "qrt_error_exceeds_step".into(),
                    json!({"index": i, "x": format!("{:e}", x), "roundtrip": format!("{:e}", y), "scale": format!("{:e}", scale), "zero_point": q.zero_point.item().copied(), "err_in_steps": err / scale as f64}),
                )),
            );
        }
        if scale > 0.0 && hi - lo >= 1e-33 {
            worst = worst.max(err / scale as f64);
        }
    }
    rep.max("qrt_max_error_milli_steps", (worst * 1000.0) as u64);
    (true, None)
}

fn gen_qcase(rng: &mut Rng) -> QCase {
    let rank = rng.urange(1, 3);
    let small = is_miri();
    let mut shape: Vec<usize> = (0..rank)
        .map(|_| match rng.below(12) {
            0 => 0,
            1 => 1,
            _ => rng.urange(1, if small { 5 } else { 40 }),
        })
        .collect();
    if !small && rng.chance(1, 12) {
        // cross the 4096-element parallel chunk
        shape = vec![rng.urange(4000, 9000)];
    }
    let mode = rng.below(QMODES.len()) as u8;
    QCase {
        view: if shape.len() == 2 { rng.below(3) as u8 } else { rng.below(2) as u8 },
        shape,
        mode,
        scale_exp: *rng.choose(&[-120i32, -100, -60, -20, -3, 0, 0, 1, 7, 20, 60, 100, 106]),
        data_seed: rng.next_u64(),
    }
}

fn qrt_signature(c: &QCase, kind: &str) -> String {
    format!("C17|quantize_roundtrip|fail={}|mode={}|scale=2^{}|n={}|view={}", kind, QMODES[c.mode as usize % QMODES.len()], c.scale_exp, c.shape.iter().product::<usize>(), c.view)
}

fn run_qrt(rep: &mut Report, args: &Args, n: u64) {
    for i in 0..n {
        let mut rng = Rng::derive(args.seed, ((0xC17_9000 + args.shard as u64) << 24) ^ i);
        let c = gen_qcase(&mut rng);
        rep.eval();
        rep.count("qrt_cases");
        rep.count(&format!("qrt_mode:{}", QMODES[c.mode as usize]));
        let (judged, fail) = exec_qrt(&c, rep);
        if judged {
            rep.count("qrt_judged");
            rep.nontrivial(&("qrt", c.shape.clone(), c.mode, c.scale_exp, c.view, c.data_seed));
        }
        if let Some((kind, detail)) = fail {
            // Shrink: fewer elements, contiguous view.
            let mut small = c.clone();
            let mut dummy = Report::new("C17", "shrink", args, "");
            for cand_n in [1usize, 2, 3, 4, 8, 16, 64] {
                if cand_n >= small.shape.iter().product::<usize>() {
                    break;
                }
                let mut t = small.clone();
                t.shape = vec![cand_n];
                t.view = 0;
                if let (_, Some((k2, _))) = exec_qrt(&t, &mut dummy) {
                    if k2 == kind {
                        small = t;
                        break;
                    }
                }
            }
            if small.view != 0 {
                let mut t = small.clone();
                t.view = 0;
                if let (_, Some((k2, _))) = exec_qrt(&t, &mut dummy) {
                    if k2 == kind {
                        small = t;
                    }
                }
            }
            let detail = match exec_qrt(&small, &mut dummy) {
                (_, Some((_, d))) => d,
                _ => detail,
            };
            rep.violation(
                qrt_signature(&small, &kind),
                format!("dequantize_linear(dynamic_quantize_linear(x)) is further than one quantization step from x: {}", detail),
                json!({"sub": "qrt", "case": small.to_json(), "fail": kind, "detail": detail, "original_case": c.to_json(), "values": if small.shape.iter().product::<usize>() <= 16 { json!(qvalues(&small).iter().map(|v| format!("{:e}", v)).collect::<Vec<_>>()) } else { json!(null) }}),
            );
        }
    }
}

fn replay_qrt(rep: &mut Report, w: &Json) {
    let c = QCase::from_json(&w["case"]);
    rep.eval();
    let (judged, fail) = exec_qrt(&c, rep);
    if judged {
        rep.nontrivial(&("qrt", c.shape.clone(), c.mode, c.scale_exp, c.view, c.data_seed));
    }
    if let Some((kind, detail)) = fail {
        rep.violation(qrt_signature(&c, &kind), format!("replay: quantize round trip: {}", detail), json!({"sub": "qrt", "case": c.to_json(), "fail": kind, "detail": detail}));
    }
}
