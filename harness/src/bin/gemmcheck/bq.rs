use vcommon::*;
pub fn run(_a: &Args) {}
