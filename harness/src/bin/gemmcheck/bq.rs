//! C37: block-quantized (4-bit) matrix multiplication vs dequantize-then-
//! multiply in f64, for BlockQuantizedGemm (float and int8-activation modes)
//! and for GemmExecutor with a block-quantized B input (the path rten's
//! MatMulNBits uses when there is more than one row).
use std::mem::MaybeUninit;

use rten_gemm::{BlockQuantizedGemm, BlockQuantizedMatrix, ComputeMode, GemmExecutor, GemmInputA, GemmInputB, GemmUninitOptions};
use rten_simd::verif::{IsaKind, set_forced_isa};
use rten_tensor::{Contiguous, Matrix, NdTensorView};
use vcommon::guard::GuardPos;
use vcommon::*;

use crate::common::*;

const POISON_BITS: u32 = 0xFFFF_FFFF;
const EPS: f64 = f32::EPSILON as f64;

#[derive(Clone, Debug, PartialEq)]
pub struct Case {
    /// "float:<isa>" (BlockQuantizedGemm, ComputeMode::Float, forced ISA),
    /// "int8" (BlockQuantizedGemm, ComputeMode::Int8, best ISA), or
    /// "gemm:<kernel>" (GemmExecutor::gemm_uninit with GemmInputB::BlockQuantized).
    pub mode: String,
    pub batch: usize,
    pub m: usize,
    pub n: usize,
    pub block: usize,
    pub k_blocks: usize,
    /// Scales: 0 uniform(0.01,1), 1 mixed sign, 2 tiny (2^-60), 3 very tiny
    /// (1e-37), 4 some zero, 5 powers of two, 6 all negative.
    pub scales: u8,
    /// Quantized nibbles: 0 random, 1 all 0 (=-8), 2 all 15 (=+7), 3 all 8 (=0), 4 alternating 0/15.
    pub nibbles: u8,
    /// LHS values: 0 uniform(-1,1), 1 multiples of 1/8, 2 mixed magnitude, 3 sparse, 4 constant.
    pub lhs_vals: u8,
    /// LHS layout: 0 contiguous, 1 rows padded, 2 transposed last two dims.
    pub lhs_lay: u8,
    /// 0 = scales shape matches; otherwise a deliberately wrong scales shape:
    /// 1 (n-1, kb), 2 (n+1, kb), 3 (n, kb-1), 4 (n, kb+1), 5 (kb, n) transposed.
    pub mismatch: u8,
    pub threads: usize,
    pub data_seed: u64,
}

impl Case {
    pub fn k(&self) -> usize {
        self.block * self.k_blocks
    }

    pub fn to_json(&self) -> Json {
        json!({"mode": self.mode, "batch": self.batch, "m": self.m, "n": self.n, "block": self.block, "k_blocks": self.k_blocks,
               "scales": self.scales, "nibbles": self.nibbles, "lhs_vals": self.lhs_vals, "lhs_lay": self.lhs_lay,
               "mismatch": self.mismatch, "threads": self.threads, "data_seed": self.data_seed.to_string()})
    }

    pub fn from_json(j: &Json) -> Case {
        Case {
            mode: js(j, "mode"),
            batch: ju(j, "batch"),
            m: ju(j, "m"),
            n: ju(j, "n"),
            block: ju(j, "block"),
            k_blocks: ju(j, "k_blocks"),
            scales: ju(j, "scales") as u8,
            nibbles: ju(j, "nibbles") as u8,
            lhs_vals: ju(j, "lhs_vals") as u8,
            lhs_lay: ju(j, "lhs_lay") as u8,
            mismatch: ju(j, "mismatch") as u8,
            threads: ju(j, "threads").max(1),
            data_seed: j["data_seed"].as_str().and_then(|s| s.parse().ok()).unwrap_or(0),
        }
    }

    /// Shape of the scales tensor handed to `BlockQuantizedMatrix::new`.
    pub fn scales_shape(&self) -> (usize, usize) {
        let (n, kb) = (self.n, self.k_blocks);
        match self.mismatch {
            0 => (n, kb),
            1 => (n.saturating_sub(1), kb),
            2 => (n + 1, kb),
            3 => (n, kb.saturating_sub(1)),
            4 => (n, kb + 1),
            _ => (kb, n),
        }
    }

    pub fn effective_mismatch(&self) -> bool {
        self.scales_shape() != (self.n, self.k_blocks)
    }

    pub fn nontrivial(&self) -> bool {
        self.mismatch == 0 && self.k_blocks >= 2 && self.batch >= 1 && self.m >= 1 && self.n >= 1
    }

    /// Whether the int8-activation code is really used (rten only quantizes
    /// the activations for single-row inputs).
    pub fn int8_active(&self) -> bool {
        self.mode == "int8" && self.m == 1
    }

    pub fn identity(&self) -> String {
        format!("{}|{}|{}|{}|{}|{}|{}{}{}{}", self.mode, self.batch, self.m, self.n, self.block, self.k_blocks, self.scales, self.nibbles, self.lhs_vals, self.lhs_lay)
    }
}

pub fn signature(case: &Case, kind: &str, guard: Option<GuardPos>) -> String {
    let mut parts = vec![
        "C37".to_string(),
        format!("mode={}", case.mode),
        format!("fail={}", kind),
        format!("batch={},m={},n={},block={},k_blocks={}", case.batch, case.m, case.n, case.block, case.k_blocks),
    ];
    if case.effective_mismatch() {
        parts.push(format!("scales_shape={}", ["ok", "(n-1,kb)", "(n+1,kb)", "(n,kb-1)", "(n,kb+1)", "(kb,n)"][case.mismatch as usize % 6]));
    }
    if case.scales != 0 {
        parts.push(format!("scales={}", ["uniform", "mixed_sign", "tiny", "very_tiny", "some_zero", "pow2", "negative"][case.scales as usize % 7]));
    }
    if case.nibbles != 0 {
        parts.push(format!("nibbles={}", case.nibbles));
    }
    if case.lhs_lay != 0 {
        parts.push(format!("lhs_lay={}", case.lhs_lay));
    }
    if case.threads > 1 {
        parts.push("threads>1".into());
    }
    if let Some(g) = guard {
        parts.push(format!("guard={}", guard_name(Some(g))));
    }
    parts.join("|")
}

fn lhs_value(rng: &mut Rng, mode: u8, konst: f32) -> f32 {
    match mode {
        0 => rng.f32_in(-1.0, 1.0),
        1 => rng.small_f32(),
        2 => rng.f32_in(-1.0, 1.0) * 2f32.powi(rng.range(-10, 3) as i32),
        3 => {
            if rng.chance(2, 3) {
                0.0
            } else {
                rng.f32_in(-2.0, 2.0)
            }
        }
        _ => konst,
    }
}

fn scale_value(rng: &mut Rng, mode: u8) -> f32 {
    match mode {
        0 => rng.f32_in(0.01, 1.0),
        1 => rng.f32_in(0.01, 1.0) * if rng.bool() { -1.0 } else { 1.0 },
        2 => rng.f32_in(0.5, 1.0) * 2f32.powi(-60) * if rng.bool() { -1.0 } else { 1.0 },
        3 => rng.f32_in(0.5, 1.0) * 1e-37,
        4 => {
            if rng.chance(1, 3) {
                0.0
            } else {
                rng.f32_in(-1.0, 1.0)
            }
        }
        5 => 2f32.powi(rng.range(-6, 2) as i32),
        _ => -rng.f32_in(0.01, 1.0),
    }
}

pub fn modes_available() -> Vec<String> {
    let mut v = Vec::new();
    for (name, kind) in [("generic", IsaKind::Generic), ("avx2", IsaKind::Avx2), ("avx512", IsaKind::Avx512)] {
        if rten_simd::verif::isa_available(kind) && !(is_miri() && name != "generic") {
            v.push(format!("float:{}", name));
        }
    }
    v.push("int8".to_string());
    for (name, _) in rten_gemm::verif::f32_kernels() {
        v.push(format!("gemm:{}", name));
    }
    v
}

pub fn gen_case(rng: &mut Rng, mode: &str, guard_phase: bool) -> Case {
    let small = is_miri();
    let block = if small {
        *rng.choose(&[16usize, 32])
    } else {
        match rng.below(20) {
            0 => 512,
            _ => *rng.choose(&[16usize, 32, 64, 128, 256]),
        }
    };
    // K/128 and K/64 matter (elements per 512/256-bit vector of nibbles), as
    // does the number of blocks modulo the number of scales per vector.
    let max_blocks = if small { 3 } else { (1536 / block).clamp(3, 20) };
    let k_blocks = match rng.below(12) {
        0 => 0,
        1 => 1,
        _ => rng.urange(1, max_blocks),
    };
    let m = if small { *rng.choose(&[1usize, 2]) } else { *rng.choose(&[1usize, 1, 1, 2, 7, 33]) };
    let n = match rng.below(10) {
        0 => 0,
        1 => 1,
        _ => {
            if small {
                rng.urange(1, 5)
            } else {
                *rng.choose(&[2usize, 3, 4, 5, 15, 16, 17, 31, 32, 33, 40, 64, 65])
            }
        }
    };
    let mut batch = if small { rng.urange(0, 2) } else { rng.urange(0, 5) };
    while !small && batch * m * n * block * k_blocks > MAX_PRODUCT && batch > 1 {
        batch -= 1;
    }
    // Wrong scales shapes may fault: only in the forked (guard page) phase.
    let mismatch = if guard_phase && rng.chance(1, 4) { rng.urange(1, 5) as u8 } else { 0 };
    Case {
        mode: mode.to_string(),
        batch,
        m,
        n,
        block,
        k_blocks,
        scales: rng.below(7) as u8,
        nibbles: if rng.chance(2, 3) { 0 } else { rng.urange(1, 4) as u8 },
        lhs_vals: rng.below(5) as u8,
        lhs_lay: rng.below(3) as u8,
        mismatch,
        threads: if guard_phase { *rng.choose(&[1usize, 1, 3]) } else { *rng.choose(&[1usize, 4]) },
        data_seed: rng.next_u64(),
    }
}

pub fn exec(case: &Case, guard: Option<GuardPos>) -> Outcome {
    with_threads(case.threads, || exec_inner(case, guard))
}

fn exec_inner(case: &Case, guard: Option<GuardPos>) -> Outcome {
    let mut rng = Rng::derive(case.data_seed, 0xB9);
    let (batch, m, n, block, kb) = (case.batch, case.m, case.n, case.block, case.k_blocks);
    let k = block * kb;
    let block_bytes = block / 2;

    // ---- weights
    let quant: Vec<u8> = (0..n * kb * block_bytes)
        .map(|i| match case.nibbles {
            0 => rng.next_u32() as u8,
            1 => 0x00,
            2 => 0xFF,
            3 => 0x88,
            _ => {
                if i % 2 == 0 {
                    0xF0
                } else {
                    0x0F
                }
            }
        })
        .collect();
    let (sn, skb) = case.scales_shape();
    let effective_mismatch = case.effective_mismatch();
    let scales: Vec<f32> = (0..sn * skb).map(|_| scale_value(&mut rng, case.scales)).collect();
    let quant_buf = Buf::new(quant, guard);
    let scales_buf = Buf::new(scales, guard);

    // ---- activations: logical [batch, m, k]
    let konst = rng.f32_in(-2.0, 2.0);
    let (lhs_strides, lhs_len): ([usize; 3], usize) = match case.lhs_lay {
        1 => ([m * (k + 3), k + 3, 1], if batch * m * k == 0 { 0 } else { (batch - 1) * m * (k + 3) + (m - 1) * (k + 3) + k }),
        2 => ([m * k, 1, m], batch * m * k),
        _ => ([m * k, k, 1], batch * m * k),
    };
    let mut lhs = vec![f32::NAN; lhs_len];
    for b in 0..batch {
        for r in 0..m {
            for c in 0..k {
                lhs[b * lhs_strides[0] + r * lhs_strides[1] + c * lhs_strides[2]] = lhs_value(&mut rng, case.lhs_vals, konst);
            }
        }
    }
    let lhs_buf = Buf::new(lhs, guard);

    // ---- output
    let out_len = batch * m * n;
    let mut heap: Vec<f32>;
    let mut guarded: Buf<MaybeUninit<f32>>;
    let out: &mut [MaybeUninit<f32>] = if is_miri() {
        heap = Vec::with_capacity(out_len);
        &mut heap.spare_capacity_mut()[..out_len]
    } else {
        guarded = Buf::new(vec![MaybeUninit::new(f32::from_bits(POISON_BITS)); out_len], guard);
        guarded.as_mut_slice()
    };

    // ---- construct the matrix and multiply
    let quant_view = NdTensorView::from_data([n, kb, block_bytes], quant_buf.as_slice());
    let scales_view = NdTensorView::from_data([sn, skb], scales_buf.as_slice());
    let lhs_view = match NdTensorView::from_slice_with_strides([batch, m, k], lhs_buf.as_slice(), lhs_strides) {
        Ok(v) => v,
        Err(e) => return Outcome::no_result(format!("harness_lhs_view:{:?}", e)),
    };
    let mat = match catch(|| BlockQuantizedMatrix::new(Contiguous::new(quant_view).unwrap(), Contiguous::new(scales_view).unwrap(), 4)) {
        Ok(Ok(mat)) => mat,
        Ok(Err(e)) => {
            return if effective_mismatch {
                let mut o = Outcome::no_result(format!("new_error:{:?}", e));
                o.tags.push("mismatch_rejected_by_new".into());
                o
            } else {
                Outcome::fail(&format!("new_error:{:?}", e), json!({"error": format!("{:?}", e)}))
            };
        }
        Err(msg) => {
            return if effective_mismatch {
                Outcome::no_result(format!("new_panic:{}", short(&msg)))
            } else {
                Outcome::fail(&format!("panic@new:{}", short(&msg)), json!({"panic": msg}))
            };
        }
    };

    let result: Result<Result<Vec<f32>, String>, String> = if let Some(kernel) = case.mode.strip_prefix("gemm:") {
        let Some((_, gemm)) = rten_gemm::verif::f32_kernels().into_iter().find(|(n, _)| n == kernel) else {
            return Outcome::no_result("kernel unavailable".into());
        };
        // The operator flattens [batch, m, k] to [batch*m, k]; do the same
        // on the logical matrix (needs a contiguous copy unless already so).
        let rows = batch * m;
        let flat: Buf<f32>;
        let a: Matrix<f32> = if case.lhs_lay == 0 {
            Matrix::from_data([rows, k], lhs_buf.as_slice())
        } else {
            let mut v = Vec::with_capacity(rows * k);
            for b in 0..batch {
                for r in 0..m {
                    for c in 0..k {
                        v.push(lhs_buf.as_slice()[b * lhs_strides[0] + r * lhs_strides[1] + c * lhs_strides[2]]);
                    }
                }
            }
            flat = Buf::new(v, guard);
            Matrix::from_data([rows, k], flat.as_slice())
        };
        run_gemm(&gemm, out, a, mat)
    } else {
        let (compute, isa) = match case.mode.as_str() {
            "int8" => (ComputeMode::Int8, None),
            "float:generic" => (ComputeMode::Float, Some(IsaKind::Generic)),
            "float:avx2" => (ComputeMode::Float, Some(IsaKind::Avx2)),
            "float:avx512" => (ComputeMode::Float, Some(IsaKind::Avx512)),
            other => return Outcome::no_result(format!("unknown mode {}", other)),
        };
        if !set_forced_isa(isa) {
            return Outcome::no_result("isa unavailable".into());
        }
        let gemm = BlockQuantizedGemm::new().with_compute(compute);
        let out_ptr = out.as_ptr() as usize;
        let r = catch(|| gemm.batched_gemm_uninit(out, lhs_view, mat));
        set_forced_isa(None);
        r.map(|r| match r {
            Ok(init) => {
                if init.len() != out_len || init.as_ptr() as usize != out_ptr {
                    Err("RETURNED_SLICE differs from the output buffer".into())
                } else {
                    Ok(init.to_vec())
                }
            }
            Err(e) => Err(format!("{:?}", e)),
        })
    };

    let out = match result {
        Err(msg) => {
            return if effective_mismatch {
                let mut o = Outcome::no_result(format!("panic:{}", short(&msg)));
                o.tags.push("mismatch_panicked".into());
                o
            } else {
                Outcome::fail(&format!("panic@multiply:{}", short(&msg)), json!({"panic": msg}))
            };
        }
        Ok(Err(e)) if e.starts_with("RETURNED_SLICE") => return Outcome::fail("bad_returned_slice", json!({"what": e})),
        Ok(Err(e)) => {
            return if effective_mismatch {
                let mut o = Outcome::no_result(format!("error:{}", e));
                o.tags.push("mismatch_rejected_by_multiply".into());
                o
            } else {
                Outcome::fail(&format!("error:{}", e), json!({"error": e}))
            };
        }
        Ok(Ok(out)) => out,
    };

    if effective_mismatch {
        // A wrong scales shape was accepted. The values are unspecified, but
        // returning never-written memory as initialised f32 is not allowed
        // (and a fault is caught by the guard pages).
        let unwritten = out.iter().filter(|v| v.to_bits() == POISON_BITS).count();
        return if unwritten > 0 {
            Outcome::fail("mismatch_accepted_output_unwritten", json!({"unwritten": unwritten, "elements": out.len(), "scales_shape": [sn, skb], "quant_shape": [n, kb, block_bytes]}))
        } else {
            let mut o = Outcome::ok(0.0);
            o.tags.push("mismatch_accepted_values_unspecified".into());
            o
        };
    }

    // ---- reference: dequantize, multiply in f64
    let q = quant_buf.as_slice();
    let sc = scales_buf.as_slice();
    let l = lhs_buf.as_slice();
    // w[col][kk]
    let mut w = vec![0f64; n * k];
    for col in 0..n {
        for kk in 0..k {
            let blk = kk / block;
            let within = kk % block;
            let byte = q[(col * kb + blk) * block_bytes + within / 2];
            let nib = if within % 2 == 0 { byte & 0x0F } else { byte >> 4 };
            w[col * k + kk] = (nib as i32 - 8) as f64 * sc[col * kb + blk] as f64;
        }
    }
    let int8 = case.int8_active();
    let mut max_ratio = 0f64;
    let mut first_bad: Option<(String, Json)> = None;
    let mut n_bad = 0u64;
    for b in 0..batch {
        for r in 0..m {
            let row: Vec<f64> = (0..k).map(|c| l[b * lhs_strides[0] + r * lhs_strides[1] + c * lhs_strides[2]] as f64).collect();
            // per-block activation quantization step (int8 mode)
            let step: Vec<f64> = (0..kb).map(|blk| row[blk * block..(blk + 1) * block].iter().fold(0f64, |a, x| a.max(x.abs())) / 127.0).collect();
            for col in 0..n {
                let wc = &w[col * k..(col + 1) * k];
                let mut s = 0f64;
                let mut sa = 0f64;
                let mut qerr = 0f64;
                for kk in 0..k {
                    let p = row[kk] * wc[kk];
                    s += p;
                    sa += p.abs();
                    if int8 {
                        qerr += 0.5 * step[kk / block] * wc[kk].abs();
                    }
                }
                // accumulation bound, plus (int8 mode) the bound implied by
                // rounding each activation to a multiple of max|a|/127 of its
                // block, plus slack for underflow with tiny scales.
                let bound = 4.0 * (k as f64 + 2.0) * EPS * (sa + qerr) + qerr * (1.0 + 1e-3) + (k as f64 + 2.0) * 1e-37;
                let got = out[(b * m + r) * n + col];
                let kind = if got.to_bits() == POISON_BITS {
                    Some("unwritten")
                } else if !got.is_finite() {
                    Some("nonfinite")
                } else {
                    let err = (got as f64 - s).abs();
                    max_ratio = max_ratio.max(err / bound);
                    if err > bound { Some("mismatch") } else { None }
                };
                if let Some(kind) = kind {
                    n_bad += 1;
                    if first_bad.is_none() {
                        first_bad = Some((kind.to_string(), json!({"batch": b, "row": r, "col": col, "got": format!("{:e}", got), "want": s, "bound": bound, "quantization_part_of_bound": qerr})));
                    }
                }
            }
        }
    }
    match first_bad {
        Some((kind, mut detail)) => {
            detail["bad_elements"] = json!(n_bad);
            detail["elements"] = json!(out.len());
            let mut o = Outcome::fail(&kind, detail);
            o.ratio = max_ratio;
            o
        }
        None => Outcome::ok(max_ratio),
    }
}

fn run_gemm(gemm: &GemmExecutor, out: &mut [MaybeUninit<f32>], a: Matrix<f32>, mat: BlockQuantizedMatrix<f32>) -> Result<Result<Vec<f32>, String>, String> {
    let out_len = out.len();
    let out_ptr = out.as_ptr() as usize;
    let r = catch(|| gemm.gemm_uninit(out, GemmInputA::Unpacked(a), GemmInputB::BlockQuantized(mat), GemmUninitOptions::default()));
    r.map(|r| match r {
        Ok(init) => {
            if init.len() != out_len || init.as_ptr() as usize != out_ptr {
                Err("RETURNED_SLICE differs from the output buffer".into())
            } else {
                Ok(init.to_vec())
            }
        }
        Err(e) => Err(format!("{:?}", e)),
    })
}

fn short(msg: &str) -> String {
    let class = panic_class(msg);
    let (head, loc) = class.rsplit_once(" @ ").unwrap_or((&class, ""));
    let file = loc.rsplit('/').next().unwrap_or("").split(':').next().unwrap_or("");
    let head: String = head.chars().take(60).collect();
    format!("{}@{}", head.trim(), file)
}

fn shrink(case: &Case, guard: Option<GuardPos>, kind: &str, run: &mut dyn FnMut(&Case, Option<GuardPos>) -> Outcome) -> (Case, Option<GuardPos>, u32) {
    let mut cur = case.clone();
    let mut g = guard;
    let mut runs = 0u32;
    let mut still = |c: &Case, g: Option<GuardPos>, runs: &mut u32| -> bool {
        if *runs >= max_shrink_runs() {
            return false;
        }
        *runs += 1;
        run(c, g).fail_kind() == Some(kind)
    };
    // Is the guard page needed at all? (Some faults, e.g. a read through a
    // dangling pointer, do not depend on it.)
    if g.is_some() && still(&cur, None, &mut runs) {
        g = None;
    }
    let steps: Vec<Box<dyn Fn(&mut Case)>> = vec![
        Box::new(|c| c.mismatch = 0),
        Box::new(|c| c.threads = 1),
        Box::new(|c| c.batch = 1),
        Box::new(|c| c.lhs_lay = 0),
        Box::new(|c| c.scales = 5),
        Box::new(|c| c.nibbles = 0),
        Box::new(|c| c.lhs_vals = 1),
        Box::new(|c| c.data_seed = 1),
    ];
    for f in &steps {
        let mut c = cur.clone();
        f(&mut c);
        if c != cur && still(&c, g, &mut runs) {
            cur = c;
        }
    }
    for cand in [1usize, 2, 7] {
        if cand < cur.m {
            let mut c = cur.clone();
            c.m = cand;
            if still(&c, g, &mut runs) {
                cur = c;
                break;
            }
        }
    }
    for cand in [16usize, 32, 64, 128, 256] {
        if cand < cur.block {
            let mut c = cur.clone();
            c.block = cand;
            if still(&c, g, &mut runs) {
                cur = c;
                break;
            }
        }
    }
    for _pass in 0..2 {
        let before = cur.clone();
        for cand in 0..cur.k_blocks {
            let mut c = cur.clone();
            c.k_blocks = cand;
            if still(&c, g, &mut runs) {
                cur = c;
                break;
            }
        }
        for cand in smaller_dims(cur.n, 0) {
            let mut c = cur.clone();
            c.n = cand;
            if still(&c, g, &mut runs) {
                cur = c;
                break;
            }
        }
        if cur == before {
            break;
        }
    }
    (cur, g, runs)
}

pub struct BqEngine {
    modes: Vec<String>,
    seed: u64,
    stream: u64,
}

impl Engine for BqEngine {
    type Case = Case;

    fn gen_case(&self, idx: u64, guard_phase: bool) -> Case {
        let mut rng = Rng::derive(self.seed, (self.stream << 24) ^ ((guard_phase as u64) << 23) ^ idx);
        let mode = &self.modes[(idx as usize) % self.modes.len()];
        gen_case(&mut rng, mode, guard_phase)
    }

    fn exec(&self, case: &Case, guard: Option<GuardPos>) -> Outcome {
        exec(case, guard)
    }

    fn record(&self, rep: &mut Report, case: &Case, o: &Outcome, guarded: bool) {
        rep.eval();
        rep.count(&format!("problems:mode={}", case.mode));
        if guarded {
            rep.count("guard_page_cases");
        }
        if case.mismatch != 0 {
            rep.count("scales_shape_mismatch_cases");
        }
        for t in &o.tags {
            rep.count(t);
        }
        match &o.status {
            Status::Ok => {
                if case.mismatch == 0 {
                    rep.count("results_checked");
                    rep.count(&format!("checked:block={}", case.block));
                    rep.max(&format!("max_err_over_bound_ppm:mode={}", case.mode), (o.ratio * 1e6) as u64);
                    if case.int8_active() {
                        rep.count("int8_activation_path_checked");
                    }
                    if case.k() == 0 {
                        rep.count("k_zero_checked");
                    }
                    if case.nontrivial() {
                        rep.nontrivial(&case.identity());
                    }
                }
            }
            Status::NoResult(why) => rep.count(&format!("no_result:{}", why)),
            Status::Fail { .. } => {}
        }
    }

    fn report_failure(&self, rep: &mut Report, case: &Case, guard: Option<GuardPos>, o: &Outcome, shared: Option<&Shared>) {
        let kind = o.fail_kind().unwrap().to_string();
        let mut runner = |c: &Case, g: Option<GuardPos>| match shared {
            Some(sh) => exec_in_child(self, sh, c, g),
            None => self.exec(c, None),
        };
        let (small, g, runs) = shrink(case, guard, &kind, &mut runner);
        let final_o = runner(&small, g);
        let (detail, final_kind) = match &final_o.status {
            Status::Fail { kind, detail } => (detail.clone(), kind.clone()),
            _ => (json!(null), kind.clone()),
        };
        rep.violation(
            signature(&small, &final_kind, g),
            format!(
                "block-quantized matmul, mode {} (guard {}): {} on batch={} m={} n={} block={} k_blocks={} scales mode {} mismatch {} [{}]",
                small.mode,
                guard_name(g),
                final_kind,
                small.batch,
                small.m,
                small.n,
                small.block,
                small.k_blocks,
                small.scales,
                small.mismatch,
                detail
            ),
            json!({"sub": "bq", "case": small.to_json(), "guard": guard_name(g), "fail": final_kind, "detail": detail,
                   "original_case": case.to_json(), "original_guard": guard_name(guard), "shrink_runs": runs, "seed": self.seed}),
        );
    }

    fn coarse_class(&self, case: &Case, kind: &str) -> String {
        format!("{}|{}|{}", case.mode, kind, case.mismatch)
    }

    fn fault_class(&self, case: &Case) -> String {
        format!("{}|{}", case.mode, case.mismatch)
    }

    fn sample(&self, case: &Case, o: &Outcome) -> Option<Json> {
        if case.nontrivial() { Some(json!({"case": case.to_json(), "max_err_over_bound": o.ratio})) } else { None }
    }
}

pub const RULE: &str = "BlockQuantizedMatrix (4-bit, zero point 8 - the API has no zero-point input) times f32 activations through (a) BlockQuantizedGemm ComputeMode::Float with the ISA forced to generic / AVX2 / AVX-512, (b) BlockQuantizedGemm ComputeMode::Int8 (best ISA; activations are only quantized when M = 1), (c) GemmExecutor::gemm_uninit with GemmInputB::BlockQuantized for every f32 kernel (the path MatMulNBits takes for M > 1); block sizes 16..256 and occasionally 512; 0..20 blocks per column (K = 0 included); N from {0,1,2,3,4,5,15,16,17,31,32,33,40,64,65}; M from {1,2,7,33}; batch 0..5; scales uniform / mixed sign / tiny (2^-60, 1e-37) / some zero / powers of two / negative; nibble patterns random and extreme; activations contiguous, row-padded or transposed; 1 and 4 threads; a quarter of the cases in forked children with weights, scales, activations and output on guard pages; a quarter of the forked cases give `new` a scales tensor of the wrong shape (must be an error, a panic, or a fully written result - never a fault or never-written output). Oracle: dequantize ((nibble-8)*scale) and multiply in f64; |err| <= 4*(K+2)*eps*sum|a_i*w_i| (+ in int8 mode sum_i 0.5*(max|a| of the block/127)*|w_i|, the bound implied by rounding each activation to int8 with a per-block scale, times 1.001) + (K+2)*1e-37; output pre-filled with 0xFF bytes. Non-trivial = matching shapes, at least 2 blocks per column, batch, M, N >= 1";

pub fn run(args: &Args) {
    let mut rep = Report::new("C37", "gemmcheck bq", args, RULE);
    rep.max_samples = 8;
    let e = BqEngine { modes: modes_available(), seed: args.seed, stream: 0xC37_000 + args.shard as u64 };
    rep.note("modes", json!(e.modes));
    rep.note("int8_compute_optimized", json!(BlockQuantizedGemm::is_compute_optimized(ComputeMode::Int8)));
    for want in ["float:generic", "float:avx2", "float:avx512", "gemm:Generic", "gemm:Fma", "gemm:Avx512"] {
        if !e.modes.iter().any(|m| m == want) {
            rep.count(&format!("mode_unavailable:{}", want));
        }
    }

    if let Some(path) = &args.replay {
        let w = read_witness(path);
        let case = Case::from_json(&w["case"]);
        let guard = guard_from_name(w["guard"].as_str().unwrap_or("none"));
        let o = if is_miri() { e.exec(&case, None) } else { exec_in_child(&e, &Shared::new(), &case, guard) };
        e.record(&mut rep, &case, &o, guard.is_some());
        rep.nontrivial(&case.identity());
        if let Status::Fail { kind, detail } = &o.status {
            rep.violation(
                signature(&case, kind, guard),
                format!("replay: block-quantized matmul mode {}: {} [{}]", case.mode, kind, detail),
                json!({"sub": "bq", "case": case.to_json(), "guard": guard_name(guard), "fail": kind, "detail": detail, "seed": args.seed}),
            );
        }
        rep.finish();
        return;
    }

    let total = args.budget(6_000, 600_000);
    let n_guard = if is_miri() { 0 } else { total / 4 };
    drive(&e, &mut rep, n_guard, total - n_guard);
    if rep.nontrivial_count() == 0 {
        rep.inconclusive = Some("no non-trivial block-quantized product produced a result".into());
    }
    rep.finish();
}
