//! Shared helpers for gemmcheck: matrix layouts, guarded/heap buffers, the
//! forked-child runner with a shared result area, thread pools, size sampling
//! and the im2col (virtual matrix) builder.
use std::sync::OnceLock;
use std::sync::atomic::{AtomicU64, Ordering};

use rten_gemm::{ColOffsets, Im2Col, RowOffsets};
use rten_tensor::NdTensorView;
use vcommon::guard::{GuardPos, Guarded, in_child};
use vcommon::*;

/// Sizes around the tile / block boundaries of the kernels (MR 6/8, NR
/// 4/16/32, K tile 4, depth block 256, row block 64, column block 128).
pub const SIZES: [usize; 25] = [
    0, 1, 2, 3, 4, 5, 6, 7, 8, 9, 15, 16, 17, 31, 32, 33, 63, 64, 65, 127, 128, 129, 255, 256, 257,
];

/// Upper bound on M*N*K for one matrix product.
pub const MAX_PRODUCT: usize = 2_500_000;

pub fn is_miri() -> bool {
    cfg!(miri)
}

/// Sample one dimension.
pub fn pick_dim(rng: &mut Rng) -> usize {
    if is_miri() {
        return match rng.below(10) {
            0 => 0,
            1 => *rng.choose(&[15usize, 16, 17]),
            _ => rng.urange(1, 9),
        };
    }
    if rng.chance(7, 10) {
        *rng.choose(&SIZES)
    } else {
        rng.urange(0, 300)
    }
}

/// Sample (M, N, K) with a bounded product.
pub fn pick_mnk(rng: &mut Rng) -> (usize, usize, usize) {
    let mut d = [pick_dim(rng), pick_dim(rng), pick_dim(rng)];
    let cap = if is_miri() { 600 } else { MAX_PRODUCT };
    let mut guard = 0;
    while d[0].max(1) * d[1].max(1) * d[2].max(1) > cap && guard < 20 {
        // Replace the largest dimension by a small one.
        let i = (0..3).max_by_key(|&i| d[i]).unwrap();
        d[i] = if is_miri() { rng.urange(1, 5) } else { *rng.choose(&SIZES[..16]) };
        guard += 1;
    }
    (d[0], d[1], d[2])
}

// ------------------------------------------------------------------ layouts

/// How the logical `rows x cols` matrix is laid out in its buffer.
#[derive(Clone, Copy, Debug, PartialEq, Eq, Hash)]
pub struct Lay {
    /// 0 row-major, 1 row-major with padded leading dimension, 2 column-major
    /// (a transposed view), 3 column-major padded, 4 both strides non-unit
    /// (row-major-like), 5 both strides non-unit (column-major-like),
    /// 6 row stride 0 (broadcast row), 7 column stride 0 (broadcast column).
    pub kind: u8,
    pub pad: usize,
}

impl Lay {
    pub const ROW: Lay = Lay { kind: 0, pad: 0 };

    pub fn pick(rng: &mut Rng) -> Lay {
        let kind = match rng.below(20) {
            0..=5 => 0,
            6..=8 => 1,
            9..=12 => 2,
            13..=14 => 3,
            15..=16 => 4,
            17 => 5,
            18 => 6,
            _ => 7,
        };
        let pad = match kind {
            1 | 3 => *rng.choose(&[1usize, 2, 3, 7, 8, 13]),
            4 | 5 => rng.urange(1, 2),
            _ => 0,
        };
        Lay { kind, pad }
    }

    pub fn strides(&self, rows: usize, cols: usize) -> (usize, usize) {
        match self.kind {
            0 => (cols, 1),
            1 => (cols + self.pad, 1),
            2 => (1, rows),
            3 => (1, rows + self.pad),
            4 => {
                let cs = 1 + self.pad;
                (cs * cols + 1, cs)
            }
            5 => {
                let rs = 1 + self.pad;
                (rs, rs * rows + 1)
            }
            6 => (0, 1),
            _ => (1, 0),
        }
    }

    /// Number of buffer elements needed: exactly up to the last logical element.
    pub fn buf_len(&self, rows: usize, cols: usize) -> usize {
        if rows == 0 || cols == 0 {
            return 0;
        }
        let (rs, cs) = self.strides(rows, cols);
        (rows - 1) * rs + (cols - 1) * cs + 1
    }

    pub fn is_default(&self) -> bool {
        self.kind == 0
    }

    pub fn name(&self) -> String {
        match self.kind {
            0 => "row".into(),
            1 => format!("row+{}", self.pad),
            2 => "col".into(),
            3 => format!("col+{}", self.pad),
            4 => format!("strided{}", 1 + self.pad),
            5 => format!("stridedT{}", 1 + self.pad),
            6 => "bcast_rows".into(),
            _ => "bcast_cols".into(),
        }
    }

    pub fn to_json(&self) -> Json {
        json!([self.kind, self.pad])
    }

    pub fn from_json(j: &Json) -> Lay {
        Lay { kind: j[0].as_u64().unwrap_or(0) as u8, pad: j[1].as_u64().unwrap_or(0) as usize }
    }
}

/// Build the buffer of a matrix: logical elements from `f`, gaps set to `gap`.
pub fn fill_mat<T: Copy>(lay: Lay, rows: usize, cols: usize, gap: T, mut f: impl FnMut() -> T) -> Vec<T> {
    let len = lay.buf_len(rows, cols);
    let mut buf = vec![gap; len];
    let (rs, cs) = lay.strides(rows, cols);
    for r in 0..rows {
        for c in 0..cols {
            buf[r * rs + c * cs] = f();
        }
    }
    buf
}

// ------------------------------------------------------------------ buffers

/// A buffer on the heap or flush against a guard page.
pub enum Buf<T: Copy> {
    Heap(Vec<T>),
    Guard(Guarded<T>),
}

impl<T: Copy> Buf<T> {
    pub fn new(v: Vec<T>, guard: Option<GuardPos>) -> Buf<T> {
        match guard {
            Some(pos) if !is_miri() => Buf::Guard(Guarded::from_slice(&v, pos)),
            _ => Buf::Heap(v),
        }
    }

    pub fn as_slice(&self) -> &[T] {
        match self {
            Buf::Heap(v) => v,
            Buf::Guard(g) => g.as_slice(),
        }
    }

    pub fn as_mut_slice(&mut self) -> &mut [T] {
        match self {
            Buf::Heap(v) => v,
            Buf::Guard(g) => g.as_mut_slice(),
        }
    }
}

pub fn guard_name(g: Option<GuardPos>) -> &'static str {
    match g {
        None => "none",
        Some(GuardPos::After) => "after",
        Some(GuardPos::Before) => "before",
    }
}

pub fn guard_from_name(s: &str) -> Option<GuardPos> {
    match s {
        "after" => Some(GuardPos::After),
        "before" => Some(GuardPos::Before),
        _ => None,
    }
}

// ------------------------------------------------------------------ thread pools

static POOL_ONE: OnceLock<rayon::ThreadPool> = OnceLock::new();
static POOL_MANY: OnceLock<rayon::ThreadPool> = OnceLock::new();

/// True once this process has created rayon worker threads (after which it
/// must not fork any more).
pub fn pools_live() -> bool {
    POOL_ONE.get().is_some() || POOL_MANY.get().is_some()
}

/// Run `f` on a rayon pool with one thread (`threads <= 1`) or several. The
/// pools are created lazily, so a freshly forked child builds its own.
pub fn with_threads<R: Send>(threads: usize, f: impl FnOnce() -> R + Send) -> R {
    if is_miri() {
        // Under Miri the calling thread itself is the only worker: no threads
        // are spawned and nothing is ever stolen, which keeps crossbeam-epoch
        // (whose intrusive list trips Stacked Borrows) out of the picture.
        let pool = POOL_ONE.get_or_init(|| rayon::ThreadPoolBuilder::new().num_threads(1).use_current_thread().build().expect("pool"));
        return pool.install(f);
    }
    let pool = if threads <= 1 {
        POOL_ONE.get_or_init(|| rayon::ThreadPoolBuilder::new().num_threads(1).build().expect("pool"))
    } else {
        let n = if is_miri() { 2 } else { 4 };
        POOL_MANY.get_or_init(|| rayon::ThreadPoolBuilder::new().num_threads(n).build().expect("pool"))
    };
    pool.install(f)
}

// ------------------------------------------------------------------ children

const SHARED_LEN: usize = 16 << 20;

/// A MAP_SHARED area through which a forked child hands its result back:
/// `[progress u64][len u64][json bytes]`.
pub struct Shared {
    ptr: *mut u8,
}

pub enum ChildResult {
    /// The child ran to completion and returned this value.
    Done(Json),
    /// The child was killed by a signal; `progress` is the last value stored.
    Signal { sig: i32, progress: u64 },
    /// The child exited without a result (harness error inside the child).
    #[allow(dead_code)]
    Broken { code: i32, progress: u64 },
}

impl Shared {
    pub fn new() -> Shared {
        let p = unsafe {
            libc::mmap(
                std::ptr::null_mut(),
                SHARED_LEN,
                libc::PROT_READ | libc::PROT_WRITE,
                libc::MAP_SHARED | libc::MAP_ANONYMOUS,
                -1,
                0,
            )
        };
        assert!(p != libc::MAP_FAILED, "mmap(shared) failed");
        Shared { ptr: p as *mut u8 }
    }

    fn progress(&self) -> &AtomicU64 {
        unsafe { &*(self.ptr as *const AtomicU64) }
    }

    fn len_cell(&self) -> &AtomicU64 {
        unsafe { &*(self.ptr.add(8) as *const AtomicU64) }
    }

    /// Fork; run `f` in the child (it may update the progress cell); return
    /// its JSON result, or how the child died.
    pub fn run(&self, f: impl FnOnce(&AtomicU64) -> Json) -> ChildResult {
        assert!(!pools_live(), "fork after rayon pools were created");
        self.progress().store(u64::MAX, Ordering::SeqCst);
        self.len_cell().store(0, Ordering::SeqCst);
        let status = in_child(|| {
            let r = catch(|| f(self.progress()));
            match r {
                Ok(j) => {
                    let text = serde_json::to_vec(&j).unwrap();
                    if text.len() + 16 > SHARED_LEN {
                        return 102;
                    }
                    unsafe {
                        std::ptr::copy_nonoverlapping(text.as_ptr(), self.ptr.add(16), text.len());
                    }
                    self.len_cell().store(text.len() as u64, Ordering::SeqCst);
                    0
                }
                Err(msg) => {
                    eprintln!("gemmcheck child: harness panic: {}", msg);
                    101
                }
            }
        });
        let progress = self.progress().load(Ordering::SeqCst);
        match status {
            Ok(0) => {
                let len = self.len_cell().load(Ordering::SeqCst) as usize;
                let bytes = unsafe { std::slice::from_raw_parts(self.ptr.add(16), len) };
                match serde_json::from_slice(bytes) {
                    Ok(j) => ChildResult::Done(j),
                    Err(_) => ChildResult::Broken { code: 103, progress },
                }
            }
            // The driver runs the ASan flavour with `exitcode=86` and without
            // abort_on_error: a sanitizer report ends the child with that code.
            Ok(86) => ChildResult::Signal { sig: -86, progress },
            Ok(code) => ChildResult::Broken { code, progress },
            Err(sig) => ChildResult::Signal { sig, progress },
        }
    }
}

impl Drop for Shared {
    fn drop(&mut self) {
        unsafe {
            libc::munmap(self.ptr as *mut _, SHARED_LEN);
        }
    }
}

pub fn signal_name(sig: i32) -> String {
    match sig {
        libc::SIGSEGV => "SIGSEGV".into(),
        libc::SIGBUS => "SIGBUS".into(),
        libc::SIGABRT => "SIGABRT".into(),
        libc::SIGILL => "SIGILL".into(),
        libc::SIGFPE => "SIGFPE".into(),
        -86 => "sanitizer_report".into(),
        other => format!("signal{}", other),
    }
}

// ------------------------------------------------------------------ outcomes

/// What executing one case showed.
#[derive(Clone, Debug)]
pub enum Status {
    /// Result produced and within the oracle's bound.
    Ok,
    /// No result (error return or panic) where that is acceptable.
    NoResult(String),
    /// The oracle refutes the property. `kind` is a short stable class.
    Fail { kind: String, detail: Json },
}

#[derive(Clone, Debug)]
pub struct Outcome {
    pub status: Status,
    /// Largest observed |error| / bound (0 when not applicable).
    pub ratio: f64,
    /// Free-form counters to add to the report.
    pub tags: Vec<String>,
}

impl Outcome {
    pub fn ok(ratio: f64) -> Outcome {
        Outcome { status: Status::Ok, ratio, tags: vec![] }
    }
    pub fn no_result(why: String) -> Outcome {
        Outcome { status: Status::NoResult(why), ratio: 0.0, tags: vec![] }
    }
    pub fn fail(kind: &str, detail: Json) -> Outcome {
        Outcome { status: Status::Fail { kind: kind.to_string(), detail }, ratio: 0.0, tags: vec![] }
    }
    pub fn fail_kind(&self) -> Option<&str> {
        match &self.status {
            Status::Fail { kind, .. } => Some(kind),
            _ => None,
        }
    }
    pub fn to_json(&self) -> Json {
        match &self.status {
            Status::Ok => json!({"s": "ok", "r": self.ratio, "t": self.tags}),
            Status::NoResult(w) => json!({"s": "none", "w": w, "r": 0.0, "t": self.tags}),
            Status::Fail { kind, detail } => json!({"s": "fail", "k": kind, "d": detail, "r": self.ratio, "t": self.tags}),
        }
    }
    pub fn from_json(j: &Json) -> Outcome {
        let tags = j["t"].as_array().map(|a| a.iter().filter_map(|x| x.as_str().map(String::from)).collect()).unwrap_or_default();
        let ratio = j["r"].as_f64().unwrap_or(0.0);
        let status = match j["s"].as_str().unwrap_or("") {
            "ok" => Status::Ok,
            "none" => Status::NoResult(j["w"].as_str().unwrap_or("").to_string()),
            _ => Status::Fail { kind: j["k"].as_str().unwrap_or("?").to_string(), detail: j["d"].clone() },
        };
        Outcome { status, ratio, tags }
    }
}

/// Read a witness file: either the bare witness or an object with a `witness` key.
pub fn read_witness(path: &str) -> Json {
    let w: Json = serde_json::from_str(&std::fs::read_to_string(path).expect("read replay file")).expect("parse replay file");
    if w.get("witness").is_some() { w["witness"].clone() } else { w }
}

pub fn ju(j: &Json, key: &str) -> usize {
    j[key].as_u64().unwrap_or(0) as usize
}

pub fn js(j: &Json, key: &str) -> String {
    j[key].as_str().unwrap_or("").to_string()
}

/// Upper bound on re-executions while shrinking one failure. Forks are slow
/// under ASan, so that flavour gets fewer.
pub fn max_shrink_runs() -> u32 {
    match std::env::var("VERIF_FLAVOUR").as_deref() {
        Ok("asan") => 60,
        _ => 140,
    }
}

/// Candidate smaller values for shrinking a dimension, ascending.
pub fn smaller_dims(cur: usize, min: usize) -> Vec<usize> {
    SIZES.iter().copied().filter(|&s| s >= min && s < cur).collect()
}

// ------------------------------------------------------------------ im2col

/// Geometry of a convolution whose im2col matrix is the B operand.
#[derive(Clone, Debug, PartialEq)]
pub struct Conv {
    pub c: usize,
    pub h: usize,
    pub w: usize,
    pub kh: usize,
    pub kw: usize,
    pub sh: usize,
    pub sw: usize,
    pub pt: usize,
    pub pl: usize,
    pub pb: usize,
    pub pr: usize,
    pub dy: usize,
    pub dx: usize,
    /// 0 = CHW contiguous, 1 = HWC (channels last), 2 = CHW with padded rows.
    pub img_lay: u8,
}

impl Conv {
    /// A 1x1 convolution: the virtual matrix is the `[K, N]` image itself.
    pub fn pointwise(k: usize, n: usize, rng: &mut Rng) -> Conv {
        // factor n into h*w
        let mut h = 1;
        for cand in [2usize, 3, 4, 5, 7, 8, 16] {
            if n % cand == 0 && rng.bool() {
                h = cand;
                break;
            }
        }
        Conv { c: k, h, w: n / h, kh: 1, kw: 1, sh: 1, sw: 1, pt: 0, pl: 0, pb: 0, pr: 0, dy: 1, dx: 1, img_lay: rng.below(3) as u8 }
    }

    pub fn random(rng: &mut Rng) -> Conv {
        loop {
            let small = is_miri();
            let c = Conv {
                c: rng.urange(1, if small { 3 } else { 9 }),
                h: rng.urange(1, if small { 4 } else { 14 }),
                w: rng.urange(1, if small { 4 } else { 14 }),
                kh: rng.urange(1, 3),
                kw: rng.urange(1, 3),
                sh: rng.urange(1, 2),
                sw: rng.urange(1, 2),
                pt: rng.below(3),
                pl: rng.below(3),
                pb: rng.below(3),
                pr: rng.below(3),
                dy: rng.urange(1, 2),
                dx: rng.urange(1, 2),
                img_lay: rng.below(3) as u8,
            };
            let (oh, ow) = c.out_hw();
            if oh >= 1 && ow >= 1 {
                return c;
            }
        }
    }

    pub fn out_hw(&self) -> (usize, usize) {
        let eff_h = self.dy * (self.kh - 1) + 1;
        let eff_w = self.dx * (self.kw - 1) + 1;
        let ph = self.h + self.pt + self.pb;
        let pw = self.w + self.pl + self.pr;
        let oh = if ph >= eff_h { (ph - eff_h) / self.sh + 1 } else { 0 };
        let ow = if pw >= eff_w { (pw - eff_w) / self.sw + 1 } else { 0 };
        (oh, ow)
    }

    pub fn k(&self) -> usize {
        self.c * self.kh * self.kw
    }

    pub fn n(&self) -> usize {
        let (oh, ow) = self.out_hw();
        oh * ow
    }

    /// Strides (channel, row, column) of the image buffer and its length.
    pub fn img_strides(&self) -> ([usize; 3], usize) {
        let (c, h, w) = (self.c, self.h, self.w);
        let st = match self.img_lay {
            0 => [h * w, w, 1],
            1 => [1, w * c, c],
            _ => [h * (w + 3), w + 3, 1],
        };
        let len = (c - 1) * st[0] + (h - 1) * st[1] + (w - 1) * st[2] + 1;
        (st, len)
    }

    /// Offset in the image buffer of virtual-matrix element (row, col), or
    /// None for the zero padding region.
    pub fn source(&self, row: usize, col: usize) -> Option<usize> {
        let (_, ow) = self.out_hw();
        let (st, _) = self.img_strides();
        let ch = row / (self.kh * self.kw);
        let ky = (row / self.kw) % self.kh;
        let kx = row % self.kw;
        let py = col / ow;
        let px = col % ow;
        let y = (py * self.sh + ky * self.dy) as isize - self.pt as isize;
        let x = (px * self.sw + kx * self.dx) as isize - self.pl as isize;
        if y < 0 || x < 0 || y >= self.h as isize || x >= self.w as isize {
            return None;
        }
        Some(ch * st[0] + y as usize * st[1] + x as usize * st[2])
    }

    pub fn to_json(&self) -> Json {
        json!([self.c, self.h, self.w, self.kh, self.kw, self.sh, self.sw, self.pt, self.pl, self.pb, self.pr, self.dy, self.dx, self.img_lay])
    }

    pub fn from_json(j: &Json) -> Option<Conv> {
        let a = j.as_array()?;
        if a.len() < 14 {
            return None;
        }
        let g = |i: usize| a[i].as_u64().unwrap_or(1) as usize;
        Some(Conv { c: g(0), h: g(1), w: g(2), kh: g(3), kw: g(4), sh: g(5), sw: g(6), pt: g(7), pl: g(8), pb: g(9), pr: g(10), dy: g(11), dx: g(12), img_lay: g(13) as u8 })
    }

    /// Build rten's `Im2Col` over `image` (a buffer of `img_strides().1`
    /// elements). Offset arrays are padded to the kernel's step sizes the way
    /// rten-gemm's own tests do (offsets that can never be valid).
    pub fn build<'a, T>(&self, image: &'a [T], col_step: usize, row_step: usize) -> Im2Col<'a, T> {
        let (st, len) = self.img_strides();
        assert_eq!(image.len(), len);
        let view = NdTensorView::from_slice_with_strides([self.c, self.h, self.w], image, st).expect("image view");
        let (oh, ow) = self.out_hw();
        let n_rows = self.k();
        let n_cols = oh * ow;
        let mut chan = Vec::new();
        let mut ry = Vec::new();
        let mut rx = Vec::new();
        for ch in 0..self.c {
            for ky in 0..self.kh {
                for kx in 0..self.kw {
                    chan.push((ch * st[0]) as i32);
                    ry.push((ky * self.dy * st[1]) as i32);
                    rx.push((kx * self.dx * st[2]) as i32);
                }
            }
        }
        for _ in n_rows..n_rows.next_multiple_of(row_step.max(1)) {
            chan.push(i32::MAX);
            ry.push(i32::MAX);
            rx.push(i32::MAX);
        }
        let mut cy = Vec::new();
        let mut cx = Vec::new();
        for py in 0..oh {
            for px in 0..ow {
                cy.push(((py * self.sh) as i32 - self.pt as i32) * st[1] as i32);
                cx.push(((px * self.sw) as i32 - self.pl as i32) * st[2] as i32);
            }
        }
        for _ in n_cols..n_cols.next_multiple_of(col_step.max(1)) {
            cy.push(i32::MAX);
            cx.push(i32::MAX);
        }
        Im2Col {
            image: view,
            row_offsets: RowOffsets { chan, y: ry, x: rx },
            col_offsets: ColOffsets { y: cy, x: cx },
            n_cols,
            n_rows,
            max_y_offset: ((self.h - 1) * st[1]) as i32,
            max_x_offset: ((self.w - 1) * st[2]) as i32,
        }
    }
}

// ------------------------------------------------------------------ two-phase driver

/// One sub-command of gemmcheck: a deterministic case generator, an executor
/// with an oracle, and reporting hooks.
pub trait Engine {
    type Case;
    /// Case number `idx` of the guard-page phase / of the in-process phase.
    fn gen_case(&self, idx: u64, guard_phase: bool) -> Self::Case;
    fn exec(&self, case: &Self::Case, guard: Option<GuardPos>) -> Outcome;
    fn record(&self, rep: &mut Report, case: &Self::Case, o: &Outcome, guarded: bool);
    /// Shrink and report a failing case. `shared` is Some while forking is
    /// still allowed (guard phase): re-executions must then go through
    /// [`exec_in_child`]; otherwise they run in-process without guard pages.
    fn report_failure(&self, rep: &mut Report, case: &Self::Case, guard: Option<GuardPos>, o: &Outcome, shared: Option<&Shared>);
    fn sample(&self, _case: &Self::Case, _o: &Outcome) -> Option<Json> {
        None
    }
    /// Coarse class of a failure, used to bound the number of (expensive)
    /// shrinks: at most two failures per class are shrunk and reported.
    fn coarse_class(&self, case: &Self::Case, kind: &str) -> String;
    /// Class of a case for fault bookkeeping: once two cases of a class have
    /// faulted, the remaining guard-phase cases of that class are skipped.
    fn fault_class(&self, case: &Self::Case) -> String;
}

/// Bounds the work spent on failures: when a tree is badly broken, thousands
/// of cases fail and shrinking each of them would take hours.
pub struct FailBudget {
    per_class: std::collections::HashMap<String, u32>,
    total: u32,
}

impl FailBudget {
    pub fn new() -> FailBudget {
        FailBudget { per_class: Default::default(), total: 0 }
    }

    /// True if this failure should be shrunk and reported.
    pub fn admit(&mut self, rep: &mut Report, class: String) -> bool {
        let n = self.per_class.entry(class).or_insert(0);
        if *n >= 2 || self.total >= 24 {
            rep.count("failures_not_shrunk_(same_class_already_reported)");
            rep.suppressed_violations += 1;
            return false;
        }
        *n += 1;
        self.total += 1;
        true
    }
}

pub fn guard_pos_for(idx: u64) -> GuardPos {
    if Rng::derive(idx, 0x6a6a).bool() { GuardPos::After } else { GuardPos::Before }
}

/// Execute one case in a forked child; a fatal signal becomes a `fault:*` failure.
pub fn exec_in_child<E: Engine>(e: &E, shared: &Shared, case: &E::Case, guard: Option<GuardPos>) -> Outcome {
    match shared.run(|_p| e.exec(case, guard).to_json()) {
        ChildResult::Done(j) => Outcome::from_json(&j),
        ChildResult::Signal { sig, .. } => Outcome::fail(&format!("fault:{}", signal_name(sig)), json!({"signal": sig})),
        ChildResult::Broken { code, .. } => Outcome::no_result(format!("child_exit_{}", code)),
    }
}

/// Phase 1: `n_guard` cases in forked children with guard pages (must run
/// before this process creates rayon threads). Phase 2: `n_plain` cases
/// in-process.
pub fn drive<E: Engine>(e: &E, rep: &mut Report, n_guard: u64, n_plain: u64) {
    let mut budget = FailBudget::new();
    if n_guard > 0 && !is_miri() {
        let shared = Shared::new();
        let cases: Vec<(E::Case, GuardPos)> = (0..n_guard).map(|i| (e.gen_case(i, true), guard_pos_for(i))).collect();
        let batch = 250usize;
        let mut next = 0usize;
        let mut faults = 0u32;
        let mut fault_classes: std::collections::HashMap<String, u32> = Default::default();
        let handle = |rep: &mut Report, budget: &mut FailBudget, case: &E::Case, pos: GuardPos, o: &Outcome| {
            e.record(rep, case, o, true);
            if let Some(kind) = o.fail_kind() {
                if budget.admit(rep, e.coarse_class(case, kind)) {
                    e.report_failure(rep, case, Some(pos), o, Some(&shared));
                }
            }
        };
        let run_batch = |idxs: &[usize]| {
            shared.run(|progress| {
                let mut outs = Vec::with_capacity(idxs.len());
                for (pos_in_batch, &i) in idxs.iter().enumerate() {
                    progress.store(pos_in_batch as u64, Ordering::SeqCst);
                    let (case, pos) = &cases[i];
                    outs.push(e.exec(case, Some(*pos)).to_json());
                }
                json!(outs)
            })
        };
        while next < cases.len() && faults < 12 {
            // Next batch, leaving out classes that already faulted twice.
            let mut idxs = Vec::with_capacity(batch);
            let mut end = next;
            while end < cases.len() && idxs.len() < batch {
                if fault_classes.get(&e.fault_class(&cases[end].0)).copied().unwrap_or(0) >= 2 {
                    rep.count("guard_cases_skipped_(class_faulted_twice)");
                } else {
                    idxs.push(end);
                }
                end += 1;
            }
            if idxs.is_empty() {
                next = end;
                continue;
            }
            match run_batch(&idxs) {
                ChildResult::Done(j) => {
                    for (k, oj) in j.as_array().cloned().unwrap_or_default().iter().enumerate() {
                        let (case, pos) = &cases[idxs[k]];
                        handle(rep, &mut budget, case, *pos, &Outcome::from_json(oj));
                    }
                    next = end;
                }
                ChildResult::Signal { sig, progress } => {
                    faults += 1;
                    rep.count("faults_seen");
                    let at = progress as usize;
                    if at >= idxs.len() {
                        rep.inconclusive = Some(format!("guard-phase child died with {} outside a case", signal_name(sig)));
                        break;
                    }
                    if at > 0 {
                        // The cases before the faulting one: re-run on their own.
                        if let ChildResult::Done(j) = run_batch(&idxs[..at]) {
                            for (k, oj) in j.as_array().cloned().unwrap_or_default().iter().enumerate() {
                                let (case, pos) = &cases[idxs[k]];
                                handle(rep, &mut budget, case, *pos, &Outcome::from_json(oj));
                            }
                        } else {
                            rep.count("guard_batch_rerun_unstable");
                        }
                    }
                    // Confirm the fault on the single case before reporting it.
                    let (case, pos) = &cases[idxs[at]];
                    *fault_classes.entry(e.fault_class(case)).or_insert(0) += 1;
                    let o = exec_in_child(e, &shared, case, Some(*pos));
                    if o.fail_kind().map(|k| k.starts_with("fault")).unwrap_or(false) {
                        rep.count("faults_confirmed");
                    } else {
                        rep.count("faults_not_reproduced_alone");
                    }
                    handle(rep, &mut budget, case, *pos, &o);
                    next = idxs[at] + 1;
                }
                ChildResult::Broken { code, .. } => {
                    rep.inconclusive = Some(format!("guard-phase child exited with code {}", code));
                    break;
                }
            }
        }
        if faults >= 12 {
            rep.count("guard_phase_stopped_after_12_faults");
        }
    }
    rep.add("faults_seen", 0);
    rep.add("guard_page_cases", 0);

    for i in 0..n_plain {
        let case = e.gen_case(i, false);
        let o = e.exec(&case, None);
        e.record(rep, &case, &o, false);
        if let Some(kind) = o.fail_kind() {
            if budget.admit(rep, e.coarse_class(&case, kind)) {
                e.report_failure(rep, &case, None, &o, None);
            }
        } else if rep.wants_sample() && i % 97 == 3 {
            if let Some(s) = e.sample(&case, &o) {
                rep.sample(|| s);
            }
        }
    }
}
