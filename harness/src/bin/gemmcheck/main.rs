//! gemmcheck: runtime monitors for rten-gemm (C16 C17 C37).
//!
//!   gemmcheck f32   C16  every f32 kernel vs f64 reference, poisoned outputs, guard pages
//!   gemmcheck int8  C17  every u8 x i8 -> i32 kernel vs exact integers; quantize round trip
//!   gemmcheck bq    C37  block-quantized matmul vs dequantize-then-multiply in f64
use vcommon::*;

mod bq;
mod common;
mod f32;
mod int8;

fn main() {
    run_main(real_main)
}

fn real_main() {
    let args = Args::parse();
    match args.cmd.as_str() {
        "f32" => f32::run(&args),
        "int8" => int8::run(&args),
        "bq" => bq::run(&args),
        "noop" => {}
        other => {
            eprintln!("unknown sub-command {:?}", other);
            std::process::exit(3);
        }
    }
    if cfg!(miri) {
        // rayon deliberately leaks the worker state of a pool built with
        // `use_current_thread` (see common::with_threads); leaving through
        // `exit` makes Miri skip its end-of-program leak check, which would
        // otherwise report that allocation of crossbeam-epoch's.
        std::process::exit(0);
    }
}
