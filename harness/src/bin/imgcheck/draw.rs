//! C36 (second half): drawing / filling primitives only change pixels inside
//! the image and inside the shape's bounds. The image buffer sits flush
//! against a PROT_NONE page; cases are first screened in a forked child (a
//! fault is observed as a signal), then re-run with a before/after diff.
use rten_imageproc::{Line, Painter, Point, Polygon, Rect, RotatedRect, Vec2, draw_line, draw_polygon, fill_rect, stroke_rect};
use rten_tensor::NdTensorViewMut;
use vcommon::guard::{GuardPos, Guarded, in_child};
use vcommon::*;

/// (y, x)
type Pt = (i32, i32);

#[derive(Clone, Debug, PartialEq, Eq, Hash)]
pub enum Op {
    FillRect { t: i32, l: i32, b: i32, r: i32 },
    StrokeRect { t: i32, l: i32, b: i32, r: i32, width: u32 },
    Line { y0: i32, x0: i32, y1: i32, x1: i32, width: u32 },
    Polygon { pts: Vec<Pt>, width: u32 },
    Painter { pts: Vec<Pt>, width: u32, channels: usize },
    FillIter { pts: Vec<Pt> },
}

#[derive(Clone, Copy, Debug, PartialEq, Eq, Hash)]
pub enum Lay {
    Contiguous,
    Window,
    Transposed,
}

#[derive(Clone, Debug, PartialEq, Eq, Hash)]
pub struct Case {
    pub op: Op,
    pub h: usize,
    pub w: usize,
    pub lay: Lay,
    pub wide_elem: bool,
}

fn fmt_pts(pts: &[Pt]) -> String {
    pts.iter().map(|p| format!("{},{}", p.0, p.1)).collect::<Vec<_>>().join(";")
}

fn parse_pts(s: &str) -> Vec<Pt> {
    s.split(';')
        .filter(|t| !t.is_empty())
        .map(|t| {
            let (y, x) = t.split_once(',').unwrap();
            (y.parse().unwrap(), x.parse().unwrap())
        })
        .collect()
}

impl Op {
    pub fn name(&self) -> &'static str {
        match self {
            Op::FillRect { .. } => "fill_rect",
            Op::StrokeRect { .. } => "stroke_rect",
            Op::Line { .. } => "draw_line",
            Op::Polygon { .. } => "draw_polygon",
            Op::Painter { .. } => "Painter::draw_polygon",
            Op::FillIter { .. } => "Polygon::fill_iter",
        }
    }

    /// Canonical text form (coordinates are y,x / t,l,b,r as in the rten API).
    pub fn text(&self) -> String {
        match self {
            Op::FillRect { t, l, b, r } => format!("fill_rect:tlbr={},{},{},{}", t, l, b, r),
            Op::StrokeRect { t, l, b, r, width } => format!("stroke_rect:tlbr={},{},{},{}:width={}", t, l, b, r, width),
            Op::Line { y0, x0, y1, x1, width } => format!("draw_line:yx={},{};{},{}:width={}", y0, x0, y1, x1, width),
            Op::Polygon { pts, width } => format!("draw_polygon:yx={}:width={}", fmt_pts(pts), width),
            Op::Painter { pts, width, channels } => format!("painter_polygon:yx={}:width={}:channels={}", fmt_pts(pts), width, channels),
            Op::FillIter { pts } => format!("fill_iter:yx={}", fmt_pts(pts)),
        }
    }

    pub fn parse(s: &str) -> Op {
        let parts: Vec<&str> = s.split(':').collect();
        let val = |i: usize| parts[i].split_once('=').unwrap().1;
        let four = |i: usize| -> Vec<i32> { val(i).split(',').map(|v| v.parse().unwrap()).collect() };
        match parts[0] {
            "fill_rect" => {
                let v = four(1);
                Op::FillRect { t: v[0], l: v[1], b: v[2], r: v[3] }
            }
            "stroke_rect" => {
                let v = four(1);
                Op::StrokeRect { t: v[0], l: v[1], b: v[2], r: v[3], width: val(2).parse().unwrap() }
            }
            "draw_line" => {
                let p = parse_pts(val(1));
                Op::Line { y0: p[0].0, x0: p[0].1, y1: p[1].0, x1: p[1].1, width: val(2).parse().unwrap() }
            }
            "draw_polygon" => Op::Polygon { pts: parse_pts(val(1)), width: val(2).parse().unwrap() },
            "painter_polygon" => Op::Painter { pts: parse_pts(val(1)), width: val(2).parse().unwrap(), channels: val(3).parse().unwrap() },
            "fill_iter" => Op::FillIter { pts: parse_pts(val(1)) },
            other => panic!("unknown op {:?}", other),
        }
    }

    fn coords(&self) -> Vec<i32> {
        match self {
            Op::FillRect { t, l, b, r } | Op::StrokeRect { t, l, b, r, .. } => vec![*t, *l, *b, *r],
            Op::Line { y0, x0, y1, x1, .. } => vec![*y0, *x0, *y1, *x1],
            Op::Polygon { pts, .. } | Op::Painter { pts, .. } | Op::FillIter { pts } => pts.iter().flat_map(|p| [p.0, p.1]).collect(),
        }
    }

    fn with_coords(&self, c: &[i32]) -> Op {
        let pts = |c: &[i32]| -> Vec<Pt> { c.chunks(2).map(|p| (p[0], p[1])).collect() };
        match self {
            Op::FillRect { .. } => Op::FillRect { t: c[0], l: c[1], b: c[2], r: c[3] },
            Op::StrokeRect { width, .. } => Op::StrokeRect { t: c[0], l: c[1], b: c[2], r: c[3], width: *width },
            Op::Line { width, .. } => Op::Line { y0: c[0], x0: c[1], y1: c[2], x1: c[3], width: *width },
            Op::Polygon { width, .. } => Op::Polygon { pts: pts(c), width: *width },
            Op::Painter { width, channels, .. } => Op::Painter { pts: pts(c), width: *width, channels: *channels },
            Op::FillIter { .. } => Op::FillIter { pts: pts(c) },
        }
    }

    fn width(&self) -> Option<u32> {
        match self {
            Op::StrokeRect { width, .. } | Op::Line { width, .. } | Op::Polygon { width, .. } | Op::Painter { width, .. } => Some(*width),
            _ => None,
        }
    }

    fn with_width(&self, nw: u32) -> Op {
        let mut o = self.clone();
        match &mut o {
            Op::StrokeRect { width, .. } | Op::Line { width, .. } | Op::Polygon { width, .. } | Op::Painter { width, .. } => *width = nw,
            _ => {}
        }
        o
    }

    /// Inclusive bounds (y_lo, y_hi, x_lo, x_hi) of the shape including its
    /// stroke, in exact i64 arithmetic. None = the shape is empty.
    ///
    /// fill_rect: the half-open rect itself. stroke_rect: the rect with its
    /// sides ordered, grown by the stroke width on each side (the lenient
    /// reading; the strict "inside rect" reading is only counted). Lines and
    /// polygons: bounding box of the vertices (vertices are pixel centres, so
    /// inclusive), grown by the stroke width when it is > 1.
    pub fn bounds(&self) -> Option<(i64, i64, i64, i64)> {
        match self {
            Op::FillRect { t, l, b, r } => {
                if b <= t || r <= l {
                    None
                } else {
                    Some((*t as i64, *b as i64 - 1, *l as i64, *r as i64 - 1))
                }
            }
            Op::StrokeRect { t, l, b, r, width } => {
                let e = *width as i64;
                if e == 0 {
                    return None;
                }
                let (y0, y1) = ((*t).min(*b) as i64, (*t).max(*b) as i64);
                let (x0, x1) = ((*l).min(*r) as i64, (*l).max(*r) as i64);
                Some((y0 - e, y1 - 1 + e, x0 - e, x1 - 1 + e))
            }
            _ => {
                let c = self.coords();
                if c.is_empty() {
                    return None;
                }
                let width = self.width().unwrap_or(1) as i64;
                if width == 0 {
                    return None;
                }
                let e = if width <= 1 { 0 } else { width };
                let ys = c.iter().step_by(2).map(|v| *v as i64);
                let xs = c.iter().skip(1).step_by(2).map(|v| *v as i64);
                Some((ys.clone().min().unwrap() - e, ys.max().unwrap() + e, xs.clone().min().unwrap() - e, xs.max().unwrap() + e))
            }
        }
    }

    /// Coordinates for which no intermediate i32 computation in the library
    /// (differences, +- stroke width) can overflow.
    fn extreme(&self) -> bool {
        self.coords().iter().any(|c| (*c as i64).abs() > (1 << 30) - 8)
    }

    /// Rough upper bound on the work the library does for this op.
    fn cost(&self, h: usize, w: usize) -> f64 {
        let img = ((h + 1) * (w + 1)) as f64;
        let rect_cost = |t: i32, l: i32, b: i32, r: i32| -> f64 {
            let rows = (b as i64 - t as i64).max(0) as f64;
            let cols = (r as i64 - l as i64).max(0);
            if cols == 0 { rows } else { img }
        };
        let line_cost = |y0: i32, x0: i32, y1: i32, x1: i32, width: u32| -> f64 {
            if width <= 1 {
                (h + w + 2) as f64
            } else {
                // The polygon draw_line fills for a wide line, computed with
                // the library's own public geometry exactly as drawing.rs does.
                let c = wide_line_corners(y0, x0, y1, x1, width);
                let (ys, xs) = (c.map(|p| p.0 as i64), c.map(|p| p.1 as i64));
                let (dy, dx) = (ys.iter().max().unwrap() - ys.iter().min().unwrap(), xs.iter().max().unwrap() - xs.iter().min().unwrap());
                if dx == 0 && dy > 0 {
                    // zero-width polygon: FillIter needs 2^32 steps per row
                    // (e.g. the vertical line (42,0)-(1,0) with width 2, whose
                    // normalised direction is 0.99999994 so both sides
                    // truncate to x=0: minutes of CPU, nothing drawn).
                    f64::INFINITY
                } else {
                    (dy + 1) as f64 * (dx + 1) as f64
                }
            }
        };
        match self {
            Op::FillRect { t, l, b, r } => rect_cost(*t, *l, *b, *r),
            Op::StrokeRect { t, l, b, r, width } => {
                let wd = *width as i32;
                // the four sub-rects as the library computes them (wrapping)
                rect_cost(*t, *l, *b, l.wrapping_add(wd))
                    + rect_cost(*t, l.wrapping_add(wd), t.wrapping_add(wd), r.wrapping_sub(wd))
                    + rect_cost(*t, r.wrapping_sub(wd), *b, *r)
                    + rect_cost(b.wrapping_sub(wd), l.wrapping_add(wd), *b, r.wrapping_sub(wd))
            }
            Op::Line { y0, x0, y1, x1, width } => line_cost(*y0, *x0, *y1, *x1, *width),
            Op::Polygon { pts, width } | Op::Painter { pts, width, .. } => {
                let mut c = 0.0;
                for i in 0..pts.len() {
                    let (a, b) = (pts[i], pts[(i + 1) % pts.len()]);
                    c += line_cost(a.0, a.1, b.0, b.1, *width);
                }
                c * 3.0
            }
            Op::FillIter { .. } => match self.bounds() {
                // A polygon of zero width but non-zero height makes FillIter
                // start its cursor at `bounds.right()`, so `cursor.x ==
                // bounds.right()` is only reached again after the i32 X
                // coordinate wraps: 2^32 steps per row (observed: ~12 s for a
                // 3-pixel vertical segment). Not a C36 question; never run.
                Some((y0, y1, x0, x1)) if x0 == x1 && y1 > y0 => f64::INFINITY,
                Some((y0, y1, x0, x1)) => (y1 - y0 + 1) as f64 * (x1 - x0 + 1) as f64,
                None => 1.0,
            },
        }
    }
}

/// Corners (y, x) of the polygon that `draw_line` fills for `width > 1`
/// (mirrors rten-imageproc/src/drawing.rs, using the same public functions).
fn wide_line_corners(y0: i32, x0: i32, y1: i32, x1: i32, width: u32) -> [Pt; 4] {
    let line = Line::from_endpoints(Point::from_yx(y0, x0), Point::from_yx(y1, x1)).to_f32();
    let line_vec = Vec2::from_xy(line.width(), line.height());
    let rrect = RotatedRect::new(line.center(), line_vec.perpendicular(), line_vec.length(), width as f32);
    rrect.corners().map(|c| (c.y as i32, c.x as i32))
}

// ------------------------------------------------------------ execution

/// Elements per guarded arena. The image buffer is the LAST `len` elements of
/// the arena whose guard page is after the data, and the FIRST `len` elements
/// of the arena whose guard page is before it, so it is always flush against
/// the PROT_NONE page; the rest of the arena is slack that must stay untouched.
const ARENA: usize = 4096;

trait Px: Copy + PartialEq + Default + 'static {
    fn from_u8(v: u8) -> Self;
    /// Run `f` with this thread's arena for the given guard position
    /// (allocated once: mmap/mprotect per case dominated the run time).
    fn with_arena<R>(pos: GuardPos, f: impl FnOnce(&mut Guarded<Self>) -> R) -> R;
}

macro_rules! impl_px {
    ($t:ty, $name:ident, $conv:expr) => {
        thread_local! {
            static $name: std::cell::RefCell<Option<(Guarded<$t>, Guarded<$t>)>> = const { std::cell::RefCell::new(None) };
        }
        impl Px for $t {
            fn from_u8(v: u8) -> $t {
                $conv(v)
            }
            fn with_arena<R>(pos: GuardPos, f: impl FnOnce(&mut Guarded<$t>) -> R) -> R {
                $name.with(|cell| {
                    let mut b = cell.borrow_mut();
                    let pair = b.get_or_insert_with(|| {
                        let init = <$t as Px>::from_u8(7);
                        (Guarded::new(ARENA, init, GuardPos::After), Guarded::new(ARENA, init, GuardPos::Before))
                    });
                    f(if pos == GuardPos::After { &mut pair.0 } else { &mut pair.1 })
                })
            }
        }
    };
}
impl_px!(u8, ARENA_U8, |v: u8| v);
impl_px!(u32, ARENA_U32, |v: u8| 0x0101_0101u32 * v as u32);

struct Geometry {
    planes: usize,
    buf_len: usize,
    offset: usize,
    strides: [usize; 3],
}

const PAD_ROWS: usize = 1;
const PAD_COLS: usize = 2;

fn geometry(c: &Case) -> Geometry {
    let planes = match &c.op {
        Op::Painter { channels, .. } => *channels,
        _ => 1,
    };
    let (h, w) = (c.h, c.w);
    match c.lay {
        Lay::Contiguous => Geometry { planes, buf_len: planes * h * w, offset: 0, strides: [h * w, w, 1] },
        Lay::Window => {
            let (bh, bw) = (h + 2 * PAD_ROWS, w + 2 * PAD_COLS - 1);
            Geometry { planes, buf_len: planes * bh * bw, offset: PAD_ROWS * bw + PAD_COLS, strides: [bh * bw, bw, 1] }
        }
        Lay::Transposed => Geometry { planes, buf_len: planes * h * w, offset: 0, strides: [h * w, 1, h] },
    }
}

/// Map a buffer index to (plane, y, x) of the image, or None if the element
/// is not part of the image view (window padding).
fn locate(c: &Case, g: &Geometry, i: usize) -> Option<(usize, i64, i64)> {
    let (h, w) = (c.h, c.w);
    match c.lay {
        Lay::Contiguous => Some((i / (h * w), ((i % (h * w)) / w) as i64, (i % w) as i64)),
        Lay::Transposed => Some((i / (h * w), (i % h) as i64, ((i % (h * w)) / h) as i64)),
        Lay::Window => {
            let (bh, bw) = (h + 2 * PAD_ROWS, w + 2 * PAD_COLS - 1);
            let _ = g;
            let plane = i / (bh * bw);
            let (r, col) = ((i % (bh * bw)) / bw, i % bw);
            if r >= PAD_ROWS && r < PAD_ROWS + h && col >= PAD_COLS && col < PAD_COLS + w { Some((plane, (r - PAD_ROWS) as i64, (col - PAD_COLS) as i64)) } else { None }
        }
    }
}

#[derive(Default, Debug)]
pub struct Exec {
    pub panic: Option<String>,
    /// (plane, y, x) of image pixels whose value changed
    pub changed: Vec<(usize, i64, i64)>,
    /// buffer elements outside the image view whose value changed
    pub outside_view: Vec<usize>,
    /// fill_iter only: yielded points outside the polygon's bounding box
    pub yielded_outside: Vec<Pt>,
    pub yielded: usize,
}

fn pt(p: &Pt) -> Point {
    Point::from_yx(p.0, p.1)
}

fn exec_t<T: Px>(c: &Case, pos: GuardPos) -> Exec {
    let g = geometry(c);
    assert!(g.buf_len <= ARENA, "harness: arena too small");
    T::with_arena(pos, |arena| exec_in(c, pos, &g, arena))
}

fn exec_in<T: Px>(c: &Case, pos: GuardPos, g: &Geometry, arena: &mut Guarded<T>) -> Exec {
    let init = T::from_u8(7);
    let start = if pos == GuardPos::After { ARENA - g.buf_len } else { 0 };
    let mut ex = Exec::default();
    let mut yielded_outside = Vec::new();
    let mut yielded = 0usize;
    {
        let data: &mut [T] = &mut arena.as_mut_slice()[start..start + g.buf_len][g.offset.min(g.buf_len)..];
        let r = catch(|| {
            let mut v3 = NdTensorViewMut::<T, 3>::from_data_with_strides([g.planes, c.h, c.w], data, g.strides).expect("harness: view construction");
            let val = T::from_u8(200);
            match &c.op {
                Op::FillRect { t, l, b, r } => fill_rect(v3.slice_mut([0]), Rect::from_tlbr(*t, *l, *b, *r), val),
                Op::StrokeRect { t, l, b, r, width } => stroke_rect(v3.slice_mut([0]), Rect::from_tlbr(*t, *l, *b, *r), val, *width),
                Op::Line { y0, x0, y1, x1, width } => draw_line(v3.slice_mut([0]), Line::from_endpoints(Point::from_yx(*y0, *x0), Point::from_yx(*y1, *x1)), val, *width),
                Op::Polygon { pts, width } => {
                    let p: Vec<Point> = pts.iter().map(pt).collect();
                    draw_polygon(v3.slice_mut([0]), &p, val, *width)
                }
                Op::Painter { pts, width, .. } => {
                    let p: Vec<Point> = pts.iter().map(pt).collect();
                    let mut painter = Painter::new(v3);
                    painter.set_stroke([T::from_u8(200), T::from_u8(201), T::from_u8(202)]);
                    painter.set_stroke_width(*width);
                    painter.draw_polygon(&p);
                }
                Op::FillIter { pts } => {
                    let p: Vec<Point> = pts.iter().map(pt).collect();
                    let bounds = c.op.bounds();
                    let mut img = v3.slice_mut([0]);
                    for q in Polygon::new(&p[..]).fill_iter() {
                        yielded += 1;
                        let inside = match bounds {
                            Some((y0, y1, x0, x1)) => (q.y as i64) >= y0 && (q.y as i64) <= y1 && (q.x as i64) >= x0 && (q.x as i64) <= x1,
                            None => false,
                        };
                        if !inside && yielded_outside.len() < 8 {
                            yielded_outside.push((q.y, q.x));
                        }
                        if q.y >= 0 && q.x >= 0 {
                            if let Some(px) = img.get_mut([q.y as usize, q.x as usize]) {
                                *px = val;
                            }
                        }
                    }
                }
            }
        });
        ex.panic = r.err();
    }
    ex.yielded_outside = yielded_outside;
    ex.yielded = yielded;
    for (i, v) in arena.as_mut_slice().iter_mut().enumerate() {
        if *v != init {
            *v = init;
            if i >= start && i < start + g.buf_len {
                match locate(c, g, i - start) {
                    Some(p) => ex.changed.push(p),
                    None => ex.outside_view.push(i - start),
                }
            } else {
                // arena slack outside the image buffer
                ex.outside_view.push(usize::MAX - i);
            }
        }
    }
    ex
}

pub fn exec(c: &Case, pos: GuardPos) -> Exec {
    static TRACE: std::sync::OnceLock<bool> = std::sync::OnceLock::new();
    if *TRACE.get_or_init(|| std::env::var_os("IMGCHECK_TRACE").is_some()) {
        eprintln!("exec {} img={}x{} {:?} wide={} cost={}", c.op.text(), c.h, c.w, c.lay, c.wide_elem, c.op.cost(c.h, c.w));
    }
    if c.wide_elem { exec_t::<u32>(c, pos) } else { exec_t::<u8>(c, pos) }
}

#[derive(Debug, Clone)]
pub struct Fail {
    pub kind: &'static str,
    pub detail: String,
}

/// Decide one execution. `strict` out-params are counters only.
fn judge(c: &Case, ex: &Exec) -> Option<Fail> {
    if !ex.outside_view.is_empty() {
        return Some(Fail {
            kind: "write_outside_image",
            detail: format!("{} buffer element(s) outside the {}x{} image view were modified (first buffer index {})", ex.outside_view.len(), c.h, c.w, ex.outside_view[0]),
        });
    }
    if let Op::FillIter { .. } = c.op {
        if let Some(p) = ex.yielded_outside.first() {
            return Some(Fail { kind: "fill_point_outside_shape_bounds", detail: format!("fill_iter yielded (y,x)=({},{}) outside the polygon's bounding box {:?}", p.0, p.1, c.op.bounds()) });
        }
    }
    let b = c.op.bounds();
    for &(plane, y, x) in &ex.changed {
        let inside = match b {
            Some((y0, y1, x0, x1)) => y >= y0 && y <= y1 && x >= x0 && x <= x1,
            None => false,
        };
        if !inside {
            return Some(Fail {
                kind: "write_outside_shape_bounds",
                detail: format!(
                    "pixel (y,x)=({},{}){} of the {}x{} image was modified but the shape's bounds (incl. stroke) are {}",
                    y,
                    x,
                    if plane > 0 { format!(" in channel {}", plane) } else { String::new() },
                    c.h,
                    c.w,
                    match b {
                        Some((y0, y1, x0, x1)) => format!("y in {}..={}, x in {}..={}", y0, y1, x0, x1),
                        None => "empty".to_string(),
                    }
                ),
            });
        }
    }
    None
}

#[derive(Clone, Copy, PartialEq, Debug)]
enum Verdict {
    Clean,
    Fault(i32),
    Fail(&'static str),
}

const KINDS: [&str; 3] = ["write_outside_image", "fill_point_outside_shape_bounds", "write_outside_shape_bounds"];

/// Full verdict of one case, computed in a forked child (both guard positions).
fn verdict_in_child(c: &Case) -> Verdict {
    let r = in_child(|| {
        for pos in [GuardPos::After, GuardPos::Before] {
            let ex = exec(c, pos);
            if let Some(f) = judge(c, &ex) {
                return 10 + KINDS.iter().position(|k| *k == f.kind).unwrap() as i32;
            }
        }
        0
    });
    match r {
        Ok(0) => Verdict::Clean,
        Ok(code) if code >= 10 && (code as usize) < 10 + KINDS.len() => Verdict::Fail(KINDS[code as usize - 10]),
        Ok(_) => Verdict::Clean,
        Err(sig) => Verdict::Fault(sig),
    }
}

fn same_failure(a: Verdict, b: Verdict) -> bool {
    match (a, b) {
        (Verdict::Fault(_), Verdict::Fault(_)) => true,
        (Verdict::Fail(x), Verdict::Fail(y)) => x == y,
        _ => false,
    }
}

const MAX_COST: f64 = 3e5;

/// Index of the first candidate that fails the same way as `v`. For a
/// non-fault verdict all candidates are judged in ONE child (exit code =
/// index + 1); a fault verdict needs one child per candidate.
fn first_match(cands: &[Case], v: Verdict, forks: &mut i32) -> Option<usize> {
    let cands: Vec<&Case> = cands.iter().take(200).collect();
    if cands.is_empty() || *forks <= 0 {
        return None;
    }
    match v {
        Verdict::Fail(kind) => {
            *forks -= 1;
            let r = in_child(|| {
                for (i, c) in cands.iter().enumerate() {
                    for pos in [GuardPos::After, GuardPos::Before] {
                        if let Some(f) = judge(c, &exec(c, pos)) {
                            if f.kind == kind {
                                return i as i32 + 1;
                            }
                            break;
                        }
                    }
                }
                0
            });
            match r {
                Ok(code) if code >= 1 && (code as usize) <= cands.len() => Some(code as usize - 1),
                _ => None,
            }
        }
        Verdict::Fault(_) => {
            for (i, c) in cands.iter().enumerate() {
                if *forks <= 0 {
                    return None;
                }
                *forks -= 1;
                if same_failure(verdict_in_child(c), v) {
                    return Some(i);
                }
            }
            None
        }
        Verdict::Clean => None,
    }
}

fn shrink(mut c: Case, v: Verdict) -> Case {
    let extreme0 = c.op.extreme();
    let mut forks = 100;
    let ok = |cand: &Case| cand.op.cost(cand.h, cand.w) <= MAX_COST && (!cand.op.extreme() || extreme0);
    for _round in 0..3 {
        let before = c.clone();
        // element type, layout, stroke width, image size: repeat while any applies
        loop {
            let mut cands: Vec<Case> = Vec::new();
            if c.wide_elem {
                cands.push(Case { wide_elem: false, ..c.clone() });
            }
            if c.lay != Lay::Contiguous {
                cands.push(Case { lay: Lay::Contiguous, ..c.clone() });
            }
            if let Some(wd) = c.op.width() {
                for nw in [1u32, 2, wd.saturating_sub(1)] {
                    if nw < wd {
                        cands.push(Case { op: c.op.with_width(nw), ..c.clone() });
                    }
                }
            }
            if let Op::Painter { pts, width, channels: 4 } = &c.op {
                cands.push(Case { op: Op::Painter { pts: pts.clone(), width: *width, channels: 3 }, ..c.clone() });
            }
            for (nh, nw) in [(c.h / 2, c.w / 2), (c.h / 2, c.w), (c.h, c.w / 2), (c.h.saturating_sub(1), c.w), (c.h, c.w.saturating_sub(1))] {
                if (nh, nw) != (c.h, c.w) {
                    cands.push(Case { h: nh, w: nw, ..c.clone() });
                }
            }
            // polygon: drop one vertex
            if let Op::Polygon { pts, .. } | Op::Painter { pts, .. } | Op::FillIter { pts } = &c.op {
                for i in 0..pts.len() {
                    let mut p2 = pts.clone();
                    p2.remove(i);
                    let flat: Vec<i32> = p2.iter().flat_map(|p| [p.0, p.1]).collect();
                    cands.push(Case { op: c.op.with_coords(&flat), ..c.clone() });
                }
            }
            cands.retain(|x| ok(x));
            match first_match(&cands, v, &mut forks) {
                Some(i) => c = cands[i].clone(),
                None => break,
            }
        }
        // coordinates towards 0
        loop {
            let coords = c.op.coords();
            let mut cands: Vec<Case> = Vec::new();
            for i in 0..coords.len() {
                let cur = coords[i];
                for cand_v in [0, cur / 2, cur - cur.signum()] {
                    if cand_v != cur {
                        let mut cc = coords.clone();
                        cc[i] = cand_v;
                        cands.push(Case { op: c.op.with_coords(&cc), ..c.clone() });
                    }
                }
            }
            cands.retain(|x| ok(x));
            cands.dedup();
            match first_match(&cands, v, &mut forks) {
                Some(i) => c = cands[i].clone(),
                None => break,
            }
        }
        if c == before || forks <= 0 {
            break;
        }
    }
    c
}

fn lay_name(l: Lay) -> &'static str {
    match l {
        Lay::Contiguous => "contiguous",
        Lay::Window => "window",
        Lay::Transposed => "transposed",
    }
}

fn witness(c: &Case, origin: &str) -> Json {
    json!({"part": "draw", "op": c.op.text(), "h": c.h, "w": c.w, "layout": lay_name(c.lay), "elem": if c.wide_elem { "u32" } else { "u8" }, "origin": origin})
}

fn case_from_witness(w: &Json) -> Case {
    Case {
        op: Op::parse(w["op"].as_str().unwrap()),
        h: w["h"].as_u64().unwrap() as usize,
        w: w["w"].as_u64().unwrap() as usize,
        lay: match w["layout"].as_str().unwrap_or("contiguous") {
            "window" => Lay::Window,
            "transposed" => Lay::Transposed,
            _ => Lay::Contiguous,
        },
        wide_elem: w["elem"].as_str() == Some("u32"),
    }
}

/// What one case did, computed entirely inside a child process.
#[derive(Default, Debug, Clone)]
struct Obs {
    panic: Option<String>,
    changed: usize,
    yielded: usize,
    fail: Option<(String, String)>,
    stroke_outside_rect: bool,
    painter_extra_channel: bool,
}

fn observe_case(c: &Case) -> Obs {
    let mut o = Obs::default();
    for pos in [GuardPos::After, GuardPos::Before] {
        let ex = exec(c, pos);
        if pos == GuardPos::After {
            o.changed = ex.changed.len();
            o.yielded = ex.yielded;
            o.panic = ex.panic.as_ref().map(|m| panic_class(m));
            if let Op::StrokeRect { t, l, b, r, .. } = c.op {
                o.stroke_outside_rect = ex.changed.iter().any(|(_, y, x)| !(*y >= t as i64 && *y < b as i64 && *x >= l as i64 && *x < r as i64));
            }
            if let Op::Painter { .. } = c.op {
                o.painter_extra_channel = ex.changed.iter().any(|(p, _, _)| *p >= 3);
            }
        }
        if o.fail.is_none() {
            if let Some(f) = judge(c, &ex) {
                o.fail = Some((f.kind.to_string(), f.detail));
            }
        }
    }
    o
}

/// Fork; the child runs `f` for each case and streams one JSON line per case
/// through a pipe. Returns the observations received and, if the child was
/// killed, the signal: the case after the last received line is the one that
/// was executing. The library code under test never runs in this process.
fn observe_in_child(cases: &[&Case]) -> (Vec<Obs>, Option<i32>) {
    unsafe {
        let mut fds = [0i32; 2];
        assert_eq!(libc::pipe(fds.as_mut_ptr()), 0, "pipe failed");
        let pid = libc::fork();
        assert!(pid >= 0, "fork failed");
        if pid == 0 {
            libc::close(fds[0]);
            for c in cases {
                let o = observe_case(c);
                let line = format!(
                    "{}\n",
                    json!({"p": o.panic, "c": o.changed, "y": o.yielded, "f": o.fail.as_ref().map(|f| vec![f.0.clone(), f.1.clone()]), "s": o.stroke_outside_rect, "x": o.painter_extra_channel})
                );
                let b = line.as_bytes();
                let mut off = 0;
                while off < b.len() {
                    let n = libc::write(fds[1], b[off..].as_ptr() as *const _, b.len() - off);
                    if n <= 0 {
                        libc::_exit(9);
                    }
                    off += n as usize;
                }
            }
            libc::_exit(0);
        }
        libc::close(fds[1]);
        let mut data: Vec<u8> = Vec::new();
        let mut buf = [0u8; 65536];
        loop {
            let n = libc::read(fds[0], buf.as_mut_ptr() as *mut _, buf.len());
            if n > 0 {
                data.extend_from_slice(&buf[..n as usize]);
            } else if n == 0 {
                break;
            } else if *libc::__errno_location() != libc::EINTR {
                break;
            }
        }
        libc::close(fds[0]);
        let mut status = 0;
        loop {
            let r = libc::waitpid(pid, &mut status, 0);
            if r == pid || (r < 0 && *libc::__errno_location() != libc::EINTR) {
                break;
            }
        }
        let sig = if libc::WIFSIGNALED(status) {
            Some(libc::WTERMSIG(status))
        } else if libc::WIFEXITED(status) && libc::WEXITSTATUS(status) == 0 {
            None
        } else {
            Some(-1)
        };
        let mut out = Vec::new();
        for line in String::from_utf8_lossy(&data).lines() {
            let Ok(j) = serde_json::from_str::<Json>(line) else { break };
            out.push(Obs {
                panic: j["p"].as_str().map(|s| s.to_string()),
                changed: j["c"].as_u64().unwrap_or(0) as usize,
                yielded: j["y"].as_u64().unwrap_or(0) as usize,
                fail: j["f"].as_array().map(|a| (a[0].as_str().unwrap_or("").to_string(), a[1].as_str().unwrap_or("").to_string())),
                stroke_outside_rect: j["s"].as_bool().unwrap_or(false),
                painter_extra_channel: j["x"].as_bool().unwrap_or(false),
            });
        }
        (out, sig)
    }
}

fn kind_static(k: &str) -> Option<&'static str> {
    KINDS.iter().copied().find(|x| *x == k)
}

fn report(rep: &mut Report, c: &Case, v: Verdict, origin: &str, do_shrink: bool) {
    // Shrinking forks many children: keep a few witnesses per
    // (primitive, kind) and only count the rest.
    let vk = match v {
        Verdict::Fault(_) => "fault",
        Verdict::Fail(k) => k,
        Verdict::Clean => "clean",
    };
    rep.count(&format!("violating_cases:draw:{}:{}", c.op.name(), vk));
    let key = format!("reported:{}:{}", c.op.name(), vk);
    if do_shrink && *rep.counters.get(&key).unwrap_or(&0) >= 1 {
        rep.suppressed_violations += 1;
        return;
    }
    rep.count(&key);
    let sc = if do_shrink { shrink(c.clone(), v) } else { c.clone() };
    let (obs, sig) = observe_in_child(&[&sc]);
    let (kind, detail) = match (obs.first(), sig) {
        (Some(Obs { fail: Some((k, d)), .. }), None) => (k.clone(), d.clone()),
        (_, Some(sig)) => ("fault".to_string(), format!("the call died with signal {} (the image buffer lies against a PROT_NONE page: an access outside the buffer)", sig)),
        _ => {
            rep.count("harness:shrunk_case_unreproducible");
            return;
        }
    };
    rep.violation(
        format!("C36|draw|{}|{}|img={}x{}|layout={}|elem={}", kind, sc.op.text(), sc.h, sc.w, lay_name(sc.lay), if sc.wide_elem { "u32" } else { "u8" }),
        format!("{} on a {}x{} image ({}): {}", sc.op.text(), sc.h, sc.w, lay_name(sc.lay), detail),
        witness(&sc, origin),
    );
}

/// Record what a child observed for one case.
fn record(rep: &mut Report, c: &Case, o: &Obs, origin: &str, do_shrink: bool) {
    rep.eval();
    let name = c.op.name();
    rep.count(&format!("op:{}", name));
    rep.count(&format!("layout:{}", lay_name(c.lay)));
    rep.add("guard_page_executions", 2);
    let extreme = c.op.extreme();
    if extreme {
        rep.count("extreme_coordinate_cases(|c|>2^30, bounds only counted)");
    }
    // non-trivial: the shape's bounds intersect the image but are not inside it
    if let Some((y0, y1, x0, x1)) = c.op.bounds() {
        let (h, w) = (c.h as i64, c.w as i64);
        let intersects = y1 >= 0 && y0 < h && x1 >= 0 && x0 < w;
        let inside = y0 >= 0 && y1 < h && x0 >= 0 && x1 < w;
        if intersects && !inside && !extreme {
            rep.nontrivial(c);
            rep.count("shape_partly_outside_image");
        } else if !intersects {
            rep.count("shape_entirely_outside_image");
        } else {
            rep.count("shape_entirely_inside_image");
        }
    } else {
        rep.count("shape_empty(zero_or_negative_extent_or_width_0)");
    }
    rep.add("pixels_changed", o.changed as u64);
    if o.changed == 0 {
        rep.count("cases_changing_no_pixel");
    }
    if let Some(msg) = &o.panic {
        rep.count(&format!("no_result_panic:{}:{}", name, msg));
        if o.changed > 0 {
            rep.count("panicked_after_partial_drawing");
        }
    }
    rep.add("fill_iter_points_yielded", o.yielded as u64);
    if o.stroke_outside_rect {
        rep.count("observed:stroke_rect_drew_outside_rect_itself(within_stroke_width)");
    }
    if o.painter_extra_channel {
        rep.count("observed:painter_changed_channel_beyond_rgb");
    }
    if let Some((k, _)) = &o.fail {
        if extreme && k != "write_outside_image" {
            rep.count(&format!("extreme_coordinate_disagreement:{}:{}", name, k));
        } else if let Some(ks) = kind_static(k) {
            report(rep, c, Verdict::Fail(ks), origin, do_shrink);
        }
    }
    if rep.wants_sample() && rep.evaluations % 997 == 0 {
        rep.sample(|| json!({"op": c.op.text(), "image": format!("{}x{}", c.h, c.w), "layout": lay_name(c.lay), "pixels_changed": o.changed, "panicked": o.panic.is_some()}));
    }
}

/// Run cases in children, attributing a dead child to the case it was
/// executing, until every case has been observed or reported.
fn run_cases(rep: &mut Report, batch: &[(Case, String)], do_shrink: bool) {
    let mut next = 0;
    while next < batch.len() {
        let refs: Vec<&Case> = batch[next..].iter().map(|(c, _)| c).collect();
        let (obs, sig) = observe_in_child(&refs);
        rep.count("observation_children");
        for (i, o) in obs.iter().enumerate() {
            let (c, origin) = &batch[next + i];
            record(rep, c, o, origin, do_shrink);
        }
        next += obs.len();
        if let Some(sig) = sig {
            if next >= batch.len() {
                rep.count("harness:child_died_after_last_case");
                break;
            }
            // the child died while executing batch[next]: confirm alone
            let (c, origin) = &batch[next];
            match verdict_in_child(c) {
                Verdict::Fault(s2) => {
                    rep.eval();
                    rep.count(&format!("op:{}", c.op.name()));
                    report(rep, c, Verdict::Fault(s2), origin, do_shrink);
                }
                _ => {
                    rep.count(&format!("harness:child_death_not_reproduced(signal {})", sig));
                }
            }
            next += 1;
        }
    }
}

pub fn replay(rep: &mut Report, w: &Json) {
    let c = case_from_witness(w);
    if c.op.cost(c.h, c.w) > 50.0 * MAX_COST {
        rep.inconclusive = Some("replay: case too expensive".into());
        return;
    }
    run_cases(rep, &[(c, "replay".to_string())], false);
}

// ------------------------------------------------------------ generation

fn coord(rng: &mut Rng, dim: usize, allow_far: bool) -> i32 {
    let d = dim as i64;
    let v = match rng.below(if allow_far { 16 } else { 13 }) {
        0..=3 => rng.range(0, (d - 1).max(0)),
        4..=6 => *rng.choose(&[-1i64, 0, 1, d - 1, d, d + 1]),
        7..=9 => rng.range(-5, d + 5),
        10..=12 => rng.range(-60, d + 60),
        13 => {
            let m = 10i64.pow(rng.urange(3, 6) as u32);
            if rng.bool() { -rng.range(m / 10, m) } else { d + rng.range(m / 10, m) }
        }
        14 => *rng.choose(&[-(1i64 << 30) + 8, (1i64 << 30) - 8, -(1 << 24), 1 << 24, -65536, 65536]) + rng.range(-2, 2).clamp(-2, 2) * 0,
        _ => *rng.choose(&[i32::MIN as i64, i32::MIN as i64 + 1, i32::MAX as i64, i32::MAX as i64 - 1, i32::MAX as i64 - 5, i32::MIN as i64 + 5, -(1i64 << 30) - 9, (1i64 << 30) + 9]),
    };
    v.clamp(i32::MIN as i64, i32::MAX as i64) as i32
}

fn gen_case(rng: &mut Rng) -> Case {
    let (h, w) = match rng.below(8) {
        0 => (rng.urange(0, 2), rng.urange(0, 2)),
        1 => (rng.urange(0, 12), rng.urange(0, 12)),
        _ => (rng.urange(1, 12), rng.urange(1, 12)),
    };
    let width = *rng.choose(&[0u32, 1, 1, 1, 2, 2, 3, 4, 5]);
    let lay = *rng.choose(&[Lay::Contiguous, Lay::Contiguous, Lay::Window, Lay::Window, Lay::Transposed]);
    let kind = rng.below(12);
    let op = match kind {
        0..=2 => {
            let (t, l) = (coord(rng, h, true), coord(rng, w, true));
            // positive, zero and negative extents
            let (b, r) = if rng.chance(1, 2) {
                (t.saturating_add(rng.range(-3, 8) as i32), l.saturating_add(rng.range(-3, 8) as i32))
            } else {
                (coord(rng, h, true), coord(rng, w, true))
            };
            if kind == 0 || kind == 1 { Op::FillRect { t, l, b, r } } else { Op::StrokeRect { t, l, b, r, width } }
        }
        3 => {
            let (t, l) = (coord(rng, h, true), coord(rng, w, true));
            let (b, r) = if rng.chance(2, 3) { (t.saturating_add(rng.range(-2, 14) as i32), l.saturating_add(rng.range(-2, 14) as i32)) } else { (coord(rng, h, true), coord(rng, w, true)) };
            Op::StrokeRect { t, l, b, r, width }
        }
        4..=6 => {
            let far = width <= 1;
            Op::Line { y0: coord(rng, h, far), x0: coord(rng, w, far), y1: coord(rng, h, far), x1: coord(rng, w, far), width }
        }
        7 | 8 => {
            let far = width <= 1;
            let n = rng.urange(0, 6);
            Op::Polygon { pts: (0..n).map(|_| (coord(rng, h, far), coord(rng, w, far))).collect(), width }
        }
        9 => {
            let far = width <= 1;
            let n = rng.urange(1, 5);
            Op::Painter { pts: (0..n).map(|_| (coord(rng, h, far), coord(rng, w, far))).collect(), width, channels: *rng.choose(&[3usize, 3, 4]) }
        }
        _ => {
            let n = rng.urange(0, 7);
            Op::FillIter { pts: (0..n).map(|_| (coord(rng, h, false), coord(rng, w, false))).collect() }
        }
    };
    Case { op, h, w, lay, wide_elem: rng.chance(1, 4) }
}

pub fn run(rep: &mut Report, args: &Args) {
    let mut rng = Rng::derive(args.seed, 0xD36 + args.shard as u64);
    let n = args.budget(16_000, 1_600_000);
    const BATCH: usize = 128;
    let mut done = 0u64;
    let mut case_no = 0u64;
    while done < n {
        let mut batch: Vec<(Case, String)> = Vec::new();
        while batch.len() < BATCH && done + (batch.len() as u64) < n {
            let c = gen_case(&mut rng);
            case_no += 1;
            if c.op.cost(c.h, c.w) > MAX_COST {
                rep.count("generated_but_skipped_too_expensive");
                if c.op.cost(c.h, c.w).is_infinite() {
                    rep.count(&format!("observed:{}_zero_width_polygon_not_run(FillIter_needs_2^32_steps_per_row)", c.op.name()));
                }
                if case_no > 20 * n + 1000 {
                    break;
                }
                continue;
            }
            batch.push((c, format!("seed={} shard={}/{} case={}", args.seed, args.shard, args.shards, case_no)));
        }
        if batch.is_empty() {
            break;
        }
        done += batch.len() as u64;
        run_cases(rep, &batch, true);
    }
    rep.add("drawing_cases", done);
    let unattributed: u64 = rep.counters.iter().filter(|(k, _)| k.starts_with("harness:child_d")).map(|(_, v)| *v).sum();
    if unattributed > 0 && rep.inconclusive.is_none() {
        rep.inconclusive = Some("an observation child died but the fault did not reproduce on the single case".into());
    }
}
