//! C36 (first half): find_contours vs an 8-connected flood-fill labelling.
use rten_imageproc::{RetrievalMode, find_contours};
use rten_tensor::NdTensor;
use rten_tensor::prelude::*;
use vcommon::*;

#[derive(Clone, PartialEq, Eq, Hash, Debug)]
pub struct Mask {
    pub h: usize,
    pub w: usize,
    pub px: Vec<bool>,
}

impl Mask {
    pub fn from_bits(h: usize, w: usize, bits: u64) -> Mask {
        Mask { h, w, px: (0..h * w).map(|i| (bits >> i) & 1 == 1).collect() }
    }
    fn at(&self, y: i64, x: i64) -> Option<bool> {
        if y < 0 || x < 0 || y >= self.h as i64 || x >= self.w as i64 { None } else { Some(self.px[y as usize * self.w + x as usize]) }
    }
    pub fn rows(&self) -> String {
        (0..self.h).map(|y| (0..self.w).map(|x| if self.px[y * self.w + x] { '1' } else { '0' }).collect::<String>()).collect::<Vec<_>>().join("/")
    }
    pub fn parse(h: usize, w: usize, rows: &str) -> Mask {
        let px: Vec<bool> = rows.chars().filter(|c| *c == '0' || *c == '1').map(|c| c == '1').collect();
        assert_eq!(px.len(), h * w, "mask string does not match its size");
        Mask { h, w, px }
    }
}

const N8: [(i64, i64); 8] = [(-1, -1), (-1, 0), (-1, 1), (0, -1), (0, 1), (1, -1), (1, 0), (1, 1)];
const N4: [(i64, i64); 4] = [(-1, 0), (0, -1), (0, 1), (1, 0)];

/// Reference labelling: 8-connected foreground components, 4-connected
/// background regions (the complementary connectivity), which background
/// pixels are connected to the frame, which components are not enclosed.
pub struct Info {
    /// component label per pixel, -1 for background
    pub label: Vec<i32>,
    pub n_comp: usize,
    /// raster-first pixel of each component
    pub first: Vec<(usize, usize)>,
    /// component has a pixel on the image edge or 4-adjacent to background
    /// that is 4-connected to the frame
    pub outermost: Vec<bool>,
    pub touches_edge: bool,
    pub holes: usize,
}

pub fn analyze(m: &Mask) -> Info {
    let (h, w) = (m.h, m.w);
    let mut label = vec![-1i32; h * w];
    let mut first = Vec::new();
    let mut stack = Vec::new();
    for y in 0..h {
        for x in 0..w {
            if !m.px[y * w + x] || label[y * w + x] >= 0 {
                continue;
            }
            let id = first.len() as i32;
            first.push((y, x));
            label[y * w + x] = id;
            stack.push((y as i64, x as i64));
            while let Some((cy, cx)) = stack.pop() {
                for (dy, dx) in N8 {
                    let (ny, nx) = (cy + dy, cx + dx);
                    if m.at(ny, nx) == Some(true) && label[ny as usize * w + nx as usize] < 0 {
                        label[ny as usize * w + nx as usize] = id;
                        stack.push((ny, nx));
                    }
                }
            }
        }
    }
    // background regions, 4-connected; region 0.. ; outer = touches the image edge
    let mut bg = vec![-1i32; h * w];
    let mut bg_outer: Vec<bool> = Vec::new();
    for y in 0..h {
        for x in 0..w {
            if m.px[y * w + x] || bg[y * w + x] >= 0 {
                continue;
            }
            let id = bg_outer.len() as i32;
            let mut outer = false;
            bg[y * w + x] = id;
            stack.push((y as i64, x as i64));
            while let Some((cy, cx)) = stack.pop() {
                if cy == 0 || cx == 0 || cy == h as i64 - 1 || cx == w as i64 - 1 {
                    outer = true;
                }
                for (dy, dx) in N4 {
                    let (ny, nx) = (cy + dy, cx + dx);
                    if m.at(ny, nx) == Some(false) && bg[ny as usize * w + nx as usize] < 0 {
                        bg[ny as usize * w + nx as usize] = id;
                        stack.push((ny, nx));
                    }
                }
            }
            bg_outer.push(outer);
        }
    }
    let n_comp = first.len();
    let mut outermost = vec![false; n_comp];
    let mut touches_edge = false;
    for y in 0..h {
        for x in 0..w {
            let l = label[y * w + x];
            if l < 0 {
                continue;
            }
            for (dy, dx) in N4 {
                match m.at(y as i64 + dy, x as i64 + dx) {
                    None => {
                        outermost[l as usize] = true;
                        touches_edge = true;
                    }
                    Some(false) => {
                        let r = bg[(y as i64 + dy) as usize * w + (x as i64 + dx) as usize];
                        if bg_outer[r as usize] {
                            outermost[l as usize] = true;
                        }
                    }
                    Some(true) => {}
                }
            }
        }
    }
    Info { label, n_comp, first, outermost, touches_edge, holes: bg_outer.iter().filter(|o| !**o).count() }
}

#[derive(Default, Debug, Clone)]
pub struct Stats {
    pub contours: usize,
    pub points: usize,
    pub not_4_adjacent: usize,
    pub nested_components: usize,
    pub extra_external_contours: usize,
    pub multi_component_contours: usize,
}

pub struct Fail {
    pub kind: &'static str,
    pub detail: String,
}

pub fn mode_name(list: bool) -> &'static str {
    if list { "List" } else { "External" }
}

/// Trace the contours of `m` with the real code and check them against `info`.
/// Err(Err(msg)) = the real code panicked (no result).
pub fn check(m: &Mask, info: &Info, list: bool) -> Result<Stats, Result<Fail, String>> {
    let t = NdTensor::<bool, 2>::from_data([m.h, m.w], m.px.clone());
    let polys = catch(|| {
        let c = find_contours(t.view(), if list { RetrievalMode::List } else { RetrievalMode::External });
        c.iter().map(|p| p.iter().map(|q| (q.y as i64, q.x as i64)).collect::<Vec<_>>()).collect::<Vec<_>>()
    })
    .map_err(Err)?;
    let mut st = Stats { contours: polys.len(), ..Default::default() };
    let mut has_outer = vec![false; info.n_comp];
    for (ci, c) in polys.iter().enumerate() {
        let mut comps: Vec<i32> = Vec::new();
        for &(y, x) in c {
            st.points += 1;
            match m.at(y, x) {
                None => {
                    return Err(Ok(Fail { kind: "point_outside_image", detail: format!("contour {} contains ({},{}) which is outside the {}x{} mask", ci, y, x, m.h, m.w) }));
                }
                Some(false) => {
                    return Err(Ok(Fail { kind: "point_is_background", detail: format!("contour {} contains ({},{}) (y,x) which is a background pixel", ci, y, x) }));
                }
                Some(true) => {}
            }
            // Weakest reading of "adjacent": 8-neighbourhood or image edge.
            let adj8 = N8.iter().any(|(dy, dx)| m.at(y + dy, x + dx) != Some(true));
            if !adj8 {
                return Err(Ok(Fail { kind: "point_is_interior", detail: format!("contour {} contains ({},{}) (y,x) whose 8 neighbours are all foreground and inside the image", ci, y, x) }));
            }
            if !N4.iter().any(|(dy, dx)| m.at(y + dy, x + dx) != Some(true)) {
                st.not_4_adjacent += 1;
            }
            let l = info.label[y as usize * m.w + x as usize];
            if !comps.contains(&l) {
                comps.push(l);
            }
        }
        if comps.len() > 1 {
            st.multi_component_contours += 1;
        }
        if comps.len() == 1 {
            let l = comps[0] as usize;
            let (fy, fx) = info.first[l];
            if c.contains(&(fy as i64, fx as i64)) {
                has_outer[l] = true;
            }
            if !list && !info.outermost[l] {
                st.extra_external_contours += 1;
            }
        }
    }
    for l in 0..info.n_comp {
        let required = list || info.outermost[l];
        if !info.outermost[l] {
            st.nested_components += 1;
        }
        if required && !has_outer[l] {
            let (fy, fx) = info.first[l];
            return Err(Ok(Fail {
                kind: "component_without_outer_contour",
                detail: format!(
                    "the 8-connected foreground component whose first pixel in raster order is ({},{}) (y,x){} has no contour made of its own pixels that passes through that pixel ({} contours returned)",
                    fy,
                    fx,
                    if info.outermost[l] { ", which is not enclosed by another component," } else { "" },
                    polys.len()
                ),
            }));
        }
    }
    Ok(st)
}

fn fails_same(m: &Mask, list: bool, kind: &str) -> bool {
    matches!(check(m, &analyze(m), list), Err(Ok(f)) if f.kind == kind)
}

fn shrink(mut m: Mask, list: bool, kind: &str) -> Mask {
    let mut budget = 3000;
    let mut progress = true;
    while progress && budget > 0 {
        progress = false;
        // drop a row / column
        let mut y = 0;
        while y < m.h && m.h > 1 && budget > 0 {
            let mut c = m.clone();
            c.px.drain(y * m.w..(y + 1) * m.w);
            c.h -= 1;
            budget -= 1;
            if fails_same(&c, list, kind) {
                m = c;
                progress = true;
            } else {
                y += 1;
            }
        }
        let mut x = 0;
        while x < m.w && m.w > 1 && budget > 0 {
            let mut c = Mask { h: m.h, w: m.w - 1, px: Vec::new() };
            for yy in 0..m.h {
                for xx in 0..m.w {
                    if xx != x {
                        c.px.push(m.px[yy * m.w + xx]);
                    }
                }
            }
            budget -= 1;
            if fails_same(&c, list, kind) {
                m = c;
                progress = true;
            } else {
                x += 1;
            }
        }
        // clear a foreground pixel
        for i in 0..m.px.len() {
            if m.px[i] && budget > 0 {
                let mut c = m.clone();
                c.px[i] = false;
                budget -= 1;
                if fails_same(&c, list, kind) {
                    m = c;
                    progress = true;
                }
            }
        }
    }
    m
}

fn witness(m: &Mask, list: bool, origin: &str) -> Json {
    json!({"part": "contour", "mode": mode_name(list), "h": m.h, "w": m.w, "mask": m.rows(), "origin": origin})
}

/// Run one mask in both retrieval modes.
pub fn run_mask(rep: &mut Report, m: &Mask, origin: &str, record_identity: bool, do_shrink: bool) {
    let info = analyze(m);
    let nontrivial = info.touches_edge || info.holes > 0;
    rep.add("components_found", info.n_comp as u64);
    rep.add("holes_found", info.holes as u64);
    rep.max("max_components_in_a_mask", info.n_comp as u64);
    if info.holes > 0 {
        rep.count("masks_with_a_hole");
    }
    if info.touches_edge {
        rep.count("masks_touching_the_image_edge");
    }
    for list in [false, true] {
        rep.eval();
        rep.count(&format!("mode:{}", mode_name(list)));
        if nontrivial {
            if record_identity {
                rep.nontrivial(&(m, list));
            } else {
                rep.count("nontrivial_not_individually_recorded");
            }
        }
        match check(m, &info, list) {
            Ok(st) => {
                rep.add("contours_traced", st.contours as u64);
                rep.add("contour_points_checked", st.points as u64);
                rep.add("observed:contour_points_without_4_adjacent_background", st.not_4_adjacent as u64);
                rep.add("observed:contours_spanning_several_components", st.multi_component_contours as u64);
                if !list {
                    rep.add("nested_components(no_contour_required_in_External_mode)", st.nested_components as u64);
                    rep.add("observed:External_contours_of_enclosed_components", st.extra_external_contours as u64);
                    if st.extra_external_contours > 0 && !rep.notes.contains_key("first_mask_where_External_returns_a_contour_of_an_enclosed_component") {
                        rep.note("first_mask_where_External_returns_a_contour_of_an_enclosed_component", json!(format!("{}x{}:{}", m.h, m.w, m.rows())));
                    }
                }
                if rep.wants_sample() && info.holes > 0 && info.n_comp >= 2 && m.h >= 4 && list {
                    rep.sample(|| json!({"mask": format!("{}x{}:{}", m.h, m.w, m.rows()), "mode": mode_name(list), "components": info.n_comp, "holes": info.holes, "contours": st.contours, "points": st.points}));
                }
            }
            Err(Err(msg)) => {
                rep.count(&format!("no_result_panic:find_contours:{}", panic_class(&msg)));
            }
            Err(Ok(f)) => {
                let sm = if do_shrink { shrink(m.clone(), list, f.kind) } else { m.clone() };
                let detail = match check(&sm, &analyze(&sm), list) {
                    Err(Ok(f2)) if f2.kind == f.kind => f2.detail,
                    _ => f.detail,
                };
                rep.count(&format!("violating_cases:contour:{}", f.kind));
                rep.violation(
                    format!("C36|contour|{}|mode={}|mask={}x{}:{}", f.kind, mode_name(list), sm.h, sm.w, sm.rows()),
                    format!("find_contours(RetrievalMode::{}) on {}x{} mask {}: {}", mode_name(list), sm.h, sm.w, sm.rows(), detail),
                    witness(&sm, list, origin),
                );
            }
        }
    }
}

pub fn replay(rep: &mut Report, w: &Json) {
    let m = Mask::parse(w["h"].as_u64().unwrap() as usize, w["w"].as_u64().unwrap() as usize, w["mask"].as_str().unwrap());
    run_mask(rep, &m, "replay", true, false);
}

fn gen_mask(rng: &mut Rng) -> (&'static str, Mask) {
    let (h, w) = match rng.below(6) {
        0 => (rng.urange(0, 6), rng.urange(0, 6)),
        1 => (rng.urange(1, 3), rng.urange(1, 32)),
        2 => (rng.urange(1, 32), rng.urange(1, 3)),
        _ => (rng.urange(5, 32), rng.urange(5, 32)),
    };
    let mut m = Mask { h, w, px: vec![false; h * w] };
    if h == 0 || w == 0 {
        return ("empty", m);
    }
    let kind = match rng.below(9) {
        0 => {
            let d = *rng.choose(&[1u32, 2, 5, 8, 9]);
            for p in m.px.iter_mut() {
                *p = rng.chance(d, 10);
            }
            "random_density"
        }
        1 => {
            // concentric rectangular rings, ring k foreground when k % period < thick
            let (period, thick) = (rng.urange(2, 4), 1);
            let off = rng.below(period);
            for y in 0..h {
                for x in 0..w {
                    let k = y.min(x).min(h - 1 - y).min(w - 1 - x);
                    m.px[y * w + x] = (k + off) % period < thick;
                }
            }
            "nested_rings"
        }
        2 => {
            let s = rng.urange(1, 3);
            let off = rng.below(2);
            for y in 0..h {
                for x in 0..w {
                    m.px[y * w + x] = (y / s + x / s + off) % 2 == 0;
                }
            }
            "checkerboard"
        }
        3 => {
            // random filled rectangles, then random holes punched
            for _ in 0..rng.urange(1, 6) {
                let (y0, x0) = (rng.below(h), rng.below(w));
                let (y1, x1) = ((y0 + rng.urange(1, 12)).min(h), (x0 + rng.urange(1, 12)).min(w));
                for y in y0..y1 {
                    for x in x0..x1 {
                        m.px[y * w + x] = true;
                    }
                }
            }
            for _ in 0..rng.urange(0, 8) {
                let (y0, x0) = (rng.below(h), rng.below(w));
                let (y1, x1) = ((y0 + rng.urange(1, 4)).min(h), (x0 + rng.urange(1, 4)).min(w));
                for y in y0..y1 {
                    for x in x0..x1 {
                        m.px[y * w + x] = false;
                    }
                }
            }
            "rects_with_holes"
        }
        4 => {
            // diagonal lines (8-connected only)
            let step = rng.urange(2, 5);
            let anti = rng.bool();
            for y in 0..h {
                for x in 0..w {
                    let k = if anti { y + (w - 1 - x) } else { y + x };
                    m.px[y * w + x] = k % step == 0;
                }
            }
            "diagonals"
        }
        5 => {
            m.px.iter_mut().for_each(|p| *p = true);
            for _ in 0..rng.below(6) {
                let i = rng.below(h * w);
                m.px[i] = false;
            }
            "full_minus_few"
        }
        6 => {
            // frame touching every edge plus island(s) inside
            for y in 0..h {
                for x in 0..w {
                    m.px[y * w + x] = y == 0 || x == 0 || y == h - 1 || x == w - 1;
                }
            }
            for _ in 0..rng.urange(1, 5) {
                let (y, x) = (rng.below(h), rng.below(w));
                m.px[y * w + x] = true;
            }
            "frame_with_islands"
        }
        7 => {
            // random walk blob
            let (mut y, mut x) = (rng.below(h) as i64, rng.below(w) as i64);
            for _ in 0..rng.urange(1, h * w) {
                m.px[y as usize * w + x as usize] = true;
                y = (y + rng.range(-1, 1)).clamp(0, h as i64 - 1);
                x = (x + rng.range(-1, 1)).clamp(0, w as i64 - 1);
            }
            "random_walk"
        }
        _ => {
            // sparse single pixels and pairs
            for _ in 0..rng.urange(1, 10) {
                let i = rng.below(h * w);
                m.px[i] = true;
            }
            "sparse"
        }
    };
    (kind, m)
}

pub fn run(rep: &mut Report, args: &Args) {
    // ---- exhaustive
    let mut sizes: Vec<(usize, usize)> = Vec::new();
    for h in 0..=4 {
        for w in 0..=4 {
            sizes.push((h, w));
        }
    }
    sizes.extend_from_slice(&[(3, 5), (5, 3)]);
    if args.thorough {
        sizes.extend_from_slice(&[(4, 5), (5, 4), (5, 5), (2, 10), (10, 2), (1, 20), (20, 1)]);
    }
    let mut idx = 0u64;
    let mut enumerated = 0u64;
    for &(h, w) in &sizes {
        let total = 1u64 << (h * w);
        let record = h * w <= 16;
        for bits in 0..total {
            idx += 1;
            if (idx as usize) % args.shards != args.shard {
                continue;
            }
            let m = Mask::from_bits(h, w, bits);
            run_mask(rep, &m, "exhaustive", record, true);
            enumerated += 1;
        }
    }
    rep.add("masks_enumerated_exhaustively", enumerated);
    rep.note("exhaustive_mask_sizes", json!(sizes.iter().map(|(h, w)| format!("{}x{}", h, w)).collect::<Vec<_>>()));
    // Every size listed above was enumerated completely (across all shards).
    rep.note("contour_part_exhaustive_over_listed_sizes", json!(true));

    // ---- random / structured masks up to 32x32
    let mut rng = Rng::derive(args.seed, 0xC36 + args.shard as u64);
    let n = args.budget(20_000, 2_000_000);
    for i in 0..n {
        let (kind, m) = gen_mask(&mut rng);
        rep.count(&format!("mask_kind:{}", kind));
        rep.max("max_mask_pixels", (m.h * m.w) as u64);
        let origin = format!("seed={} shard={}/{} mask={}", args.seed, args.shard, args.shards, i);
        run_mask(rep, &m, &origin, true, true);
    }
    rep.add("random_masks", n);
}
