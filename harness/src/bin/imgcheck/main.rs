//! imgcheck: runtime monitors for rten-imageproc (C35 C36).
//!
//!   imgcheck c35   polygon algorithms (convex_hull, min_area_rect,
//!                  simplify_polyline, simplify_polygon) vs geometric oracles
//!   imgcheck c36   contour tracing vs flood-fill component labelling, and
//!                  drawing primitives vs clipped shape bounds on guard pages
use vcommon::*;

mod contour;
mod draw;
mod poly;

fn main() {
    run_main(real_main)
}

fn real_main() {
    let args = Args::parse();
    match args.cmd.as_str() {
        "c35" => poly::run(&args),
        "c36" => c36(&args),
        other => {
            eprintln!("unknown sub-command {:?}", other);
            std::process::exit(3);
        }
    }
}

/// C36 has two halves (contours, drawing) that share one report.
fn c36(args: &Args) {
    let mut rep = Report::new(
        "C36",
        "imgcheck c36",
        args,
        "contours: every binary mask of every size h,w<=4 plus 3x5/5x3 (quick and thorough; thorough adds all 4x5/5x4) and random/structured masks up to 32x32, each traced in both RetrievalMode variants and compared with an 8-connected flood-fill labelling; non-trivial = mask with a foreground component touching the image border or a hole (background region not 4-connected to the frame). drawing: fill_rect, stroke_rect, draw_line, draw_polygon, Painter::draw_polygon and Polygon::fill_iter on images of 0..12 pixels per side (contiguous, window of a larger buffer, transposed) whose buffer sits against a PROT_NONE page (after and before), coordinates from inside to far outside, negative extents, widths 0-5; first screened in a forked child for faults, then re-run with a before/after diff against the shape bounds (+stroke width) clipped to the image; non-trivial = shape bounds partly outside the image; distinct by (mask, mode) / (op, image, layout)",
    );
    rep.max_samples = 10;
    if let Some(path) = &args.replay {
        let w: Json = serde_json::from_str(&std::fs::read_to_string(path).unwrap()).unwrap();
        let w = if w.get("witness").is_some() { w["witness"].clone() } else { w };
        match w["part"].as_str().unwrap_or("") {
            "contour" => contour::replay(&mut rep, &w),
            "draw" => draw::replay(&mut rep, &w),
            other => {
                rep.inconclusive = Some(format!("replay: unknown part {:?}", other));
            }
        }
        rep.nontrivial(&0u8);
        rep.evaluations = rep.evaluations.max(1);
        rep.finish();
        return;
    }
    let part = args.get("part").unwrap_or("all").to_string();
    if part == "all" || part == "contour" {
        contour::run(&mut rep, args);
    }
    if part == "all" || part == "draw" {
        draw::run(&mut rep, args);
    }
    rep.finish();
}
