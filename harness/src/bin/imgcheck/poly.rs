//! C35: convex_hull / min_area_rect / simplify_polyline / simplify_polygon
//! against geometric oracles computed in i128 (small integer coordinates) or
//! f64 with a tolerance scaled to the coordinate magnitude.
use rten_imageproc::{PointF, convex_hull, min_area_rect, simplify_polygon, simplify_polyline};
use vcommon::*;

/// (x, y)
pub type P = (f32, f32);

fn pf(p: &P) -> PointF {
    PointF::from_yx(p.1, p.0)
}

#[derive(Clone, Copy, PartialEq, Eq, Debug, Hash)]
pub enum Algo {
    Hull,
    Rect,
    Polyline,
    Polygon,
}

impl Algo {
    fn name(self) -> &'static str {
        match self {
            Algo::Hull => "convex_hull",
            Algo::Rect => "min_area_rect",
            Algo::Polyline => "simplify_polyline",
            Algo::Polygon => "simplify_polygon",
        }
    }
    fn from_name(s: &str) -> Option<Algo> {
        [Algo::Hull, Algo::Rect, Algo::Polyline, Algo::Polygon].into_iter().find(|a| a.name() == s)
    }
    fn uses_eps(self) -> bool {
        matches!(self, Algo::Polyline | Algo::Polygon)
    }
}

// ------------------------------------------------------------ domain

/// What may be asserted about a point set.
#[derive(Clone, Copy, Debug)]
struct Dom {
    /// max |coordinate|
    m: f64,
    /// all coordinates are integers with |v| <= 64: every cross product the
    /// implementation computes is exact in f32 and distinct directions are
    /// separated by far more than f32 resolution, so the hull is decided in
    /// exact integer arithmetic with zero tolerance.
    exact: bool,
    /// outside the range where squares of coordinates / differences stay
    /// inside f32's normal range (or non-finite): observed and counted only.
    extreme: bool,
}

fn domain(pts: &[P]) -> Dom {
    let mut m = 0f64;
    let mut exact = true;
    let mut finite = true;
    for &(x, y) in pts {
        for v in [x, y] {
            if !v.is_finite() {
                finite = false;
                continue;
            }
            m = m.max((v as f64).abs());
            if v.fract() != 0.0 || v.abs() > 64.0 {
                exact = false;
            }
        }
    }
    let extreme = !finite || m > 1e9 || (m > 0.0 && m < 1e-9);
    Dom { m, exact: exact && finite, extreme }
}

fn cross(a: P, b: P, c: P, exact: bool) -> f64 {
    if exact {
        let (ax, ay, bx, by, cx, cy) = (a.0 as i64 as i128, a.1 as i64 as i128, b.0 as i64 as i128, b.1 as i64 as i128, c.0 as i64 as i128, c.1 as i64 as i128);
        ((bx - ax) * (cy - ay) - (by - ay) * (cx - ax)) as f64
    } else {
        let (ax, ay, bx, by, cx, cy) = (a.0 as f64, a.1 as f64, b.0 as f64, b.1 as f64, c.0 as f64, c.1 as f64);
        (bx - ax) * (cy - ay) - (by - ay) * (cx - ax)
    }
}

fn dist(a: P, b: P) -> f64 {
    let (dx, dy) = (b.0 as f64 - a.0 as f64, b.1 as f64 - a.1 as f64);
    (dx * dx + dy * dy).sqrt()
}

/// Distance from `p` to the segment a-b (f64; exact enough for f32 inputs, and
/// exactly 0 when an integer point lies on an integer segment).
fn seg_dist(a: P, b: P, p: P) -> f64 {
    let (ax, ay, bx, by, px, py) = (a.0 as f64, a.1 as f64, b.0 as f64, b.1 as f64, p.0 as f64, p.1 as f64);
    let (abx, aby) = (bx - ax, by - ay);
    let l2 = abx * abx + aby * aby;
    if l2 == 0.0 {
        return dist(a, p);
    }
    let t = ((px - ax) * abx + (py - ay) * aby) / l2;
    if t <= 0.0 {
        dist(a, p)
    } else if t >= 1.0 {
        dist(b, p)
    } else {
        // perpendicular distance = |cross| / |ab| (no cancellation from an
        // intermediate foot point)
        ((abx * (py - ay) - aby * (px - ax)).abs()) / l2.sqrt()
    }
}

/// Distance from `p` to an open or closed chain of segments.
fn chain_dist(chain: &[P], closed: bool, p: P) -> f64 {
    match chain.len() {
        0 => f64::INFINITY,
        1 => dist(chain[0], p),
        n => {
            let mut best = f64::INFINITY;
            for i in 0..n - 1 {
                best = best.min(seg_dist(chain[i], chain[i + 1], p));
            }
            if closed {
                best = best.min(seg_dist(chain[n - 1], chain[0], p));
            }
            best
        }
    }
}

pub fn non_collinear(pts: &[P]) -> bool {
    let Some(&a) = pts.first() else { return false };
    let Some(&b) = pts.iter().find(|p| **p != a) else { return false };
    pts.iter().any(|&c| cross(a, b, c, false) != 0.0)
}

// ------------------------------------------------------------ outcomes

#[derive(Clone, Debug)]
pub struct Fail {
    pub kind: &'static str,
    pub detail: String,
}

#[derive(Clone, Debug, Default)]
pub struct Flags {
    pub degenerate: bool,
    pub exact: bool,
    pub last_dropped: bool,
    pub out_len: usize,
    pub removed: usize,
}

#[derive(Clone, Debug)]
pub enum Outcome {
    Ok(Flags),
    Panic(String),
    Fail(Fail),
}

fn fail(kind: &'static str, detail: String) -> Outcome {
    Outcome::Fail(Fail { kind, detail })
}

// ------------------------------------------------------------ hull oracle

/// Reference hull (Andrew's monotone chain): strictly convex, counter-clockwise
/// in (x, y), collinear points dropped. Exact for `exact` inputs.
fn ref_hull(pts: &[P], exact: bool) -> Vec<P> {
    // -0.0 -> +0.0 so that total_cmp agrees with ==
    let mut v: Vec<P> = pts.iter().map(|p| (p.0 + 0.0, p.1 + 0.0)).collect();
    v.sort_by(|a, b| a.0.total_cmp(&b.0).then(a.1.total_cmp(&b.1)));
    v.dedup();
    if v.len() < 3 {
        return v;
    }
    let mut out: Vec<P> = Vec::with_capacity(v.len() + 1);
    for pass in 0..2 {
        let start = out.len();
        let it: Box<dyn Iterator<Item = &P>> = if pass == 0 { Box::new(v.iter()) } else { Box::new(v.iter().rev()) };
        for &p in it {
            while out.len() >= start + 2 && cross(out[out.len() - 2], out[out.len() - 1], p, exact) <= 0.0 {
                out.pop();
            }
            out.push(p);
        }
        out.pop();
    }
    out
}

/// Twice the signed (shoelace) area of a vertex sequence.
fn area2(seq: &[P], exact: bool) -> f64 {
    let mut a = 0.0;
    for i in 1..seq.len().saturating_sub(1) {
        a += cross(seq[0], seq[i], seq[i + 1], exact);
    }
    a
}

/// Decide a returned hull `h` for input `pts`.
///
/// * containment is a statement about the region: every input point must be
///   inside (within tol of) the convex hull of the returned vertices;
/// * convexity is a statement about the returned vertex *sequence*: no vertex
///   may be reflex by more than tol (distance from the line through its
///   neighbours), and the sequence must enclose, with winding number one, the
///   whole region spanned by its vertices (shoelace area equal to the area of
///   their convex hull up to tol * perimeter). Collinear vertices and
///   zero-width folds are accepted.
///
/// Returns Ok(degenerate).
fn hull_geometry(pts: &[P], h: &[P], dom: Dom) -> Result<bool, Fail> {
    let tol = if dom.exact { 0.0 } else { 5e-3 * dom.m };
    let n = h.len();
    if n == 0 {
        return if pts.is_empty() {
            Ok(true)
        } else {
            Err(Fail { kind: "hull/contain", detail: "empty hull for a non-empty point set".into() })
        };
    }
    let r = ref_hull(h, dom.exact);
    let rn = r.len();
    // ---- containment
    let mut worst = (0.0f64, None);
    for &p in pts {
        let d = if rn < 3 {
            // point or segment (all returned vertices collinear)
            chain_dist(&r, false, p)
        } else {
            let mut out = 0.0f64;
            for i in 0..rn {
                let (a, b) = (r[i], r[(i + 1) % rn]);
                out = out.max(-cross(a, b, p, dom.exact) / dist(a, b));
            }
            out
        };
        if d > worst.0 {
            worst = (d, Some(p));
        }
    }
    if worst.0 > tol {
        return Err(Fail {
            kind: "hull/contain",
            detail: format!(
                "input point {:?} is {:e} outside the region spanned by the returned hull {} (tolerance {:e})",
                worst.1.unwrap(),
                worst.0,
                fmt_pts(h),
                tol
            ),
        });
    }
    if rn < 3 || n < 3 {
        return Ok(true);
    }
    // ---- convexity of the returned sequence
    let a_seq = area2(h, dom.exact);
    let a_ref = area2(&r, dom.exact);
    let perim: f64 = (0..rn).map(|i| dist(r[i], r[(i + 1) % rn])).sum();
    if (a_seq.abs() - a_ref).abs() > 2.0 * tol * perim {
        return Err(Fail {
            kind: "hull/convex",
            detail: format!(
                "returned hull {} is not a convex polygon: as a vertex sequence it encloses area {:e} but the convex hull of its own vertices ({}) has area {:e} (allowed difference {:e})",
                fmt_pts(h),
                a_seq.abs() / 2.0,
                fmt_pts(&r),
                a_ref / 2.0,
                tol * perim
            ),
        });
    }
    let s = if a_seq < 0.0 { -1.0 } else { 1.0 };
    for i in 0..n {
        let (a, b, c) = (h[(i + n - 1) % n], h[i], h[(i + 1) % n]);
        let base = dist(a, c);
        if base == 0.0 {
            continue;
        }
        let depth = -s * cross(a, b, c, dom.exact) / base;
        if depth > tol {
            return Err(Fail {
                kind: "hull/convex",
                detail: format!("returned hull {} is not convex: vertex {:?} is reflex, {:e} inside the line through its neighbours {:?} and {:?} (tolerance {:e})", fmt_pts(h), b, depth, a, c, tol),
            });
        }
    }
    Ok(false)
}

fn check_hull(pts: &[P]) -> Outcome {
    let dom = domain(pts);
    let input: Vec<PointF> = pts.iter().map(pf).collect();
    let hull = match catch(|| convex_hull(&input)) {
        Ok(h) => h,
        Err(m) => return Outcome::Panic(m),
    };
    let h: Vec<P> = hull.iter().map(|p| (p.x, p.y)).collect();
    for v in &h {
        if !pts.iter().any(|p| p.0 == v.0 && p.1 == v.1) {
            return fail("hull/subset", format!("hull vertex {:?} is not an input point", v));
        }
    }
    match hull_geometry(pts, &h, dom) {
        Ok(degenerate) => Outcome::Ok(Flags { degenerate, exact: dom.exact, out_len: h.len(), ..Default::default() }),
        Err(f) => Outcome::Fail(f),
    }
}

// ------------------------------------------------------------ rect oracle

fn check_rect(pts: &[P]) -> Outcome {
    let dom = domain(pts);
    let input: Vec<PointF> = pts.iter().map(pf).collect();
    let rect = match catch(|| min_area_rect(&input)) {
        Ok(r) => r,
        Err(m) => return Outcome::Panic(m),
    };
    let Some(r) = rect else {
        return if pts.is_empty() {
            Outcome::Ok(Flags { degenerate: true, ..Default::default() })
        } else {
            fail("rect/none", "min_area_rect returned None for a non-empty point set".into())
        };
    };
    if pts.is_empty() {
        // Documented to return None; nothing to contain either way.
        return Outcome::Ok(Flags { degenerate: true, ..Default::default() });
    }
    // min_area_rect works in f32 on top of the hull: tolerance scaled to the
    // coordinate magnitude.
    let tol = if dom.exact { 1e-3 * (1.0 + dom.m) } else { 6e-3 * dom.m };
    let (cx, cy) = (r.center().x as f64, r.center().y as f64);
    let (ux, uy) = (r.up_axis().x as f64, r.up_axis().y as f64);
    let ul = (ux * ux + uy * uy).sqrt();
    let (ux, uy) = (ux / ul, uy / ul);
    let (w, h) = (r.width() as f64, r.height() as f64);
    for &p in pts {
        let (dx, dy) = (p.0 as f64 - cx, p.1 as f64 - cy);
        let du = dx * ux + dy * uy;
        let dv = dx * uy - dy * ux;
        let ok = du.abs() <= h / 2.0 + tol && dv.abs() <= w / 2.0 + tol;
        if !ok {
            return fail(
                "rect/contain",
                format!(
                    "point {:?} is outside min_area_rect center=({},{}) up=({},{}) width={} height={}: offset along up {:e} (half height {:e}), across {:e} (half width {:e}), tolerance {:e}",
                    p,
                    r.center().x,
                    r.center().y,
                    r.up_axis().x,
                    r.up_axis().y,
                    r.width(),
                    r.height(),
                    du,
                    h / 2.0,
                    dv,
                    w / 2.0,
                    tol
                ),
            );
        }
    }
    Outcome::Ok(Flags { degenerate: w == 0.0 || h == 0.0, exact: dom.exact, out_len: 4, ..Default::default() })
}

// ------------------------------------------------------------ simplify oracle

fn check_simplify(algo: Algo, pts: &[P], eps: f32) -> Outcome {
    let dom = domain(pts);
    let input: Vec<PointF> = pts.iter().map(pf).collect();
    let out = match catch(|| if algo == Algo::Polyline { simplify_polyline(&input, eps) } else { simplify_polygon(&input, eps) }) {
        Ok(o) => o,
        Err(m) => return Outcome::Panic(m),
    };
    let o: Vec<P> = out.iter().map(|p| (p.x, p.y)).collect();
    if pts.is_empty() {
        return if o.is_empty() {
            Outcome::Ok(Flags { degenerate: true, ..Default::default() })
        } else {
            fail("simplify/subsequence", format!("{} output points for an empty input", o.len()))
        };
    }
    if o.first() != Some(&pts[0]) {
        return fail("simplify/first", format!("first point {:?} not kept: output starts with {:?}", pts[0], o.first()));
    }
    // subsequence (greedy match is complete for subsequence existence)
    let mut j = 0;
    for v in &o {
        while j < pts.len() && pts[j] != *v {
            j += 1;
        }
        if j == pts.len() {
            return fail("simplify/subsequence", format!("output {} is not a subsequence of the input (stuck at {:?})", fmt_pts(&o), v));
        }
        j += 1;
    }
    // every input point (kept ones are at distance 0) within eps of the outline
    let e = eps as f64;
    if e.is_finite() {
        let slack = 1e-4 * dom.m + 1e-3 * e;
        for &p in pts {
            let d = chain_dist(&o, algo == Algo::Polygon, p);
            if d > e + slack {
                return fail(
                    "simplify/distance",
                    format!("input point {:?} is {:e} from the simplified outline {} but epsilon is {:e} (slack {:e})", p, d, fmt_pts(&o), e, slack),
                );
            }
        }
    }
    Outcome::Ok(Flags {
        degenerate: o.len() < if algo == Algo::Polygon { 3 } else { 2 },
        exact: dom.exact,
        last_dropped: algo == Algo::Polyline && o.last() != pts.last(),
        out_len: o.len(),
        removed: pts.len() - o.len(),
    })
}

pub fn check(algo: Algo, pts: &[P], eps: f32) -> Outcome {
    match algo {
        Algo::Hull => check_hull(pts),
        Algo::Rect => check_rect(pts),
        Algo::Polyline | Algo::Polygon => check_simplify(algo, pts, eps),
    }
}

// ------------------------------------------------------------ formatting

fn fmt_f(v: f32) -> String {
    let s = format!("{:?}", v);
    s.strip_suffix(".0").map(|t| t.to_string()).unwrap_or(s)
}

pub fn fmt_pts(pts: &[P]) -> String {
    pts.iter().map(|p| format!("{},{}", fmt_f(p.0), fmt_f(p.1))).collect::<Vec<_>>().join(";")
}

pub fn parse_pts(s: &str) -> Vec<P> {
    s.split(';')
        .filter(|t| !t.is_empty())
        .map(|t| {
            let (x, y) = t.split_once(',').expect("x,y");
            (x.trim().parse::<f32>().expect("x"), y.trim().parse::<f32>().expect("y"))
        })
        .collect()
}

// ------------------------------------------------------------ shrinking

fn fails_same(algo: Algo, pts: &[P], eps: f32, kind: &str) -> bool {
    if domain(pts).extreme {
        return false;
    }
    matches!(check(algo, pts, eps), Outcome::Fail(f) if f.kind == kind)
}

fn shrink(algo: Algo, mut pts: Vec<P>, mut eps: f32, kind: &str) -> (Vec<P>, f32) {
    let mut budget = 1500i32;
    let mut test = |p: &[P], e: f32, budget: &mut i32| -> bool {
        if *budget <= 0 {
            return false;
        }
        *budget -= 1;
        fails_same(algo, p, e, kind)
    };
    // 1. delete chunks (ddmin style), then single points to a fixpoint
    let mut chunk = (pts.len() / 2).max(1);
    loop {
        let mut progress = false;
        let mut i = 0;
        while i < pts.len() && pts.len() > 1 {
            let end = (i + chunk).min(pts.len());
            let mut cand = pts.clone();
            cand.drain(i..end);
            if test(&cand, eps, &mut budget) {
                pts = cand;
                progress = true;
            } else {
                i += chunk;
            }
        }
        if chunk > 1 {
            chunk /= 2;
        } else if !progress {
            break;
        }
        if budget <= 0 {
            break;
        }
    }
    // 2. epsilon
    if algo.uses_eps() {
        for cand in [0.0f32, 1.0, 0.5, eps.round(), (eps * 2.0).round() / 2.0] {
            if cand != eps && cand >= 0.0 && test(&pts, cand, &mut budget) {
                eps = cand;
                break;
            }
        }
    }
    // 3. coordinates: round, translate to the origin, halve, then lower each
    //    coordinate towards 0 one at a time.
    let try_map = |pts: &mut Vec<P>, budget: &mut i32, test: &mut dyn FnMut(&[P], f32, &mut i32) -> bool, f: &dyn Fn(P) -> P| -> bool {
        let cand: Vec<P> = pts.iter().map(|p| f(*p)).collect();
        if cand != *pts && test(&cand, eps, budget) {
            *pts = cand;
            true
        } else {
            false
        }
    };
    try_map(&mut pts, &mut budget, &mut test, &|p| (p.0.round(), p.1.round()));
    if !pts.is_empty() {
        let minx = pts.iter().map(|p| p.0).fold(f32::INFINITY, f32::min);
        let miny = pts.iter().map(|p| p.1).fold(f32::INFINITY, f32::min);
        try_map(&mut pts, &mut budget, &mut test, &|p| (p.0 - minx, p.1 - miny));
        try_map(&mut pts, &mut budget, &mut test, &|p| (p.0 - minx, p.1));
        try_map(&mut pts, &mut budget, &mut test, &|p| (p.0, p.1 - miny));
    }
    for _ in 0..8 {
        if !try_map(&mut pts, &mut budget, &mut test, &|p| ((p.0 / 2.0).trunc(), (p.1 / 2.0).trunc())) {
            break;
        }
    }
    let all_int = pts.iter().all(|p| p.0.fract() == 0.0 && p.1.fract() == 0.0 && p.0.abs() < 1e6 && p.1.abs() < 1e6);
    if all_int {
        let mut progress = true;
        while progress && budget > 0 {
            progress = false;
            for i in 0..pts.len() {
                for c in 0..2 {
                    let cur = if c == 0 { pts[i].0 } else { pts[i].1 };
                    if cur == 0.0 {
                        continue;
                    }
                    let step = cur.signum();
                    for cand_v in [0.0, (cur / 2.0).trunc(), cur - step] {
                        if cand_v == cur {
                            continue;
                        }
                        let mut cand = pts.clone();
                        if c == 0 {
                            cand[i].0 = cand_v;
                        } else {
                            cand[i].1 = cand_v;
                        }
                        if test(&cand, eps, &mut budget) {
                            pts = cand;
                            progress = true;
                            break;
                        }
                    }
                }
            }
        }
    }
    // 4. one more deletion pass (coordinate changes can make points redundant)
    let mut i = 0;
    while i < pts.len() && pts.len() > 1 {
        let mut cand = pts.clone();
        cand.remove(i);
        if test(&cand, eps, &mut budget) {
            pts = cand;
        } else {
            i += 1;
        }
    }
    // 5. canonical order if the order does not matter for the failure
    let mut sorted = pts.clone();
    sorted.sort_by(|a, b| a.0.total_cmp(&b.0).then(a.1.total_cmp(&b.1)));
    if sorted != pts && test(&sorted, eps, &mut budget) {
        pts = sorted;
    }
    (pts, eps)
}

// ------------------------------------------------------------ generation

fn pick_n(rng: &mut Rng) -> usize {
    match rng.below(10) {
        0 => rng.urange(0, 3),
        1..=4 => rng.urange(3, 12),
        5..=7 => rng.urange(8, 60),
        _ => rng.urange(40, 200),
    }
}

/// A base set on a fixed-point grid (multiples of 2^-10, |v| <= 1024), so that
/// power-of-two rescaling is exact.
fn gen_base(rng: &mut Rng, n: usize) -> (&'static str, Vec<P>) {
    let q = |v: f64| -> f32 { ((v * 1024.0).round() / 1024.0) as f32 };
    match rng.below(12) {
        0 => {
            let r = *rng.choose(&[1i64, 2, 3, 5, 10, 30, 64]);
            ("int_small", (0..n).map(|_| (rng.range(-r, r) as f32, rng.range(-r, r) as f32)).collect())
        }
        1 => {
            let r = *rng.choose(&[100i64, 500, 1000]);
            ("int_mid", (0..n).map(|_| (rng.range(-r, r) as f32, rng.range(-r, r) as f32)).collect())
        }
        2 => {
            // grid points (all of a w x h grid, shuffled, truncated / repeated to n)
            let (w, h) = (rng.urange(1, 8), rng.urange(1, 8));
            let mut g: Vec<P> = (0..w * h).map(|i| ((i % w) as f32, (i / w) as f32)).collect();
            rng.shuffle(&mut g);
            let mut v = Vec::new();
            while v.len() < n {
                v.push(g[v.len() % g.len()]);
            }
            ("grid", v)
        }
        3 => {
            // exactly collinear integer points, optionally plus off-line points
            let (ox, oy) = (rng.range(-20, 20), rng.range(-20, 20));
            let (dx, dy) = loop {
                let d = (rng.range(-5, 5), rng.range(-5, 5));
                if d != (0, 0) {
                    break d;
                }
            };
            let kmax = *rng.choose(&[2i64, 5, 8]);
            let mut v: Vec<P> = (0..n)
                .map(|_| {
                    let k = rng.range(-kmax, kmax);
                    ((ox + k * dx) as f32, (oy + k * dy) as f32)
                })
                .collect();
            let extra = rng.below(3).min(v.len());
            for _ in 0..extra {
                let i = rng.below(v.len());
                v[i] = (rng.range(-30, 30) as f32, rng.range(-30, 30) as f32);
            }
            ("collinear_int", v)
        }
        4 => {
            // nearly collinear float points
            let (ox, oy) = (rng.unit_f64() * 100.0 - 50.0, rng.unit_f64() * 100.0 - 50.0);
            let a = rng.unit_f64() * std::f64::consts::TAU;
            let v = (0..n)
                .map(|_| {
                    let t = rng.unit_f64() * 200.0 - 100.0;
                    (q(ox + t * a.cos()), q(oy + t * a.sin()))
                })
                .collect();
            ("collinear_float", v)
        }
        5 => {
            // few distinct points, many duplicates
            let k = rng.urange(1, 5);
            let d: Vec<P> = (0..k).map(|_| (rng.range(-10, 10) as f32, rng.range(-10, 10) as f32)).collect();
            ("duplicates", (0..n).map(|_| *rng.choose(&d)).collect())
        }
        6 => {
            // circle / ellipse, in order or shuffled, float or rounded to the pixel grid
            let (cx, cy) = (rng.unit_f64() * 40.0 - 20.0, rng.unit_f64() * 40.0 - 20.0);
            let (rx, ry) = (1.0 + rng.unit_f64() * 100.0, if rng.bool() { 0.0 } else { 1.0 + rng.unit_f64() * 100.0 });
            let ry = if ry == 0.0 { rx } else { ry };
            let round = rng.bool();
            let mut v: Vec<P> = (0..n)
                .map(|i| {
                    let a = i as f64 / n.max(1) as f64 * std::f64::consts::TAU;
                    let (x, y) = (cx + rx * a.cos(), cy + ry * a.sin());
                    if round { (x.round() as f32, y.round() as f32) } else { (q(x), q(y)) }
                })
                .collect();
            if rng.bool() {
                rng.shuffle(&mut v);
            }
            ("circle", v)
        }
        7 => ("float_uniform", (0..n).map(|_| (q(rng.unit_f64() * 200.0 - 100.0), q(rng.unit_f64() * 200.0 - 100.0))).collect()),
        8 => {
            // star-shaped simple polygon, vertices in order
            let (cx, cy) = (rng.range(-50, 50) as f64, rng.range(-50, 50) as f64);
            let r = 2.0 + rng.unit_f64() * 200.0;
            let mut angles: Vec<f64> = (0..n).map(|_| rng.unit_f64() * std::f64::consts::TAU).collect();
            angles.sort_by(|a, b| a.total_cmp(b));
            if rng.bool() {
                angles.reverse();
            }
            let round = rng.bool();
            let v = angles
                .iter()
                .map(|a| {
                    let rr = r * (0.3 + 0.7 * rng.unit_f64());
                    let (x, y) = (cx + rr * a.cos(), cy + rr * a.sin());
                    if round { (x.round() as f32, y.round() as f32) } else { (q(x), q(y)) }
                })
                .collect();
            ("star_polygon", v)
        }
        9 => {
            // outline of an axis-aligned rectangle, pixel by pixel (what
            // find_contours produces), starting anywhere
            let (w, h) = (rng.urange(1, 30) as i64, rng.urange(1, 30) as i64);
            let (ox, oy) = (rng.range(-10, 40), rng.range(-10, 40));
            let mut v: Vec<P> = Vec::new();
            for y in 0..h {
                v.push((ox as f32, (oy + y) as f32));
            }
            for x in 1..w {
                v.push(((ox + x) as f32, (oy + h - 1) as f32));
            }
            for y in (0..h - 1).rev() {
                if w > 1 {
                    v.push(((ox + w - 1) as f32, (oy + y) as f32));
                }
            }
            for x in (1..w - 1).rev() {
                if h > 1 {
                    v.push(((ox + x) as f32, oy as f32));
                }
            }
            let k = rng.below(v.len().max(1));
            v.rotate_left(k);
            v.truncate(n.max(1).min(200));
            ("rect_outline", v)
        }
        10 => {
            // clusters: two tight clusters far apart plus stragglers
            let c: Vec<(f64, f64)> = (0..2).map(|_| (rng.unit_f64() * 1000.0 - 500.0, rng.unit_f64() * 1000.0 - 500.0)).collect();
            let v = (0..n)
                .map(|_| {
                    let k = rng.below(2);
                    (q(c[k].0 + rng.unit_f64() * 0.5), q(c[k].1 + rng.unit_f64() * 0.5))
                })
                .collect();
            ("clusters", v)
        }
        _ => {
            // zig-zag polyline (the typical simplification input)
            let amp = *rng.choose(&[0.0, 0.25, 1.0, 3.0]);
            let v = (0..n).map(|i| (i as f32, q(amp * if i % 2 == 0 { 1.0 } else { -1.0 } * rng.unit_f64()))).collect();
            ("zigzag", v)
        }
    }
}

fn gen_set(rng: &mut Rng) -> (String, Vec<P>) {
    let n = pick_n(rng);
    let (base, mut pts) = gen_base(rng, n);
    let tr = match rng.below(40) {
        0..=19 => "plain",
        20..=23 => "tiny_pow2",
        24..=27 => "tiny_pow10",
        28..=31 => "huge_pow2",
        32..=34 => "huge_pow10",
        35..=37 => "offset",
        38 => "extreme_tiny",
        _ => "extreme_huge",
    };
    let mul = |pts: &mut Vec<P>, f: f32| {
        for p in pts.iter_mut() {
            *p = (p.0 * f, p.1 * f);
        }
    };
    match tr {
        "tiny_pow2" => mul(&mut pts, 2f32.powi(-(rng.urange(8, 38) as i32))),
        "tiny_pow10" => mul(&mut pts, 10f32.powi(-(rng.urange(3, 11) as i32))),
        "huge_pow2" => mul(&mut pts, 2f32.powi(rng.urange(6, 19) as i32)),
        "huge_pow10" => mul(&mut pts, 10f32.powi(rng.urange(2, 5) as i32)),
        "offset" => {
            let o = 10f32.powi(rng.urange(3, 7) as i32);
            let (ox, oy) = (if rng.bool() { o } else { -o }, if rng.bool() { o } else { 0.0 });
            for p in pts.iter_mut() {
                *p = (p.0 + ox, p.1 + oy);
            }
        }
        "extreme_tiny" => mul(&mut pts, 1e-30),
        "extreme_huge" => mul(&mut pts, 1e28),
        _ => {}
    }
    (format!("{}/{}", base, tr), pts)
}

fn gen_eps(rng: &mut Rng, pts: &[P]) -> (f32, &'static str) {
    let m = domain(pts).m as f32;
    match rng.below(8) {
        0 => (0.0, "zero"),
        1 => (m * 1e-6, "tiny"),
        2 | 3 => (m * rng.f32_in(0.001, 0.1), "small"),
        4 => (m * rng.f32_in(0.1, 1.0), "medium"),
        5 => (m * rng.f32_in(1.0, 10.0) + 1.0, "larger_than_extent"),
        6 => (*rng.choose(&[0.5f32, 1.0, 1.5, 2.0]), "pixel"),
        _ => (*rng.choose(&[1e30f32, f32::INFINITY, f32::MAX]), "huge"),
    }
}

// ------------------------------------------------------------ driver

fn witness(algo: Algo, pts: &[P], eps: f32, origin: &str) -> Json {
    json!({
        "algo": algo.name(),
        "pts": fmt_pts(pts),
        "pts_bits": pts.iter().map(|p| format!("{:08x}{:08x}", p.0.to_bits(), p.1.to_bits())).collect::<Vec<_>>().join(""),
        "eps": fmt_f(eps),
        "eps_bits": format!("{:08x}", eps.to_bits()),
        "origin": origin,
    })
}

/// Execute one (algorithm, point set, epsilon) case and record everything.
fn run_case(rep: &mut Report, algo: Algo, pts: &[P], eps: f32, class: &str, origin: &str, do_shrink: bool) {
    rep.eval();
    rep.count(&format!("algo:{}", algo.name()));
    let dom = domain(pts);
    let out = check(algo, pts, eps);
    if non_collinear(pts) && !dom.extreme {
        let bits: Vec<(u32, u32)> = pts.iter().map(|p| (p.0.to_bits(), p.1.to_bits())).collect();
        rep.nontrivial(&(algo, bits, eps.to_bits()));
    }
    rep.max("max_points", pts.len() as u64);
    match out {
        Outcome::Ok(f) => {
            if f.degenerate {
                rep.count(&format!("degenerate_output:{}", algo.name()));
            }
            if dom.extreme {
                rep.count("extreme_scale_cases_ok");
            } else if algo == Algo::Hull {
                rep.count(if f.exact { "hull_decided_exact_i128" } else { "hull_decided_f64_tolerance" });
                rep.max("max_hull_vertices", f.out_len as u64);
            }
            if algo.uses_eps() {
                rep.add("simplify_points_removed", f.removed as u64);
                if f.removed == 0 {
                    rep.count("simplify_kept_everything");
                }
                if f.last_dropped {
                    rep.count("observed:polyline_last_point_not_kept");
                }
            }
            if rep.wants_sample() && pts.len() >= 4 && pts.len() <= 12 && non_collinear(pts) && rep.evaluations % 7 == 0 {
                rep.sample(|| json!({"algo": algo.name(), "class": class, "pts": fmt_pts(pts), "eps": fmt_f(eps), "output_len": f.out_len}));
            }
        }
        Outcome::Panic(msg) => {
            // Not forbidden by the statement: no result.
            rep.count(&format!("no_result_panic:{}:{}", algo.name(), panic_class(&msg)));
        }
        Outcome::Fail(f) => {
            if dom.extreme {
                rep.count(&format!("extreme_scale_disagreement:{}", f.kind));
                return;
            }
            rep.count(&format!("violating_cases:{}", f.kind));
            // Shrinking is the expensive part: keep a few witnesses per
            // (algorithm, kind) and only count the rest.
            let key = format!("reported:{}:{}", algo.name(), f.kind);
            if do_shrink && *rep.counters.get(&key).unwrap_or(&0) >= 2 {
                rep.suppressed_violations += 1;
                return;
            }
            rep.count(&key);
            let (sp, se) = if do_shrink { shrink(algo, pts.to_vec(), eps, f.kind) } else { (pts.to_vec(), eps) };
            let detail = match check(algo, &sp, se) {
                Outcome::Fail(f2) if f2.kind == f.kind => f2.detail,
                _ => f.detail.clone(),
            };
            let sig = if algo.uses_eps() {
                format!("C35|{}|{}|eps={}|pts={}", algo.name(), f.kind, fmt_f(se), fmt_pts(&sp))
            } else {
                format!("C35|{}|{}|pts={}", algo.name(), f.kind, fmt_pts(&sp))
            };
            rep.violation(
                sig,
                format!("{}({} points{}): {}", algo.name(), sp.len(), if algo.uses_eps() { format!(", epsilon {}", fmt_f(se)) } else { String::new() }, detail),
                {
                    let mut w = witness(algo, &sp, se, origin);
                    w["class"] = json!(class);
                    w["unshrunk_points"] = json!(pts.len());
                    w
                },
            );
        }
    }
}

fn run_set(rep: &mut Report, rng: &mut Rng, pts: &[P], class: &str, origin: &str) {
    rep.count(&format!("class:{}", class));
    if pts.len() < 3 || !non_collinear(pts) {
        rep.count("degenerate_inputs(<3 points or all collinear)");
    }
    run_case(rep, Algo::Hull, pts, 0.0, class, origin, true);
    run_case(rep, Algo::Rect, pts, 0.0, class, origin, true);
    for _ in 0..2 {
        let (eps, ec) = gen_eps(rng, pts);
        rep.count(&format!("epsilon:{}", ec));
        run_case(rep, Algo::Polyline, pts, eps, class, origin, true);
        run_case(rep, Algo::Polygon, pts, eps, class, origin, true);
    }
}

pub fn run(args: &Args) {
    let mut rep = Report::new(
        "C35",
        "imgcheck c35",
        args,
        "every ordered point sequence of <=4 points on a 4x4 integer grid and of 5 points on a 3x3 grid (thorough: also 5 on 4x4, 6 on 3x3), then random sets of 0-200 points (small/medium integers, grids, exactly and nearly collinear, duplicates, circles, uniform floats, star polygons, pixel outlines, clusters, zig-zags; rescaled by 2^-38..2^18 / 10^-10..10^4 or offset by 10^3..10^6; 1e-30/1e28 scales run but only counted), each fed to convex_hull, min_area_rect and simplify_polyline/simplify_polygon with epsilons 0..inf; hull decided in exact i128 arithmetic for integer coordinates |v|<=64 and in f64 with tolerance 5e-3*max|coord| otherwise; non-trivial = at least 3 non-collinear input points; distinct by (algorithm, points, epsilon)",
    );
    rep.max_samples = 8;

    if let Some(path) = &args.replay {
        let w: Json = serde_json::from_str(&std::fs::read_to_string(path).unwrap()).unwrap();
        let w = if w.get("witness").is_some() { w["witness"].clone() } else { w };
        let algo = Algo::from_name(w["algo"].as_str().unwrap()).expect("algo");
        let pts = parse_pts(w["pts"].as_str().unwrap());
        let eps: f32 = match w["eps_bits"].as_str() {
            Some(h) => f32::from_bits(u32::from_str_radix(h, 16).unwrap()),
            None => w["eps"].as_str().map(|s| s.parse().unwrap()).unwrap_or(0.0),
        };
        run_case(&mut rep, algo, &pts, eps, "replay", "replay", false);
        rep.nontrivial(&0u8);
        rep.finish();
        return;
    }

    let mut rng = Rng::derive(args.seed, 0xC35 + args.shard as u64);

    // ---- exhaustive small grids (deterministic order, independent of seed)
    let mut plans: Vec<(usize, usize)> = vec![(4, 0), (4, 1), (4, 2), (4, 3), (4, 4), (3, 5)];
    if args.thorough {
        plans.push((4, 5));
        plans.push((3, 6));
    }
    let mut idx = 0u64;
    for &(g, n) in &plans {
        let cells = g * g;
        let total = (cells as u64).pow(n as u32);
        for code in 0..total {
            idx += 1;
            if (idx as usize) % args.shards != args.shard {
                continue;
            }
            let mut c = code;
            let pts: Vec<P> = (0..n)
                .map(|_| {
                    let k = (c % cells as u64) as usize;
                    c /= cells as u64;
                    ((k % g) as f32, (k / g) as f32)
                })
                .collect();
            let class = format!("exhaustive_{}x{}_n{}", g, g, n);
            rep.count("exhaustive_grid_sets");
            run_case(&mut rep, Algo::Hull, &pts, 0.0, &class, "grid", true);
            run_case(&mut rep, Algo::Rect, &pts, 0.0, &class, "grid", true);
            for eps in [0.0f32, 0.5, 1.0] {
                run_case(&mut rep, Algo::Polyline, &pts, eps, &class, "grid", true);
                if n > 0 {
                    run_case(&mut rep, Algo::Polygon, &pts, eps, &class, "grid", true);
                }
            }
        }
    }
    rep.note("exhaustive_grids", json!(plans.iter().map(|(g, n)| format!("{} points on {}x{}", n, g, g)).collect::<Vec<_>>()));

    // ---- documented / observed corner: simplify_polygon(&[]) and negative epsilon
    if args.shard == 0 {
        for (algo, pts, eps) in [(Algo::Polygon, vec![], 1.0f32), (Algo::Polyline, vec![(0.0, 0.0), (1.0, 1.0)], -1.0), (Algo::Polyline, vec![(0.0, 0.0), (1.0, 1.0)], f32::NAN)] {
            run_case(&mut rep, algo, &pts, eps, "corner", "corner", false);
        }
    }

    // ---- random sets
    let n_sets = args.budget(24_000, 6_000_000);
    for i in 0..n_sets {
        let (class, pts) = gen_set(&mut rng);
        let origin = format!("seed={} shard={}/{} set={}", args.seed, args.shard, args.shards, i);
        run_set(&mut rep, &mut rng, &pts, &class, &origin);
    }
    rep.add("random_sets", n_sets);

    if rep.nontrivial_count() == 0 {
        rep.inconclusive = Some("no non-trivial case was generated".into());
    }
    rep.finish();
}
