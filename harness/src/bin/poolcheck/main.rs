//! poolcheck: runtime monitors for `rten::BufferPool` (C23).
//!
//!   poolcheck c23   multi-threaded alloc/add/drop histories over one pool,
//!                   watched by an ownership ledger, a counting global
//!                   allocator and (in other build flavours) ASan/TSan/Miri.
//!
//! Environment: `VERIF_TRACK=0` switches the counting allocator's table off
//! (for the ASan/LSan run, so that the tracker neither hides leaks nor keeps
//! the process alive after a double free).
use std::collections::{HashMap, HashSet};
use std::mem::MaybeUninit;
use std::sync::Mutex;
use std::sync::atomic::{AtomicBool, AtomicU64, AtomicUsize, Ordering::SeqCst};

use rten::{BufferPool, ExtractBuffer, PoolRef};
use vcommon::*;

mod track;

#[global_allocator]
static GLOBAL: track::Tracker = track::Tracker;

// ------------------------------------------------------------------ element types

macro_rules! define_types {
    ($(($V:ident, $T:ty, $name:literal)),* $(,)?) => {
        #[derive(Clone, Copy, PartialEq, Eq, Hash, Debug)]
        pub enum Ty { $($V),* }

        pub const ALL_TYPES: &[Ty] = &[$(Ty::$V),*];

        impl Ty {
            pub fn name(self) -> &'static str { match self { $(Ty::$V => $name),* } }
            pub fn size(self) -> usize { match self { $(Ty::$V => std::mem::size_of::<$T>()),* } }
            pub fn align(self) -> usize { match self { $(Ty::$V => std::mem::align_of::<$T>()),* } }
            pub fn parse(s: &str) -> Ty {
                match s { $($name => Ty::$V,)* other => panic!("unknown element type {:?}", other) }
            }
        }

        /// A `Vec<T>` of one of the element types.
        pub enum AnyVec { $($V(Vec<$T>)),* }

        impl AnyVec {
            fn pool_alloc(pool: &BufferPool, ty: Ty, cap: usize) -> AnyVec {
                match ty { $(Ty::$V => AnyVec::$V(pool.alloc::<$T>(cap))),* }
            }
            fn fresh(ty: Ty, cap: usize) -> AnyVec {
                match ty { $(Ty::$V => AnyVec::$V(Vec::<$T>::with_capacity(cap))),* }
            }
            fn ptr_cap(&mut self) -> (*mut u8, usize) {
                match self { $(AnyVec::$V(v) => (v.as_mut_ptr() as *mut u8, v.capacity())),* }
            }
            /// The whole capacity as bytes (the vec must have length 0).
            fn bytes(&mut self) -> &mut [MaybeUninit<u8>] {
                match self {
                    $(AnyVec::$V(v) => {
                        assert_eq!(v.len(), 0);
                        let s = v.spare_capacity_mut();
                        let n = s.len() * std::mem::size_of::<$T>();
                        // Safety: same allocation, same extent, u8 has no alignment or validity needs.
                        unsafe { std::slice::from_raw_parts_mut(s.as_mut_ptr() as *mut MaybeUninit<u8>, n) }
                    }),*
                }
            }
            /// `set_len(capacity)`; every byte was initialised by `fill`.
            fn set_full(&mut self) {
                match self { $(AnyVec::$V(v) => unsafe { let c = v.capacity(); v.set_len(c) }),* }
            }
            fn give(self, pool: &BufferPool, how: Give) {
                match self {
                    $(AnyVec::$V(v) => match how {
                        Give::Add | Give::AddFull => pool.add(v),
                        Give::Extract => { if let Some(b) = v.extract_buffer() { pool.add(b) } }
                        Give::PoolRef => drop(PoolRef::new(pool, v)),
                        Give::Drop => drop(v),
                    }),*
                }
            }
        }
    };
}

define_types! {
    (U8, u8, "u8"), (I8, i8, "i8"), (U16, u16, "u16"), (F32, f32, "f32"), (I32, i32, "i32"),
    (U32, u32, "u32"), (U64, u64, "u64"), (F64, f64, "f64"), (U8x3, [u8; 3], "[u8;3]"),
    (F32x4, [f32; 4], "[f32;4]"), (U128, u128, "u128"),
}

// ------------------------------------------------------------------ histories

#[derive(Clone, Copy, PartialEq, Eq, Hash, Debug)]
pub enum Give {
    /// `pool.add(vec)`
    Add,
    /// `vec.set_len(capacity); pool.add(vec)`
    AddFull,
    /// `pool.add(vec.extract_buffer())`
    Extract,
    /// `drop(PoolRef::new(&pool, vec))`
    PoolRef,
    /// `drop(vec)`
    Drop,
}

#[derive(Clone, Copy, PartialEq, Eq, Hash, Debug)]
pub enum Op {
    /// `pool.alloc::<T>(cap)`; the thread then holds the buffer.
    Alloc(Ty, usize),
    /// `Vec::<T>::with_capacity(cap)`; held like a pool allocation, so that it
    /// can be added to the pool later.
    Fresh(Ty, usize),
    /// Give back the `which % held`-th held buffer.
    Give(Give, usize),
    /// Hand a held buffer to whichever thread receives next.
    Send(usize),
    Recv,
    /// `pool.len()` (takes the pool lock).
    Len,
}

impl Op {
    fn text(&self) -> String {
        match self {
            Op::Alloc(t, c) => format!("alloc:{}:{}", t.name(), c),
            Op::Fresh(t, c) => format!("fresh:{}:{}", t.name(), c),
            Op::Give(g, w) => format!(
                "{}:{}",
                match g {
                    Give::Add => "add",
                    Give::AddFull => "addfull",
                    Give::Extract => "extract",
                    Give::PoolRef => "poolref",
                    Give::Drop => "drop",
                },
                w
            ),
            Op::Send(w) => format!("send:{}", w),
            Op::Recv => "recv".to_string(),
            Op::Len => "len".to_string(),
        }
    }

    fn parse(s: &str) -> Op {
        let p: Vec<&str> = s.split(':').collect();
        let n = |i: usize| -> usize { p[i].parse().expect("number in op") };
        match p[0] {
            "alloc" => Op::Alloc(Ty::parse(p[1]), n(2)),
            "fresh" => Op::Fresh(Ty::parse(p[1]), n(2)),
            "add" => Op::Give(Give::Add, n(1)),
            "addfull" => Op::Give(Give::AddFull, n(1)),
            "extract" => Op::Give(Give::Extract, n(1)),
            "poolref" => Op::Give(Give::PoolRef, n(1)),
            "drop" => Op::Give(Give::Drop, n(1)),
            "send" => Op::Send(n(1)),
            "recv" => Op::Recv,
            "len" => Op::Len,
            other => panic!("unknown op {:?}", other),
        }
    }
}

#[derive(Clone, PartialEq, Eq, Hash, Debug)]
pub struct History {
    /// `None` = `BufferPool::new()` (128 bytes), `Some(n)` = `.with_min_size(n)`.
    min_size: Option<usize>,
    threads: Vec<Vec<Op>>,
    /// What each thread does with the buffers it still holds at the end:
    /// true = add them to the pool, false = drop them.
    end_add: Vec<bool>,
}

impl History {
    fn n_ops(&self) -> usize {
        self.threads.iter().map(|t| t.len()).sum()
    }

    fn to_json(&self) -> Json {
        json!({
            "min_size": self.min_size,
            "threads": self.threads.iter().map(|t| t.iter().map(|o| o.text()).collect::<Vec<_>>()).collect::<Vec<_>>(),
            "end_add": self.end_add,
        })
    }

    fn from_json(w: &Json) -> History {
        let threads: Vec<Vec<Op>> = w["threads"]
            .as_array()
            .expect("threads")
            .iter()
            .map(|t| t.as_array().unwrap().iter().map(|o| Op::parse(o.as_str().unwrap())).collect())
            .collect();
        let end_add = match w["end_add"].as_array() {
            Some(a) => a.iter().map(|b| b.as_bool().unwrap_or(true)).collect(),
            None => vec![true; threads.len()],
        };
        History { min_size: w["min_size"].as_u64().map(|n| n as usize), threads, end_add }
    }

    fn canonical(&self) -> String {
        let ms = match self.min_size {
            None => "default".to_string(),
            Some(n) => n.to_string(),
        };
        let ts: Vec<String> = self
            .threads
            .iter()
            .zip(&self.end_add)
            .map(|(t, e)| format!("[{}]{}", t.iter().map(|o| o.text()).collect::<Vec<_>>().join(","), if *e { "+add" } else { "+drop" }))
            .collect();
        format!("min_size={}|{}", ms, ts.join("||"))
    }
}

fn gen_cap(rng: &mut Rng, ty: Ty, min_size: usize, recent: &mut Vec<usize>, max_bytes: usize) -> usize {
    let sz = ty.size();
    let cap = match rng.below(10) {
        0 => 0,
        1..=3 => {
            // Around the min_size threshold (in bytes).
            let bytes = min_size as i64 + rng.range(-2 * sz as i64, 2 * sz as i64);
            let c = (bytes.max(0) as usize) / sz;
            (c + rng.below(2)).min(max_bytes.max(min_size + 2 * sz) / sz)
        }
        4..=6 if !recent.is_empty() => {
            // Around a capacity used recently (exercises best-fit choice).
            let bytes = *rng.choose(recent);
            ((bytes / sz) as i64 + rng.range(-2, 2)).max(0) as usize
        }
        _ => rng.urange(0, max_bytes / sz),
    };
    recent.push(cap * sz);
    if recent.len() > 8 {
        recent.remove(0);
    }
    cap
}

/// Miri runs 10^3-10^4x slower: 2 threads, 12 operations, small buffers of
/// one layout class, biased so that a pool hit is likely.
fn gen_history_miri(rng: &mut Rng) -> History {
    let min_size = *rng.choose(&[Some(0usize), Some(16), Some(32)]);
    let class: &[Ty] = match rng.below(5) {
        0 => &[Ty::U8, Ty::I8],
        1 => &[Ty::F32, Ty::I32, Ty::U32],
        2 => &[Ty::U64, Ty::F64],
        3 => &[Ty::F32x4, Ty::U128],
        _ => &[Ty::U16, Ty::U8x3, Ty::F32],
    };
    let caps = [8usize, 8, 9, 12, 16];
    let mut threads = Vec::new();
    for _ in 0..2 {
        let mut ops = Vec::new();
        let mut held = 0;
        for _ in 0..6 {
            let r = rng.below(10);
            if held == 0 || r < 5 {
                let ty = *rng.choose(class);
                let cap = if rng.chance(1, 10) { 0 } else { *rng.choose(&caps) };
                ops.push(if rng.chance(1, 8) { Op::Fresh(ty, cap) } else { Op::Alloc(ty, cap) });
                held += 1;
            } else if r < 9 {
                let g = *rng.choose(&[Give::Add, Give::Add, Give::AddFull, Give::PoolRef, Give::Extract, Give::Drop]);
                ops.push(Op::Give(g, rng.below(2)));
                held -= 1;
            } else if rng.bool() {
                ops.push(Op::Send(0));
                held -= 1;
            } else {
                ops.push(Op::Recv);
                held += 1;
            }
        }
        threads.push(ops);
    }
    History { min_size, threads, end_add: vec![true, rng.bool()] }
}

fn gen_history(rng: &mut Rng, miri: bool) -> History {
    if miri {
        return gen_history_miri(rng);
    }
    let n_threads = if miri { 2 } else { *rng.choose(&[1usize, 2, 2, 2, 3, 3, 4, 4]) };
    let total_ops = if miri { 12 } else { rng.urange(20, 200) };
    let min_size = if miri {
        *rng.choose(&[Some(0usize), Some(16), Some(48), None])
    } else {
        *rng.choose(&[None, None, Some(0), Some(0), Some(1), Some(16), Some(64), Some(100), Some(256), Some(1000)])
    };
    let ms = min_size.unwrap_or(128);
    let max_bytes = if miri { 160 } else { 2048 };

    // A palette of element types: one random type plus (usually) the types
    // that share its layout, plus one or two unrelated ones.
    let mut palette: Vec<Ty> = Vec::new();
    let first = *rng.choose(ALL_TYPES);
    palette.push(first);
    for &t in ALL_TYPES {
        if t != first && t.size() == first.size() && rng.chance(3, 4) {
            palette.push(t);
        }
    }
    for _ in 0..rng.urange(0, 2) {
        let t = *rng.choose(ALL_TYPES);
        if !palette.contains(&t) {
            palette.push(t);
        }
    }
    if rng.chance(1, 8) {
        palette = ALL_TYPES.to_vec();
    }

    let mut recent: Vec<usize> = Vec::new();
    let mut threads = Vec::new();
    for t in 0..n_threads {
        let n = total_ops / n_threads + if t < total_ops % n_threads { 1 } else { 0 };
        let mut ops = Vec::with_capacity(n);
        let mut held = 0usize; // estimate, only steers the generator
        for _ in 0..n {
            let r = rng.below(100);
            let op = if r < 42 || (held == 0 && r < 80) {
                let ty = *rng.choose(&palette);
                held += 1;
                if rng.chance(1, 7) {
                    Op::Fresh(ty, gen_cap(rng, ty, ms, &mut recent, max_bytes))
                } else {
                    Op::Alloc(ty, gen_cap(rng, ty, ms, &mut recent, max_bytes))
                }
            } else if r < 84 {
                held = held.saturating_sub(1);
                let g = match rng.below(12) {
                    0..=4 => Give::Add,
                    5..=6 => Give::AddFull,
                    7 => Give::Extract,
                    8..=9 => Give::PoolRef,
                    _ => Give::Drop,
                };
                Op::Give(g, rng.below(4))
            } else if r < 90 && n_threads > 1 {
                held = held.saturating_sub(1);
                Op::Send(rng.below(4))
            } else if r < 97 && n_threads > 1 {
                held += 1;
                Op::Recv
            } else {
                Op::Len
            };
            ops.push(op);
        }
        threads.push(ops);
    }
    let end_add = (0..n_threads).map(|_| rng.chance(2, 3)).collect();
    History { min_size, threads, end_add }
}

// ------------------------------------------------------------------ schedule perturbation

static IN_ALLOC: AtomicUsize = AtomicUsize::new(0);
static IN_ADD: AtomicUsize = AtomicUsize::new(0);
static CONT_ALLOC: AtomicU64 = AtomicU64::new(0);
static CONT_ANY: AtomicU64 = AtomicU64::new(0);
static HOOK_CALLS: AtomicU64 = AtomicU64::new(0);

thread_local! {
    static YSTATE: std::cell::Cell<u64> = const { std::cell::Cell::new(0) };
}

/// Seeded random yield / spin / short sleep. Does not allocate.
fn perturb() {
    let mut s = YSTATE.with(|c| c.get());
    if s == 0 {
        return;
    }
    s ^= s << 13;
    s ^= s >> 7;
    s ^= s << 17;
    YSTATE.with(|c| c.set(s));
    let r = s >> 11;
    match r % 16 {
        0..=6 => {}
        7..=11 => std::thread::yield_now(),
        12..=14 => {
            if cfg!(miri) {
                std::thread::yield_now();
            } else {
                for _ in 0..(r >> 8) % 400 {
                    std::hint::spin_loop();
                }
            }
        }
        _ => {
            if cfg!(miri) {
                std::thread::yield_now();
            } else {
                std::thread::sleep(std::time::Duration::from_micros(1 + (r >> 8) % 50));
            }
        }
    }
}

fn yield_hook(site: &'static str) {
    HOOK_CALLS.fetch_add(1, SeqCst);
    match site {
        "pool_alloc_enter" => {
            let a = IN_ALLOC.load(SeqCst);
            if a >= 2 {
                CONT_ALLOC.fetch_add(1, SeqCst);
            }
            if a + IN_ADD.load(SeqCst) >= 2 {
                CONT_ANY.fetch_add(1, SeqCst);
            }
        }
        "pool_add_enter" => {
            if IN_ALLOC.load(SeqCst) + IN_ADD.load(SeqCst) >= 2 {
                CONT_ANY.fetch_add(1, SeqCst);
            }
        }
        _ => {}
    }
    perturb();
}

// ------------------------------------------------------------------ ledger

#[derive(Clone, Debug)]
pub struct Viol {
    kind: &'static str,
    ty: Ty,
    detail: String,
}

struct Live {
    holder: u64,
    thread: usize,
    ty: Ty,
}

struct Ledger {
    /// Buffers currently held by a harness thread: pointer -> holder.
    live: HashMap<usize, Live>,
    /// Buffers given to the pool (pointer -> element type and capacity they
    /// had); the pool either keeps them or has freed them.
    given: HashMap<usize, (Ty, usize)>,
    /// Element type each pointer was last handed out as (for reports).
    last_ty: HashMap<usize, Ty>,
    next_holder: u64,
    order: u64,
    events: u64,
    viols: Vec<Viol>,
    hits: u64,
    hits_concurrent: u64,
    cross_type: Vec<(Ty, Ty)>,
    zero_cap_returns: u64,
    harness_error: Option<String>,
}

impl Ledger {
    fn event(&mut self, thread: usize) {
        self.order = (self.order ^ (thread as u64 + 1)).wrapping_mul(0x100000001b3);
        self.events += 1;
    }
}

fn mix(mut z: u64) -> u64 {
    z = (z ^ (z >> 30)).wrapping_mul(0xbf58476d1ce4e5b9);
    z = (z ^ (z >> 27)).wrapping_mul(0x94d049bb133111eb);
    z ^ (z >> 31)
}

fn pattern_byte(holder: u64, i: usize) -> u8 {
    (mix(holder.wrapping_mul(0x9e3779b97f4a7c15) ^ (i as u64 / 8)) >> (8 * (i % 8))) as u8
}

struct Held {
    vec: AnyVec,
    ty: Ty,
    ptr: usize,
    cap: usize,
    holder: u64,
    /// Registered in the ledger (false for zero-sized buffers).
    registered: bool,
}

struct Ctx<'a> {
    pool: &'a BufferPool,
    ledger: &'a Mutex<Ledger>,
    exchange: &'a Mutex<Vec<Held>>,
    active: &'a AtomicUsize,
    start: &'a AtomicBool,
    tracking: bool,
}

/// Register a buffer that a call just returned, check it, fill it.
fn acquire(ctx: &Ctx, tid: usize, mut vec: AnyVec, ty: Ty, requested: usize, from_pool: bool, fresh_alloc: bool) -> Option<Held> {
    let (p, cap) = vec.ptr_cap();
    let ptr = p as usize;
    let bytes = cap * ty.size();
    let others_active = ctx.active.load(SeqCst) > 1;
    let mut keep = true;
    let holder;
    {
        let mut l = ctx.ledger.lock().unwrap();
        l.event(tid);
        holder = l.next_holder;
        l.next_holder += 1;
        if cap < requested {
            l.viols.push(Viol { kind: "short_capacity", ty, detail: format!("requested capacity {} got {}", requested, cap) });
        }
        if ptr % ty.align() != 0 {
            l.viols.push(Viol { kind: "misaligned", ty, detail: format!("pointer {:#x} is not aligned to {}", ptr, ty.align()) });
        }
        if bytes == 0 {
            l.zero_cap_returns += 1;
        } else {
            if let Some(prev) = l.live.get(&ptr) {
                let d = format!(
                    "buffer {:#x} returned to thread {} as Vec<{}> while holder #{} (thread {}, Vec<{}>) still holds it",
                    ptr,
                    tid,
                    ty.name(),
                    prev.holder,
                    prev.thread,
                    prev.ty.name()
                );
                l.viols.push(Viol { kind: "double_handout", ty, detail: d });
                keep = false;
            }
            if keep && ctx.tracking && !track::table_overflowed() {
                match track::lookup(p) {
                    Some((_, _, false)) => {
                        // Every buffer the workload owns was allocated inside
                        // `track::scope`; an untagged block belongs to somebody else.
                        let d = format!(
                            "buffer {:#x} handed out as Vec<{}> is not an allocation made for the pool's users (the block it was in was freed and the address re-used)",
                            ptr,
                            ty.name()
                        );
                        l.viols.push(Viol { kind: "dangling_handout", ty, detail: d });
                        keep = false;
                    }
                    Some((size, align, _)) => {
                        if size != bytes || align != ty.align() {
                            // Do not write through (or later free) a Vec whose
                            // layout is not the block's layout.
                            keep = false;
                            let d = format!(
                                "Vec<{}> with capacity {} (layout size {} align {}) handed out over a block allocated with size {} align {}",
                                ty.name(),
                                cap,
                                bytes,
                                ty.align(),
                                size,
                                align
                            );
                            l.viols.push(Viol { kind: "layout_mismatch_at_handout", ty, detail: d });
                        }
                    }
                    None => {
                        let d = format!("buffer {:#x} handed out as Vec<{}> is not a live allocation (it was freed)", ptr, ty.name());
                        l.viols.push(Viol { kind: "dangling_handout", ty, detail: d });
                        keep = false;
                    }
                }
            }
            if keep {
                let hit = from_pool && ctx.tracking && !fresh_alloc;
                if hit {
                    l.hits += 1;
                    if others_active {
                        l.hits_concurrent += 1;
                    }
                    match l.given.remove(&ptr) {
                        Some((prev_ty, _)) => {
                            if prev_ty != ty {
                                l.cross_type.push((prev_ty, ty));
                            }
                        }
                        None => {
                            let d = format!(
                                "buffer {:#x} was served from the pool as Vec<{}> but no holder had given it to the pool since it was last handed out",
                                ptr,
                                ty.name()
                            );
                            l.viols.push(Viol { kind: "double_handout", ty, detail: d });
                        }
                    }
                } else {
                    // Freshly allocated (or unknown): if the address was given
                    // to the pool earlier, the pool must have freed it since.
                    l.given.remove(&ptr);
                }
                l.live.insert(ptr, Live { holder, thread: tid, ty });
                l.last_ty.insert(ptr, ty);
            }
        }
    }
    if !keep {
        // Do not touch or free memory that somebody else owns.
        std::mem::forget(vec);
        return None;
    }
    for (i, b) in vec.bytes().iter_mut().enumerate() {
        b.write(pattern_byte(holder, i));
    }
    Some(Held { vec, ty, ptr, cap, holder, registered: bytes != 0 })
}

/// Check the pattern and take the buffer out of the ledger; afterwards the
/// caller gives it to the pool or frees it.
fn release(ctx: &Ctx, tid: usize, h: &mut Held, to_pool: bool) {
    let mut bad: Option<(usize, u8, u8)> = None;
    for (i, b) in h.vec.bytes().iter().enumerate() {
        // Safety: `acquire` wrote every byte.
        let got = unsafe { b.assume_init() };
        let want = pattern_byte(h.holder, i);
        if got != want {
            bad = Some((i, want, got));
            break;
        }
    }
    let mut l = ctx.ledger.lock().unwrap();
    l.event(tid);
    if let Some((i, want, got)) = bad {
        let d = format!(
            "holder #{} of Vec<{}> capacity {} at {:#x}: byte {} is {:#04x}, expected {:#04x} (somebody else wrote to the buffer)",
            h.holder,
            h.ty.name(),
            h.cap,
            h.ptr,
            i,
            got,
            want
        );
        l.viols.push(Viol { kind: "pattern_corrupted", ty: h.ty, detail: d });
    }
    if h.registered {
        match l.live.remove(&h.ptr) {
            Some(rec) if rec.holder == h.holder => {}
            _ => l.harness_error = Some(format!("ledger lost holder #{} of {:#x}", h.holder, h.ptr)),
        }
        if to_pool {
            l.given.insert(h.ptr, (h.ty, h.cap));
        }
    }
}

fn give(ctx: &Ctx, tid: usize, mut h: Held, how: Give) {
    release(ctx, tid, &mut h, how != Give::Drop);
    if how == Give::AddFull {
        h.vec.set_full();
    }
    if how == Give::Drop {
        track::scope(|| h.vec.give(ctx.pool, how));
    } else {
        IN_ADD.fetch_add(1, SeqCst);
        track::scope(|| h.vec.give(ctx.pool, how));
        IN_ADD.fetch_sub(1, SeqCst);
    }
}

fn worker(ctx: &Ctx, tid: usize, ops: &[Op], end_add: bool, seed: u64) {
    YSTATE.with(|c| c.set(mix(seed ^ (tid as u64 + 1).wrapping_mul(0x9e3779b97f4a7c15)) | 1));
    while !ctx.start.load(SeqCst) {
        std::thread::yield_now();
    }
    let mut held: Vec<Held> = Vec::new();
    for op in ops {
        match *op {
            Op::Alloc(ty, cap) => {
                let before = track::thread_allocs();
                IN_ALLOC.fetch_add(1, SeqCst);
                let v = track::scope(|| AnyVec::pool_alloc(ctx.pool, ty, cap));
                IN_ALLOC.fetch_sub(1, SeqCst);
                let fresh = track::thread_allocs() != before;
                if let Some(h) = acquire(ctx, tid, v, ty, cap, true, fresh) {
                    held.push(h);
                }
            }
            Op::Fresh(ty, cap) => {
                let v = track::scope(|| AnyVec::fresh(ty, cap));
                if let Some(h) = acquire(ctx, tid, v, ty, cap, false, true) {
                    held.push(h);
                }
            }
            Op::Give(how, which) => {
                if !held.is_empty() {
                    let h = held.remove(which % held.len());
                    give(ctx, tid, h, how);
                }
            }
            Op::Send(which) => {
                if !held.is_empty() {
                    let h = held.remove(which % held.len());
                    ctx.exchange.lock().unwrap_or_else(|e| e.into_inner()).push(h);
                }
            }
            Op::Recv => {
                let got = ctx.exchange.lock().unwrap_or_else(|e| e.into_inner()).pop();
                if let Some(h) = got {
                    held.push(h);
                }
            }
            Op::Len => {
                let _ = ctx.pool.len();
            }
        }
        perturb();
    }
    for h in held.drain(..) {
        give(ctx, tid, h, if end_add { Give::Add } else { Give::Drop });
    }
    ctx.active.fetch_sub(1, SeqCst);
    YSTATE.with(|c| c.set(0));
}

#[derive(Default)]
struct RunOut {
    viols: Vec<Viol>,
    pool_hits: u64,
    pool_allocs: u64,
    pool_len_at_end: u64,
    ledger_hits: u64,
    hits_concurrent: u64,
    cross_type: Vec<(Ty, Ty)>,
    order: u64,
    events: u64,
    cont_alloc: u64,
    cont_any: u64,
    zero_cap_returns: u64,
    harness_error: Option<String>,
}

/// Execute one history on real threads sharing one pool.
fn run_history(h: &History, seed: u64) -> RunOut {
    let tracking = track::enabled();
    if tracking {
        // Errors or tagged blocks left over from harness activity between
        // histories would be misattributed.
        let _ = track::take_errors();
        if track::workload_live() != 0 {
            track::forget_workload_blocks();
        }
    }
    let c0 = (CONT_ALLOC.load(SeqCst), CONT_ANY.load(SeqCst));
    let pool = match h.min_size {
        None => BufferPool::new(),
        Some(n) => BufferPool::new().with_min_size(n),
    };
    let ledger = Mutex::new(Ledger {
        live: HashMap::new(),
        given: HashMap::new(),
        last_ty: HashMap::new(),
        next_holder: 1,
        order: 0xcbf29ce484222325,
        events: 0,
        viols: Vec::new(),
        hits: 0,
        hits_concurrent: 0,
        cross_type: Vec::new(),
        zero_cap_returns: 0,
        harness_error: None,
    });
    let exchange: Mutex<Vec<Held>> = Mutex::new(Vec::new());
    let active = AtomicUsize::new(h.threads.len());
    let start = AtomicBool::new(false);
    let ctx = Ctx { pool: &pool, ledger: &ledger, exchange: &exchange, active: &active, start: &start, tracking };

    std::thread::scope(|s| {
        for (tid, ops) in h.threads.iter().enumerate() {
            let ctx = &ctx;
            let end_add = h.end_add.get(tid).copied().unwrap_or(true);
            s.spawn(move || {
                // A panic inside the pool (stale index, layout assertion, poisoned
                // lock after another thread's panic) is an observation, not a
                // harness failure.
                let r = std::panic::catch_unwind(std::panic::AssertUnwindSafe(|| worker(ctx, tid, ops, end_add, seed)));
                if let Err(p) = r {
                    let msg = p.downcast_ref::<String>().cloned().or_else(|| p.downcast_ref::<&str>().map(|s| s.to_string())).unwrap_or_else(|| "panic".into());
                    let mut l = ctx.ledger.lock().unwrap_or_else(|e| e.into_inner());
                    if !msg.contains("PoisonError") || l.viols.is_empty() {
                        l.viols.push(Viol { kind: "panic_in_pool_call", ty: Ty::F32, detail: format!("thread {} panicked inside a buffer pool call: {}", tid, msg) });
                    }
                    drop(l);
                    ctx.active.fetch_sub(1, SeqCst);
                    YSTATE.with(|c| c.set(0));
                }
            });
        }
        start.store(true, SeqCst);
    });

    // A panic inside a pool call poisons the pool's lock and leaves the history
    // unfinished: report what was seen and abandon this pool.
    {
        let mut l = ledger.lock().unwrap_or_else(|e| e.into_inner());
        if l.viols.iter().any(|v| v.kind == "panic_in_pool_call") {
            let mut out = RunOut::default();
            out.viols = std::mem::take(&mut l.viols);
            out.viols.retain(|v| v.kind == "panic_in_pool_call");
            out.viols.truncate(1);
            out.events = l.events;
            out.order = l.order;
            drop(l);
            std::mem::forget(pool);
            if tracking {
                let _ = track::take_errors();
                track::forget_workload_blocks();
            }
            return out;
        }
    }

    // Buffers still in transit between threads: free them here.
    let leftovers: Vec<Held> = std::mem::take(&mut *exchange.lock().unwrap_or_else(|e| e.into_inner()));
    for hd in leftovers {
        give(&ctx, h.threads.len(), hd, Give::Drop);
    }

    let mut out = RunOut::default();
    out.pool_hits = pool.hit_count() as u64;
    out.pool_allocs = pool.alloc_count() as u64;
    out.pool_len_at_end = pool.len() as u64;
    track::scope(|| drop(pool));

    let mut l = ledger.into_inner().unwrap_or_else(|e| e.into_inner());
    if !l.live.is_empty() && l.harness_error.is_none() {
        l.harness_error = Some(format!("{} buffers still registered after all threads gave everything back", l.live.len()));
    }
    let any_ty = |l: &Ledger, ptr: usize| -> Ty { l.last_ty.get(&ptr).copied().unwrap_or(Ty::U8) };
    if tracking {
        let errs = track::take_errors();
        if track::table_overflowed() {
            l.harness_error = Some("allocation table overflowed".to_string());
        }
        if let Some((ptr, asize, aalign, fsize, falign)) = errs.first_mismatch {
            let ty = any_ty(&l, ptr);
            l.viols.push(Viol {
                kind: "layout_mismatch_on_free",
                ty,
                detail: format!(
                    "block {:#x} allocated with size {} align {} was freed with size {} align {} ({} such frees); last handed out as Vec<{}>",
                    ptr,
                    asize,
                    aalign,
                    fsize,
                    falign,
                    errs.mismatches,
                    ty.name()
                ),
            });
        }
        if let Some((ptr, size, align)) = errs.first_unknown_free {
            let ty = any_ty(&l, ptr);
            l.viols.push(Viol {
                kind: "double_free",
                ty,
                detail: format!(
                    "free of {:#x} (size {} align {}) which is not a live allocation ({} such frees); last handed out as Vec<{}>",
                    ptr,
                    size,
                    align,
                    errs.unknown_frees,
                    ty.name()
                ),
            });
        }
        let live = track::workload_live();
        if live != 0 {
            let blocks = track::live_workload_blocks(8);
            let ty = blocks.first().map(|b| any_ty(&l, b.0)).unwrap_or(Ty::U8);
            let gave: Vec<String> = blocks
                .iter()
                .map(|b| format!("{:#x} size {} align {}{}", b.0, b.1, b.2, if l.given.contains_key(&b.0) { " (was given to the pool)" } else { "" }))
                .collect();
            l.viols.push(Viol {
                kind: "leak",
                ty,
                detail: format!("{} workload allocations still live after all threads finished and the pool was dropped: {:?}", live, gave),
            });
            track::forget_workload_blocks();
        }
    }
    out.viols = std::mem::take(&mut l.viols);
    out.ledger_hits = l.hits;
    out.hits_concurrent = l.hits_concurrent;
    out.cross_type = std::mem::take(&mut l.cross_type);
    out.order = l.order;
    out.events = l.events;
    out.zero_cap_returns = l.zero_cap_returns;
    out.harness_error = l.harness_error.take();
    out.cont_alloc = CONT_ALLOC.load(SeqCst) - c0.0;
    out.cont_any = CONT_ANY.load(SeqCst) - c0.1;
    out
}

// ------------------------------------------------------------------ shrinking

struct Shrinker {
    kind: &'static str,
    runs_left: usize,
    seed: u64,
}

impl Shrinker {
    /// Run `h` up to `tries` times; return the first violation of our kind.
    fn fails(&mut self, h: &History, tries: usize) -> Option<Viol> {
        for _ in 0..tries {
            if self.runs_left == 0 {
                return None;
            }
            self.runs_left -= 1;
            self.seed = mix(self.seed + 1);
            let out = run_history(h, self.seed);
            if let Some(v) = out.viols.into_iter().find(|v| v.kind == self.kind) {
                return Some(v);
            }
        }
        None
    }
}

fn merged_single_thread(h: &History) -> History {
    let mut ops = Vec::new();
    let longest = h.threads.iter().map(|t| t.len()).max().unwrap_or(0);
    for i in 0..longest {
        for t in &h.threads {
            if let Some(op) = t.get(i) {
                if !matches!(op, Op::Send(_) | Op::Recv) {
                    ops.push(*op);
                }
            }
        }
    }
    History { min_size: h.min_size, threads: vec![ops], end_add: vec![h.end_add.first().copied().unwrap_or(true)] }
}

fn shrink(h: &History, v: &Viol, seed: u64) -> (History, Viol) {
    let mut sh = Shrinker { kind: v.kind, runs_left: if cfg!(miri) { 0 } else { 8000 }, seed };
    let mut cur = h.clone();
    let mut viol = v.clone();

    if cur.threads.len() > 1 {
        let m = merged_single_thread(&cur);
        if let Some(v2) = sh.fails(&m, 3) {
            cur = m;
            viol = v2;
        }
    }
    let tries = |h: &History| if h.threads.len() == 1 { 1 } else { 12 };

    // Delta debugging over the operations of each thread.
    let mut chunk = cur.threads.iter().map(|t| t.len()).max().unwrap_or(1).max(1);
    while chunk >= 1 {
        let mut progress = false;
        for t in 0..cur.threads.len() {
            let mut start = 0;
            while start < cur.threads[t].len() {
                let end = (start + chunk).min(cur.threads[t].len());
                let mut cand = cur.clone();
                cand.threads[t].drain(start..end);
                let n = tries(&cand);
                if let Some(v2) = sh.fails(&cand, n) {
                    cur = cand;
                    viol = v2;
                    progress = true;
                } else {
                    start = end;
                }
            }
        }
        if !progress {
            if chunk == 1 {
                break;
            }
            chunk /= 2;
        }
    }
    // Drop threads that became empty (or are not needed).
    let mut t = 0;
    while cur.threads.len() > 1 && t < cur.threads.len() {
        let mut cand = cur.clone();
        cand.threads.remove(t);
        cand.end_add.remove(t);
        let n = tries(&cand);
        if let Some(v2) = sh.fails(&cand, n) {
            cur = cand;
            viol = v2;
        } else {
            t += 1;
        }
    }
    // Simplify operations: plain `add`, smaller capacities.
    for t in 0..cur.threads.len() {
        for i in 0..cur.threads[t].len() {
            let op = cur.threads[t][i];
            let mut alts: Vec<Op> = Vec::new();
            match op {
                Op::Give(g, w) => {
                    if g != Give::Add {
                        alts.push(Op::Give(Give::Add, w));
                    }
                    if w != 0 {
                        alts.push(Op::Give(g, 0));
                    }
                }
                Op::Alloc(ty, c) | Op::Fresh(ty, c) => {
                    let mk = |c: usize| if matches!(op, Op::Alloc(..)) { Op::Alloc(ty, c) } else { Op::Fresh(ty, c) };
                    for c2 in [0usize, 1, 2, 4, 8, 16, 32, c / 2, c.saturating_sub(1)] {
                        if c2 < c {
                            alts.push(mk(c2));
                        }
                    }
                }
                _ => {}
            }
            for alt in alts {
                let mut cand = cur.clone();
                cand.threads[t][i] = alt;
                let n = tries(&cand);
                if let Some(v2) = sh.fails(&cand, n) {
                    cur = cand;
                    viol = v2;
                    break;
                }
            }
        }
    }
    for ms in [Some(0usize), None] {
        if cur.min_size != ms {
            let mut cand = cur.clone();
            cand.min_size = ms;
            let n = tries(&cand);
            if let Some(v2) = sh.fails(&cand, n) {
                cur = cand;
                viol = v2;
                break;
            }
        }
    }
    for t in 0..cur.end_add.len() {
        if !cur.end_add[t] {
            let mut cand = cur.clone();
            cand.end_add[t] = true;
            let n = tries(&cand);
            if let Some(v2) = sh.fails(&cand, n) {
                cur = cand;
                viol = v2;
            }
        }
    }
    (cur, viol)
}

fn report_violation(rep: &mut Report, h: &History, v: &Viol, seed: u64, do_shrink: bool) {
    let (sh, sv) = if do_shrink { shrink(h, v, seed) } else { (h.clone(), v.clone()) };
    let sig = format!("C23|{}|T={}|{}", sv.kind, sv.ty.name(), sh.canonical());
    let mut w = sh.to_json();
    w["kind"] = json!(sv.kind);
    w["element_type"] = json!(sv.ty.name());
    w["detail"] = json!(sv.detail);
    w["original_ops"] = json!(h.n_ops());
    w["run_seed"] = json!(seed);
    rep.violation(
        sig,
        format!(
            "{} (Vec<{}>): {} -- history: {} thread(s), {} operation(s), {}",
            sv.kind,
            sv.ty.name(),
            sv.detail,
            sh.threads.len(),
            sh.n_ops(),
            sh.canonical()
        ),
        w,
    );
}

// ------------------------------------------------------------------ main

const RULE: &str = "random histories of alloc::<T>(cap) / Vec::with_capacity / add / add after set_len / extract_buffer+add / PoolRef drop / drop / hand-over between threads, run by 1-4 real threads sharing one BufferPool (min_size in {default 128, 0, 1, 16, 64, 100, 256, 1000}; 11 element types; capacities around min_size, around recently used capacities, zero and random), with seeded yield/spin/sleep at the pool's hook sites; watched by an ownership ledger (live pointer -> holder, capacity, alignment, per-holder byte pattern over the whole capacity) and a counting global allocator (layout at free == layout at allocation, no free of a non-live block, no tagged block live after join + pool drop); a history is non-trivial when at least one allocation was served from the pool (pool hit) while another thread was still running; distinct by (history, observed interleaving)";

fn c23(args: &Args) {
    let mut rep = Report::new("C23", "poolcheck c23", args, RULE);
    rep.max_samples = 4;
    let miri = cfg!(miri);
    let tracking = track::enabled();
    let hook_installed = rten::verif::set_yield_fn(Box::new(yield_hook));
    rep.note("tracking_allocator", json!(tracking));
    rep.note("yield_hook_installed", json!(hook_installed));

    if let Some(path) = &args.replay {
        let w: Json = serde_json::from_str(&std::fs::read_to_string(path).expect("read replay file")).expect("parse replay file");
        let w = if w.get("witness").is_some() { w["witness"].clone() } else { w };
        let w = if w.get("witness").is_some() { w["witness"].clone() } else { w };
        let h = History::from_json(&w);
        let want_kind = w["kind"].as_str().unwrap_or("").to_string();
        let reps = if h.threads.len() == 1 { 3 } else if miri { 4 } else { 400 };
        let mut seed = w["run_seed"].as_u64().unwrap_or(args.seed);
        let mut found: Option<Viol> = None;
        for _ in 0..reps {
            let out = run_history(&h, seed);
            rep.eval();
            rep.add("operations", out.events);
            rep.add("pool_hits", out.pool_hits);
            rep.nontrivial(&(h.canonical(), out.order));
            if let Some(e) = out.harness_error {
                rep.inconclusive = Some(format!("harness error: {}", e));
            }
            let pick = out.viols.iter().find(|v| v.kind == want_kind).or(out.viols.first()).cloned();
            if let Some(v) = pick {
                found = Some(v);
                break;
            }
            seed = mix(seed + 1);
        }
        rep.nontrivial(&0u8);
        rep.nontrivial(&1u8);
        if let Some(v) = found {
            report_violation(&mut rep, &h, &v, seed, false);
        }
        rep.finish();
        return;
    }

    let n = args.budget(if miri { 8 } else { 2000 }, if miri { 64 } else { 100_000 });
    let reps = if miri { 1 } else { 2 };
    let mut interleavings: HashSet<u64> = HashSet::new();
    let mut any_hit = false;
    for case in 0..n {
        let gid = case * args.shards as u64 + args.shard as u64;
        let mut rng = Rng::derive(args.seed, 0xC23_0000 + gid);
        let h = gen_history(&mut rng, miri);
        let mut orders: Vec<u64> = Vec::new();
        for r in 0..reps {
            let seed = mix(args.seed ^ gid.wrapping_mul(0x9e3779b97f4a7c15) ^ (r as u64) << 56);
            let out = run_history(&h, seed);
            rep.eval();
            rep.count("histories_run");
            rep.count(&format!("threads_{}", h.threads.len()));
            rep.add("operations", out.events);
            rep.add("pool_allocs_above_min_size", out.pool_allocs);
            rep.add("pool_hits", out.pool_hits);
            rep.add("hits_seen_by_ledger", out.ledger_hits);
            rep.add("hits_while_other_thread_active", out.hits_concurrent);
            rep.add("contended_two_threads_in_alloc", out.cont_alloc);
            rep.add("contended_alloc_or_add_overlap", out.cont_any);
            rep.add("zero_size_buffers_returned", out.zero_cap_returns);
            rep.add("buffers_in_pool_at_drop", out.pool_len_at_end);
            for (a, b) in &out.cross_type {
                rep.count(&format!("reuse_{}_as_{}", a.name(), b.name()));
            }
            if out.pool_hits > 0 {
                any_hit = true;
            }
            if let Some(e) = &out.harness_error {
                rep.count("harness_errors");
                rep.inconclusive = Some(format!("harness error in history {}: {}", gid, e));
            }
            // With the tracker off (ASan run) individual hits cannot be told
            // from fresh allocations, so fall back to the pool's own counter.
            let concurrent_hit = if tracking { out.hits_concurrent > 0 } else { out.pool_hits > 0 && h.threads.len() > 1 };
            if concurrent_hit {
                rep.nontrivial(&(gid, out.order));
                rep.count("nontrivial_runs");
            }
            if interleavings.len() < 2_000_000 {
                interleavings.insert(hash_of(&(gid, out.order)));
            }
            orders.push(out.order);
            if rep.wants_sample() && concurrent_hit && h.n_ops() <= 40 {
                let hj = h.to_json();
                rep.sample(|| json!({"history": hj, "pool_hits": out.pool_hits, "hits_while_other_thread_active": out.hits_concurrent, "events": out.events}));
            }
            if let Some(v) = out.viols.first() {
                for v in &out.viols {
                    rep.count(&format!("raw_{}", v.kind));
                }
                if rep.n_violations() < 4 {
                    let v = v.clone();
                    report_violation(&mut rep, &h, &v, seed, true);
                } else {
                    rep.suppressed_violations += 1;
                }
                break;
            }
        }
        if orders.len() > 1 && orders.iter().any(|o| *o != orders[0]) {
            rep.count("histories_with_different_interleavings_on_rerun");
        }
    }
    rep.add("distinct_interleavings", interleavings.len() as u64);
    rep.add("yield_hook_calls", HOOK_CALLS.load(SeqCst));
    if tracking {
        rep.add("workload_allocations_seen_by_tracker", track::workload_allocs());
        rep.add("workload_frees_seen_by_tracker", track::workload_frees());
        rep.add("all_allocations_seen_by_tracker", track::tracked_allocs());
    }
    if !any_hit {
        rep.inconclusive = Some("no allocation was ever served from the pool".to_string());
    }
    if HOOK_CALLS.load(SeqCst) == 0 {
        rep.inconclusive = Some("the pool's yield hook was never reached (built without --cfg rten_verif?)".to_string());
    }
    rep.finish();
}

fn real_main() {
    let args = Args::parse();
    match args.cmd.as_str() {
        "c23" => c23(&args),
        "noop" => {}
        other => {
            eprintln!("unknown sub-command {:?}", other);
            std::process::exit(3);
        }
    }
}

fn main() {
    run_main(real_main)
}
