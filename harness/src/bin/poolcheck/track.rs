//! Counting global allocator for poolcheck.
//!
//! Every block handed out by the Rust global allocator is recorded as
//! (pointer -> size, align, tag) in a fixed-size open-addressing table of
//! atomics (the tracker never allocates, so it cannot recurse into itself, and
//! it takes no locks). `dealloc`/`realloc` look the pointer up and compare the
//! layout the caller passes with the layout the block was allocated with:
//! `std`'s System allocator ignores the layout on unix, so a `Vec<[f32; 4]>`
//! buffer freed as `Vec<u128>` (same size, different alignment) goes unnoticed
//! there but is caught here. A free of a pointer that is not in the table is a
//! double free / foreign free; it is recorded and *not* forwarded to the system
//! allocator, so the engine survives to report it.
//!
//! Blocks allocated while the calling thread is inside `scope()` carry the
//! "workload" tag; the number of live tagged blocks is what the conservation
//! check at quiescence looks at.
//!
//! `VERIF_TRACK=0` switches the table off (the allocator then only forwards),
//! for the ASan/LSan run. Stored keys are xor-obfuscated so that even with
//! tracking on the table does not look like a root set to a leak scanner.

use std::alloc::{GlobalAlloc, Layout, System};
use std::cell::Cell;
use std::sync::atomic::{AtomicI64, AtomicU8, AtomicU64, AtomicUsize, Ordering::*};

#[cfg(miri)]
const LOG2_SLOTS: usize = 13;
#[cfg(not(miri))]
const LOG2_SLOTS: usize = 19;
const SLOTS: usize = 1 << LOG2_SLOTS;

const EMPTY: usize = 0;
const TOMB: usize = 1;
const BUSY: usize = 2;
/// High bits are set, so `ptr ^ XOR` can never be EMPTY/TOMB/BUSY for a user
/// space pointer.
const XOR: usize = 0xA5A5_5A5A_A5A5_5A5A;

static KEYS: [AtomicUsize; SLOTS] = [const { AtomicUsize::new(EMPTY) }; SLOTS];
static METAS: [AtomicU64; SLOTS] = [const { AtomicU64::new(0) }; SLOTS];

/// 0 = not decided yet, 1 = tracking, 2 = off.
static MODE: AtomicU8 = AtomicU8::new(0);

static WORKLOAD_LIVE: AtomicI64 = AtomicI64::new(0);
static WORKLOAD_ALLOCS: AtomicU64 = AtomicU64::new(0);
static WORKLOAD_FREES: AtomicU64 = AtomicU64::new(0);
static TRACKED_ALLOCS: AtomicU64 = AtomicU64::new(0);

static TABLE_FULL: AtomicU64 = AtomicU64::new(0);

static MISMATCH_COUNT: AtomicU64 = AtomicU64::new(0);
/// First mismatch: pointer, recorded meta, given size, given align.
static MISMATCH_FIRST: [AtomicU64; 4] = [const { AtomicU64::new(0) }; 4];
static UNKNOWN_FREE_COUNT: AtomicU64 = AtomicU64::new(0);
/// First unknown free: pointer, given size, given align.
static UNKNOWN_FREE_FIRST: [AtomicU64; 3] = [const { AtomicU64::new(0) }; 3];

thread_local! {
    static SCOPE: Cell<u32> = const { Cell::new(0) };
    static TL_ALLOCS: Cell<u64> = const { Cell::new(0) };
}

fn pack(size: usize, align: usize, tagged: bool) -> u64 {
    ((size as u64) << 16) | ((align.trailing_zeros() as u64) << 8) | tagged as u64
}

fn unpack(meta: u64) -> (usize, usize, bool) {
    ((meta >> 16) as usize, 1usize << ((meta >> 8) & 0xff), meta & 1 == 1)
}

fn hash(key: usize) -> usize {
    ((key as u64).wrapping_mul(0x9e37_79b9_7f4a_7c15) >> (64 - LOG2_SLOTS)) as usize
}

#[inline]
fn tracking() -> bool {
    match MODE.load(Relaxed) {
        1 => true,
        2 => false,
        _ => init_mode(),
    }
}

#[cold]
fn init_mode() -> bool {
    // getenv does not allocate. Several threads may race here; they all
    // compute the same answer.
    let off = unsafe {
        let p = libc::getenv(c"VERIF_TRACK".as_ptr());
        !p.is_null() && *p == b'0' as libc::c_char
    };
    MODE.store(if off { 2 } else { 1 }, Relaxed);
    !off
}

fn in_scope() -> bool {
    SCOPE.try_with(|c| c.get() > 0).unwrap_or(false)
}

fn insert(ptr: *mut u8, size: usize, align: usize) {
    let key = ptr as usize ^ XOR;
    let tagged = in_scope();
    let meta = pack(size, align, tagged);
    let mut i = hash(key);
    let mut probes = 0usize;
    loop {
        let k = KEYS[i].load(Acquire);
        if (k == EMPTY || k == TOMB) && KEYS[i].compare_exchange(k, BUSY, AcqRel, Acquire).is_ok() {
            METAS[i].store(meta, Release);
            KEYS[i].store(key, Release);
            break;
        }
        i = (i + 1) & (SLOTS - 1);
        probes += 1;
        if probes > SLOTS {
            TABLE_FULL.fetch_add(1, Relaxed);
            return;
        }
    }
    TRACKED_ALLOCS.fetch_add(1, Relaxed);
    if tagged {
        WORKLOAD_LIVE.fetch_add(1, AcqRel);
        WORKLOAD_ALLOCS.fetch_add(1, Relaxed);
        let _ = TL_ALLOCS.try_with(|c| c.set(c.get() + 1));
    }
}

fn find(ptr: *mut u8) -> Option<usize> {
    let key = ptr as usize ^ XOR;
    let mut i = hash(key);
    let mut probes = 0usize;
    loop {
        let k = KEYS[i].load(Acquire);
        if k == key {
            return Some(i);
        }
        if k == EMPTY || probes > SLOTS {
            return None;
        }
        i = (i + 1) & (SLOTS - 1);
        probes += 1;
    }
}

/// Remove `ptr`; returns the recorded (size, align, tagged).
fn remove(ptr: *mut u8) -> Option<(usize, usize, bool)> {
    let i = find(ptr)?;
    let meta = METAS[i].load(Acquire);
    KEYS[i].store(TOMB, Release);
    let m = unpack(meta);
    if m.2 {
        WORKLOAD_LIVE.fetch_sub(1, AcqRel);
        WORKLOAD_FREES.fetch_add(1, Relaxed);
    }
    Some(m)
}

fn note_mismatch(ptr: *mut u8, recorded: (usize, usize, bool), given: Layout) {
    if MISMATCH_COUNT.fetch_add(1, AcqRel) == 0 {
        MISMATCH_FIRST[0].store(ptr as u64, Relaxed);
        MISMATCH_FIRST[1].store(pack(recorded.0, recorded.1, recorded.2), Relaxed);
        MISMATCH_FIRST[2].store(given.size() as u64, Relaxed);
        MISMATCH_FIRST[3].store(given.align() as u64, Relaxed);
    }
}

fn note_unknown_free(ptr: *mut u8, given: Layout) {
    if UNKNOWN_FREE_COUNT.fetch_add(1, AcqRel) == 0 {
        UNKNOWN_FREE_FIRST[0].store(ptr as u64, Relaxed);
        UNKNOWN_FREE_FIRST[1].store(given.size() as u64, Relaxed);
        UNKNOWN_FREE_FIRST[2].store(given.align() as u64, Relaxed);
    }
}

pub struct Tracker;

unsafe impl GlobalAlloc for Tracker {
    unsafe fn alloc(&self, layout: Layout) -> *mut u8 {
        let p = unsafe { System.alloc(layout) };
        if !p.is_null() && tracking() {
            insert(p, layout.size(), layout.align());
        }
        p
    }

    unsafe fn alloc_zeroed(&self, layout: Layout) -> *mut u8 {
        let p = unsafe { System.alloc_zeroed(layout) };
        if !p.is_null() && tracking() {
            insert(p, layout.size(), layout.align());
        }
        p
    }

    unsafe fn dealloc(&self, ptr: *mut u8, layout: Layout) {
        if tracking() {
            let rec = find(ptr).map(|i| unpack(METAS[i].load(Acquire)));
            match rec {
                Some(rec) => {
                    if in_scope() && !rec.2 {
                        // The workload (pool users and the pool itself) only
                        // owns tagged blocks. This is a stale pointer whose
                        // address now belongs to somebody else: report it and
                        // leave the block alone.
                        note_unknown_free(ptr, layout);
                        return;
                    }
                    remove(ptr);
                    if rec.0 != layout.size() || rec.1 != layout.align() {
                        // Freed with a layout other than the one it was
                        // allocated with. Do not pass it on (the block is
                        // leaked, which is harmless here).
                        note_mismatch(ptr, rec, layout);
                        return;
                    }
                }
                None => {
                    if TABLE_FULL.load(Relaxed) == 0 {
                        // Not a live block: double free or foreign pointer.
                        // Do not hand it to the system allocator.
                        note_unknown_free(ptr, layout);
                        return;
                    }
                }
            }
        }
        unsafe { System.dealloc(ptr, layout) }
    }

    unsafe fn realloc(&self, ptr: *mut u8, layout: Layout, new_size: usize) -> *mut u8 {
        if !tracking() {
            return unsafe { System.realloc(ptr, layout, new_size) };
        }
        let rec = match find(ptr) {
            Some(i) => Some(unpack(METAS[i].load(Acquire))),
            None => None,
        };
        match rec {
            Some(rec) => {
                if rec.0 != layout.size() || rec.1 != layout.align() {
                    note_mismatch(ptr, rec, layout);
                }
            }
            None => {
                if TABLE_FULL.load(Relaxed) == 0 {
                    note_unknown_free(ptr, layout);
                    // Behave like a fresh allocation so the caller can go on.
                    let p = unsafe { System.alloc(Layout::from_size_align_unchecked(new_size, layout.align())) };
                    if !p.is_null() {
                        insert(p, new_size, layout.align());
                    }
                    return p;
                }
            }
        }
        let p = unsafe { System.realloc(ptr, layout, new_size) };
        if !p.is_null() {
            // Keep the tag of the old block.
            let tagged = rec.map(|r| r.2).unwrap_or(false);
            remove(ptr);
            let restore = SCOPE.try_with(|c| c.replace(if tagged { 1 } else { 0 })).unwrap_or(0);
            insert(p, new_size, layout.align());
            let _ = SCOPE.try_with(|c| c.set(restore));
        }
        p
    }
}

// ------------------------------------------------------------------ harness API

/// Whether the table is in use (false with `VERIF_TRACK=0`).
pub fn enabled() -> bool {
    tracking()
}

/// Run `f` with allocations of this thread tagged as workload allocations.
pub fn scope<R>(f: impl FnOnce() -> R) -> R {
    SCOPE.with(|c| c.set(c.get() + 1));
    let r = f();
    SCOPE.with(|c| c.set(c.get() - 1));
    r
}

/// Number of tagged allocations made by this thread so far.
pub fn thread_allocs() -> u64 {
    TL_ALLOCS.with(|c| c.get())
}

/// Recorded (size, align, tagged) of a live block.
pub fn lookup(ptr: *mut u8) -> Option<(usize, usize, bool)> {
    find(ptr).map(|i| unpack(METAS[i].load(Acquire)))
}

pub fn workload_live() -> i64 {
    WORKLOAD_LIVE.load(Acquire)
}

pub fn workload_allocs() -> u64 {
    WORKLOAD_ALLOCS.load(Relaxed)
}

pub fn workload_frees() -> u64 {
    WORKLOAD_FREES.load(Relaxed)
}

pub fn tracked_allocs() -> u64 {
    TRACKED_ALLOCS.load(Relaxed)
}

pub fn table_overflowed() -> bool {
    TABLE_FULL.load(Relaxed) != 0
}

/// Live tagged blocks (only call at quiescence). At most `max` are returned.
pub fn live_workload_blocks(max: usize) -> Vec<(usize, usize, usize)> {
    let mut out = Vec::new();
    for i in 0..SLOTS {
        let k = KEYS[i].load(Acquire);
        if k != EMPTY && k != TOMB && k != BUSY {
            let (size, align, tagged) = unpack(METAS[i].load(Acquire));
            if tagged {
                out.push((k ^ XOR, size, align));
                if out.len() >= max {
                    break;
                }
            }
        }
    }
    out
}

/// Drop the workload tag of every live block (used after a leak was reported
/// so that it is not reported again for the next history).
pub fn forget_workload_blocks() {
    for i in 0..SLOTS {
        let k = KEYS[i].load(Acquire);
        if k != EMPTY && k != TOMB && k != BUSY {
            let m = METAS[i].load(Acquire);
            if m & 1 == 1 {
                METAS[i].store(m & !1, Release);
                WORKLOAD_LIVE.fetch_sub(1, AcqRel);
            }
        }
    }
}

#[derive(Debug, Default, Clone)]
pub struct Errors {
    pub mismatches: u64,
    /// (ptr, allocated size, allocated align, freed-with size, freed-with align)
    pub first_mismatch: Option<(usize, usize, usize, usize, usize)>,
    pub unknown_frees: u64,
    /// (ptr, size, align)
    pub first_unknown_free: Option<(usize, usize, usize)>,
}

/// Read and reset the error state.
pub fn take_errors() -> Errors {
    let mut e = Errors::default();
    e.mismatches = MISMATCH_COUNT.swap(0, AcqRel);
    if e.mismatches > 0 {
        let rec = unpack(MISMATCH_FIRST[1].load(Relaxed));
        e.first_mismatch = Some((
            MISMATCH_FIRST[0].load(Relaxed) as usize,
            rec.0,
            rec.1,
            MISMATCH_FIRST[2].load(Relaxed) as usize,
            MISMATCH_FIRST[3].load(Relaxed) as usize,
        ));
    }
    e.unknown_frees = UNKNOWN_FREE_COUNT.swap(0, AcqRel);
    if e.unknown_frees > 0 {
        e.first_unknown_free = Some((
            UNKNOWN_FREE_FIRST[0].load(Relaxed) as usize,
            UNKNOWN_FREE_FIRST[1].load(Relaxed) as usize,
            UNKNOWN_FREE_FIRST[2].load(Relaxed) as usize,
        ));
    }
    e
}
