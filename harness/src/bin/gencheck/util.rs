//! Helpers shared by the gencheck sub-commands: forced-ISA loop, canonical
//! float formatting for signatures and witnesses.
use vcommon::*;

#[cfg(rten_verif)]
pub use rten_simd::verif::IsaKind;

#[cfg(not(rten_verif))]
#[derive(Clone, Copy, Debug, PartialEq, Eq)]
pub enum IsaKind {
    Generic,
    Avx2,
    Avx512,
}

pub const ALL_ISAS: [(IsaKind, &str); 3] = [(IsaKind::Generic, "generic"), (IsaKind::Avx2, "avx2"), (IsaKind::Avx512, "avx512")];

#[cfg(rten_verif)]
pub fn isa_usable(kind: IsaKind) -> bool {
    rten_simd::verif::isa_available(kind)
}

#[cfg(not(rten_verif))]
pub fn isa_usable(_kind: IsaKind) -> bool {
    false
}

#[cfg(rten_verif)]
fn force(kind: Option<IsaKind>) -> bool {
    rten_simd::verif::set_forced_isa(kind)
}

#[cfg(not(rten_verif))]
fn force(_kind: Option<IsaKind>) -> bool {
    false
}

struct Restore;
impl Drop for Restore {
    fn drop(&mut self) {
        force(None);
    }
}

/// Run `f` with every `SimdOp::dispatch` forced to `kind`; normal selection is
/// restored afterwards (also when `f` panics).
pub fn with_isa<T>(kind: IsaKind, f: impl FnOnce() -> T) -> T {
    assert!(force(Some(kind)), "ISA {:?} not available", kind);
    let _g = Restore;
    f()
}

/// ISAs usable on this machine; records availability in the report and marks
/// the run inconclusive if one of them cannot be exercised.
pub fn usable_isas(rep: &mut Report) -> Vec<(IsaKind, &'static str)> {
    let mut out = Vec::new();
    let mut missing = Vec::new();
    for (k, name) in ALL_ISAS {
        if isa_usable(k) {
            out.push((k, name));
        } else {
            missing.push(name);
        }
    }
    rep.note("isas_run", json!(out.iter().map(|(_, n)| *n).collect::<Vec<_>>()));
    if !missing.is_empty() {
        rep.note("isas_unavailable", json!(missing));
        rep.inconclusive = Some(format!(
            "instruction set(s) {:?} cannot be forced on this machine/build (needs x86-64 with AVX2+AVX-512 and --cfg rten_verif)",
            missing
        ));
    }
    out
}

pub const QNAN: u32 = 0x7fc0_0000;

/// Canonical text of a float for signatures: shortest round-trip decimal,
/// `NaN` / `-NaN` for the canonical quiet NaNs, `NaN:xxxxxxxx` otherwise.
pub fn fstr(x: f32) -> String {
    let b = x.to_bits();
    if x.is_nan() {
        if b == QNAN {
            "NaN".into()
        } else if b == QNAN | 0x8000_0000 {
            "-NaN".into()
        } else {
            format!("NaN:{:08x}", b)
        }
    } else {
        format!("{:?}", x)
    }
}

pub fn fvec_str(xs: &[f32]) -> String {
    format!("[{}]", xs.iter().map(|x| fstr(*x)).collect::<Vec<_>>().join(","))
}

pub fn bits_json(xs: &[f32]) -> Json {
    json!(xs.iter().map(|x| format!("{:08x}", x.to_bits())).collect::<Vec<_>>())
}

pub fn bits_from_json(j: &Json) -> Vec<f32> {
    j.as_array()
        .expect("array of hex floats")
        .iter()
        .map(|s| f32::from_bits(u32::from_str_radix(s.as_str().expect("hex string"), 16).expect("hex")))
        .collect()
}

/// Order-preserving integer key of the IEEE total order in which the sign of
/// zero and NaN payloads are ignored (every +NaN is the maximum, every -NaN
/// the minimum). Anything correct in the total order is correct in this
/// coarser order.
pub fn order_key(x: f32) -> i64 {
    if x.is_nan() {
        return if x.is_sign_negative() { i64::MIN } else { i64::MAX };
    }
    if x == 0.0 {
        return 0;
    }
    let b = x.to_bits() as i32;
    (b ^ (((b >> 31) as u32) >> 1) as i32) as i64
}

/// Make a panic message independent of where the sources are checked out.
pub fn panic_sig(msg: &str) -> String {
    let m = match (msg.find(" @ "), msg.find("rten-generate/")) {
        (Some(at), Some(p)) if p > at => format!("{} @ {}", &msg[..at], &msg[p..]),
        _ => msg.to_string(),
    };
    panic_class(&m)
}

pub fn load_witness(path: &str) -> Json {
    let w: Json = serde_json::from_str(&std::fs::read_to_string(path).expect("read replay file")).expect("replay file is JSON");
    if w.get("witness").is_some() { w["witness"].clone() } else { w }
}
