//! C31: logit filters (TopK, TopP, Temperature, Sort, token-id filter, Chain)
//! against sort-based references, for every forced instruction set.
use rten_generate::Logits;
use rten_generate::filter::{Chain, LogitsFilter, Sort, Temperature, TopK, TopP, token_id_filter};
use vcommon::*;

use crate::util::*;

// ------------------------------------------------------------------ specs

#[derive(Clone, Debug, PartialEq)]
pub enum Spec {
    TopK(usize),
    /// `norm`: None = `TopP::new(p)` as is, Some(b) = `.normalize(b)`.
    TopP { p: f32, norm: Option<bool> },
    Temp(f32),
    Sort,
    /// `token_id_filter(|id| id % m == r)`
    IdMod(u32, u32),
    Chain(Vec<Spec>),
}

impl Spec {
    pub fn name(&self) -> String {
        match self {
            Spec::TopK(k) => format!("TopK({})", k),
            Spec::TopP { p, norm: None } => format!("TopP({})", fstr(*p)),
            Spec::TopP { p, norm: Some(b) } => format!("TopP({},normalize={})", fstr(*p), b),
            Spec::Temp(t) => format!("Temperature({})", fstr(*t)),
            Spec::Sort => "Sort".into(),
            Spec::IdMod(m, r) => format!("IdFilter(id%{}=={})", m, r),
            Spec::Chain(v) => format!("Chain[{}]", v.iter().map(|s| s.name()).collect::<Vec<_>>().join(",")),
        }
    }

    pub fn family(&self) -> &'static str {
        match self {
            Spec::TopK(_) => "TopK",
            Spec::TopP { .. } => "TopP",
            Spec::Temp(_) => "Temperature",
            Spec::Sort => "Sort",
            Spec::IdMod(..) => "IdFilter",
            Spec::Chain(_) => "Chain",
        }
    }

    pub fn to_json(&self) -> Json {
        match self {
            Spec::TopK(k) => json!({"f": "TopK", "k": k}),
            Spec::TopP { p, norm } => json!({"f": "TopP", "p": format!("{:08x}", p.to_bits()), "p_text": fstr(*p), "norm": norm}),
            Spec::Temp(t) => json!({"f": "Temp", "t": format!("{:08x}", t.to_bits()), "t_text": fstr(*t)}),
            Spec::Sort => json!({"f": "Sort"}),
            Spec::IdMod(m, r) => json!({"f": "IdMod", "m": m, "r": r}),
            Spec::Chain(v) => json!({"f": "Chain", "members": v.iter().map(|s| s.to_json()).collect::<Vec<_>>()}),
        }
    }

    pub fn from_json(j: &Json) -> Spec {
        let hexf = |v: &Json| f32::from_bits(u32::from_str_radix(v.as_str().unwrap(), 16).unwrap());
        match j["f"].as_str().expect("spec.f") {
            "TopK" => Spec::TopK(j["k"].as_u64().unwrap() as usize),
            "TopP" => Spec::TopP { p: hexf(&j["p"]), norm: j["norm"].as_bool() },
            "Temp" => Spec::Temp(hexf(&j["t"])),
            "Sort" => Spec::Sort,
            "IdMod" => Spec::IdMod(j["m"].as_u64().unwrap() as u32, j["r"].as_u64().unwrap() as u32),
            "Chain" => Spec::Chain(j["members"].as_array().unwrap().iter().map(Spec::from_json).collect()),
            other => panic!("unknown filter {:?}", other),
        }
    }
}

struct Boxed(Box<dyn LogitsFilter>);
impl LogitsFilter for Boxed {
    fn filter(&self, logits: Logits, prev: &[u32]) -> Logits {
        self.0.filter(logits, prev)
    }
}

fn build(spec: &Spec) -> Box<dyn LogitsFilter> {
    match spec {
        Spec::TopK(k) => Box::new(TopK::new(*k)),
        Spec::TopP { p, norm } => {
            let f = TopP::new(*p);
            Box::new(match norm {
                None => f,
                Some(b) => f.normalize(*b),
            })
        }
        Spec::Temp(t) => Box::new(Temperature::new(*t)),
        Spec::Sort => Box::new(Sort::new()),
        Spec::IdMod(m, r) => {
            let (m, r) = (*m, *r);
            Box::new(token_id_filter(move |id| id % m == r))
        }
        Spec::Chain(members) => {
            let mut c = Chain::new();
            for s in members {
                // Use the convenience constructors where they exist.
                c = match s {
                    Spec::TopK(k) => c.top_k(*k),
                    Spec::TopP { p, norm: None } => c.top_p(*p),
                    Spec::Temp(t) => c.temperature(*t),
                    other => c.append(Boxed(build(other))),
                };
            }
            Box::new(c)
        }
    }
}

// ------------------------------------------------------------------ inputs

#[derive(Clone, Debug)]
pub struct Input {
    pub vals: Vec<f32>,
    /// Distinct token ids; `0..n` when `dense`.
    pub ids: Vec<u32>,
    pub dense: bool,
}

impl Input {
    pub fn dense(vals: Vec<f32>) -> Input {
        let ids = (0..vals.len() as u32).collect();
        Input { vals, ids, dense: true }
    }

    fn logits(&self) -> Logits {
        if self.dense { Logits::dense(self.vals.clone()) } else { Logits::sparse(self.vals.clone(), self.ids.clone()) }
    }

    fn len(&self) -> usize {
        self.vals.len()
    }

    fn layout_str(&self) -> String {
        if self.dense { "dense".into() } else { format!("sparse:{:?}", self.ids) }
    }

    pub fn to_json(&self) -> Json {
        json!({"dense": self.dense, "vals": bits_json(&self.vals), "vals_text": fvec_str(&self.vals), "ids": self.ids})
    }

    pub fn from_json(j: &Json) -> Input {
        Input {
            vals: bits_from_json(&j["vals"]),
            ids: j["ids"].as_array().unwrap().iter().map(|x| x.as_u64().unwrap() as u32).collect(),
            dense: j["dense"].as_bool().unwrap(),
        }
    }
}

type Out = (Vec<f32>, Vec<u32>);

fn apply(spec: &Spec, inp: &Input) -> Result<Out, String> {
    catch(|| {
        let f = build(spec);
        let out = f.filter(inp.logits(), &[]);
        (out.logits().to_vec(), out.indices().to_vec())
    })
}

// ------------------------------------------------------------------ oracle

#[derive(Clone, Debug)]
pub struct Fail {
    pub kind: String,
    /// The filter that misbehaved (a chain member where applicable) ...
    pub spec: Spec,
    /// ... and the input it was given directly.
    pub input: Input,
    pub detail: String,
}

fn same_value(a: f32, b: f32) -> bool {
    a.to_bits() == b.to_bits() || (a.is_nan() && b.is_nan() && a.is_sign_negative() == b.is_sign_negative())
}

/// Every output pair must be an input pair (same id, same score); no id twice.
fn pairs_from_input(inp: &Input, out: &Out, check_vals: bool) -> Result<(), String> {
    let (ov, oi) = out;
    if ov.len() != oi.len() {
        return Err(format!("{} scores for {} ids", ov.len(), oi.len()));
    }
    let mut seen = std::collections::HashSet::new();
    for (v, id) in ov.iter().zip(oi) {
        if !seen.insert(*id) {
            return Err(format!("id {} returned twice", id));
        }
        match inp.ids.iter().position(|x| x == id) {
            None => return Err(format!("id {} is not an input candidate", id)),
            Some(pos) => {
                if check_vals && !same_value(inp.vals[pos], *v) {
                    return Err(format!("id {} has score {} in the input but {} in the output", id, fstr(inp.vals[pos]), fstr(*v)));
                }
            }
        }
    }
    Ok(())
}

fn is_desc(vals: &[f32]) -> bool {
    vals.windows(2).all(|w| order_key(w[0]) >= order_key(w[1]))
}

#[derive(Default)]
pub struct Stats {
    pub topp_strict: u64,
    pub topp_structural: u64,
    pub topp_exact: u64,
    pub topp_p1_keeps_zero: u64,
    pub topk_k_gt_n: u64,
    pub topk_update_path: u64,
    pub temp_value_off: u64,
}

fn softmax64(vals: &[f32]) -> Vec<f64> {
    let m = vals.iter().fold(f64::NEG_INFINITY, |a, b| a.max(*b as f64));
    let e: Vec<f64> = vals.iter().map(|v| ((*v as f64) - m).exp()).collect();
    let s: f64 = e.iter().sum();
    e.iter().map(|x| x / s).collect()
}

fn check_single(spec: &Spec, inp: &Input, out: &Out, st: &mut Stats) -> Result<(), (String, String)> {
    let n = inp.len();
    let (ov, oi) = out;
    let fail = |kind: &str, detail: String| Err((kind.to_string(), detail));
    match spec {
        Spec::TopK(k) => {
            let m = (*k).min(n);
            if *k > n {
                st.topk_k_gt_n += 1;
            }
            if *k > 0 && *k < n {
                st.topk_update_path += 1;
            }
            if ov.len() != m {
                return fail("topk_count", format!("returned {} candidates, expected min(K={}, n={}) = {}", ov.len(), k, n, m));
            }
            if let Err(e) = pairs_from_input(inp, out, true) {
                return fail("topk_foreign_candidate", e);
            }
            if !is_desc(ov) {
                return fail("topk_not_sorted", format!("output scores {} are not in descending total order", fvec_str(ov)));
            }
            let mut all = inp.vals.clone();
            all.sort_by(|a, b| b.total_cmp(a));
            let want: Vec<i64> = all[..m].iter().map(|v| order_key(*v)).collect();
            let mut got: Vec<i64> = ov.iter().map(|v| order_key(*v)).collect();
            got.sort_by(|a, b| b.cmp(a));
            if want != got {
                return fail(
                    "topk_not_k_largest",
                    format!("returned scores {} but the {} largest in the total order are {}", fvec_str(ov), m, fvec_str(&all[..m])),
                );
            }
            Ok(())
        }
        Spec::TopP { p, norm } => {
            let use_softmax = *norm == Some(true);
            let values_replaced = use_softmax && *p != 1.0;
            if n == 0 {
                return if ov.is_empty() && oi.is_empty() { Ok(()) } else { fail("topp_foreign_candidate", "non-empty output for empty input".into()) };
            }
            if ov.is_empty() {
                return fail("topp_empty", format!("empty output for {} candidates", n));
            }
            if let Err(e) = pairs_from_input(inp, out, !values_replaced) {
                return fail("topp_foreign_candidate", e);
            }
            let kept: Vec<usize> = oi.iter().map(|id| inp.ids.iter().position(|x| x == id).unwrap()).collect();
            let dropped: Vec<usize> = (0..n).filter(|i| !kept.contains(i)).collect();
            let strict = if use_softmax {
                inp.vals.iter().all(|v| v.is_finite() || *v == f32::NEG_INFINITY) && inp.vals.iter().any(|v| v.is_finite())
            } else {
                inp.vals.iter().all(|v| v.is_finite() && *v >= 0.0) && (inp.vals.iter().map(|v| *v as f64).sum::<f64>() - 1.0).abs() <= 1e-3
            };
            if !strict {
                st.topp_structural += 1;
                if !use_softmax {
                    // Input values are the ranking keys themselves.
                    let min_kept = kept.iter().map(|i| order_key(inp.vals[*i])).min().unwrap();
                    let max_dropped = dropped.iter().map(|i| order_key(inp.vals[*i])).max();
                    if let Some(md) = max_dropped {
                        if md > min_kept {
                            return fail("topp_not_a_prefix", "a dropped candidate ranks above a kept one in the total order".into());
                        }
                    }
                }
                return Ok(());
            }
            st.topp_strict += 1;
            let probs: Vec<f64> = if use_softmax { softmax64(&inp.vals) } else { inp.vals.iter().map(|v| *v as f64).collect() };
            let min_kept = kept.iter().map(|i| probs[*i]).fold(f64::INFINITY, f64::min);
            let max_dropped = dropped.iter().map(|i| probs[*i]).fold(f64::NEG_INFINITY, f64::max);
            if max_dropped > min_kept + 1e-6 {
                return fail(
                    "topp_not_a_prefix",
                    format!("a dropped candidate has probability {:e}, a kept one only {:e}", max_dropped, min_kept),
                );
            }
            let mut sorted = probs.clone();
            sorted.sort_by(|a, b| b.total_cmp(a));
            // When every partial sum is exactly representable in f32 the
            // accumulation has no rounding at all and "reaching p" is decided
            // exactly; otherwise allow a band for f32 rounding.
            let mut exact_sums = !use_softmax && inp.vals.iter().all(|v| *v == 0.0 || *v >= 9.5367431640625e-7);
            if exact_sums {
                let mut acc = 0f64;
                for x in &sorted {
                    acc += *x;
                    if (acc as f32) as f64 != acc {
                        exact_sums = false;
                        break;
                    }
                }
            }
            if exact_sums {
                st.topp_exact += 1;
            }
            let tol = if exact_sums { 0.0 } else { 5e-5 };
            let thr = (*p as f64).max(f32::MIN_POSITIVE as f64);
            let k = ov.len();
            let mut cum = 0.0;
            for j in 1..=k {
                cum += sorted[j - 1];
                if j < k && cum >= thr + tol {
                    if *p == 1.0 {
                        // p = 1 is documented (and unit-tested) as "no
                        // filtering": candidates of probability exactly 0
                        // after the point where the sum reaches 1 are kept.
                        // Harmless and by design: counted, not flagged.
                        st.topp_p1_keeps_zero += 1;
                        break;
                    }
                    return fail(
                        "topp_not_shortest",
                        format!("kept {} candidates but the top {} already have cumulative probability {:.7} >= p = {}", k, j, cum, fstr(*p)),
                    );
                }
            }
            if k < n && cum < thr - tol {
                return fail(
                    "topp_below_threshold",
                    format!("kept {} of {} candidates with cumulative probability {:.7} < p = {}", k, n, cum, fstr(*p)),
                );
            }
            Ok(())
        }
        Spec::Temp(t) => {
            if oi != &inp.ids || ov.len() != n {
                return fail("temperature_changed_candidates", format!("ids {:?} -> {:?}", inp.ids, oi));
            }
            for (x, y) in inp.vals.iter().zip(ov) {
                let want = *x / *t;
                if x.is_finite() && want.is_finite() && *t > 0.0 && (want - *y).abs() > 1e-6 * want.abs() + 1e-37 {
                    st.temp_value_off += 1;
                }
            }
            Ok(())
        }
        Spec::Sort => {
            if ov.len() != n {
                return fail("sort_count", format!("{} candidates -> {}", n, ov.len()));
            }
            if let Err(e) = pairs_from_input(inp, out, true) {
                return fail("sort_foreign_candidate", e);
            }
            if !is_desc(ov) {
                return fail("sort_not_sorted", format!("output {} not descending", fvec_str(ov)));
            }
            Ok(())
        }
        Spec::IdMod(m, r) => {
            let want: Vec<(u32, u32)> = inp.ids.iter().zip(&inp.vals).filter(|(id, _)| *id % m == *r).map(|(id, v)| (*id, v.to_bits())).collect();
            let got: Vec<(u32, u32)> = oi.iter().zip(ov).map(|(id, v)| (*id, v.to_bits())).collect();
            if want != got {
                return fail("idfilter_wrong", format!("kept ids {:?}", oi));
            }
            Ok(())
        }
        Spec::Chain(_) => unreachable!(),
    }
}

fn outs_equal(a: &Out, b: &Out) -> bool {
    a.1 == b.1 && a.0.len() == b.0.len() && a.0.iter().zip(&b.0).all(|(x, y)| bits_eq_f32(*x, *y))
}

/// Run `spec` on `inp` and judge the result against the statement.
pub fn judge(spec: &Spec, inp: &Input, st: &mut Stats) -> Result<Out, Fail> {
    match spec {
        Spec::Chain(members) => {
            // Composition of the members, each judged on the input it gets.
            let mut cur = inp.clone();
            for m in members {
                let out = judge(m, &cur, st)?;
                cur = Input { vals: out.0, ids: out.1, dense: false };
            }
            let composed: Out = (cur.vals, cur.ids);
            match apply(spec, inp) {
                Err(msg) => Err(Fail { kind: "chain_panics_members_do_not".into(), spec: spec.clone(), input: inp.clone(), detail: msg }),
                Ok(out) => {
                    if outs_equal(&out, &composed) {
                        Ok(out)
                    } else {
                        Err(Fail {
                            kind: "chain_differs_from_composition".into(),
                            spec: spec.clone(),
                            input: inp.clone(),
                            detail: format!("chain gave ids {:?} scores {}, composing the members gives ids {:?} scores {}", out.1, fvec_str(&out.0), composed.1, fvec_str(&composed.0)),
                        })
                    }
                }
            }
        }
        _ => match apply(spec, inp) {
            Err(msg) => Err(Fail { kind: "panic".into(), spec: spec.clone(), input: inp.clone(), detail: msg }),
            Ok(out) => match check_single(spec, inp, &out, st) {
                Ok(()) => Ok(out),
                Err((kind, detail)) => Err(Fail { kind, spec: spec.clone(), input: inp.clone(), detail }),
            },
        },
    }
}

// ------------------------------------------------------------------ shrinking

struct Shrinker {
    kind: String,
    isa: IsaKind,
    budget: u32,
}

impl Shrinker {
    fn fails(&mut self, spec: &Spec, inp: &Input) -> Option<Fail> {
        if self.budget == 0 {
            return None;
        }
        self.budget -= 1;
        let mut st = Stats::default();
        match with_isa(self.isa, || judge(spec, inp, &mut st)) {
            Err(f) if f.kind == self.kind => Some(f),
            _ => None,
        }
    }
}

fn without(inp: &Input, lo: usize, hi: usize) -> Input {
    let mut vals = inp.vals.clone();
    vals.drain(lo..hi);
    if inp.dense {
        Input::dense(vals)
    } else {
        let mut ids = inp.ids.clone();
        ids.drain(lo..hi);
        Input { vals, ids, dense: false }
    }
}

fn shrink(fail: Fail, isa: IsaKind) -> Fail {
    let mut sh = Shrinker { kind: fail.kind.clone(), isa, budget: 600 };
    let mut best = fail;
    loop {
        let mut progress = false;
        // A failing chain member becomes the case itself (judge does that).
        macro_rules! attempt {
            ($spec:expr, $inp:expr) => {
                if let Some(f) = sh.fails(&$spec, &$inp) {
                    best = f;
                    progress = true;
                    true
                } else {
                    false
                }
            };
        }
        // 1. dense ids
        if !best.input.dense {
            let cand = Input::dense(best.input.vals.clone());
            let spec = best.spec.clone();
            attempt!(spec, cand);
        }
        // 2. drop elements: halves, then single elements
        let mut chunk = (best.input.len() / 2).max(1);
        while chunk >= 1 && best.input.len() > 0 {
            let mut i = 0;
            while i + chunk <= best.input.len() {
                let cand = without(&best.input, i, i + chunk);
                let spec = best.spec.clone();
                if attempt!(spec, cand) {
                    continue;
                }
                // TopK: dropping a candidate together with one unit of K.
                if let Spec::TopK(k) = best.spec {
                    if k >= chunk {
                        let cand = without(&best.input, i, i + chunk);
                        if attempt!(Spec::TopK(k - chunk), cand) {
                            continue;
                        }
                    }
                }
                i += chunk;
            }
            if chunk == 1 {
                break;
            }
            chunk /= 2;
        }
        // 3. simpler parameters
        match best.spec.clone() {
            Spec::TopK(k) => {
                let n = best.input.len();
                for cand_k in [n + 1, 1, 0, k.saturating_sub(1)] {
                    if cand_k < k {
                        attempt!(Spec::TopK(cand_k), best.input.clone());
                    }
                }
            }
            Spec::TopP { p, norm } => {
                if norm.is_some() && norm != Some(true) {
                    attempt!(Spec::TopP { p, norm: None }, best.input.clone());
                }
                for cand_p in [0.0f32, 0.5, 0.25, 0.75] {
                    if cand_p != p && !(p == 0.0) {
                        if attempt!(Spec::TopP { p: cand_p, norm }, best.input.clone()) {
                            break;
                        }
                    }
                }
            }
            Spec::Chain(members) => {
                for i in 0..members.len() {
                    let mut m = members.clone();
                    m.remove(i);
                    if attempt!(Spec::Chain(m), best.input.clone()) {
                        break;
                    }
                }
            }
            _ => {}
        }
        // 4. simpler values
        for i in 0..best.input.len() {
            let cur = best.input.vals[i];
            let mut cands: Vec<f32> = vec![0.0, 1.0];
            if cur.is_nan() {
                cands.push(f32::from_bits(QNAN | (cur.to_bits() & 0x8000_0000)));
            }
            for c in cands {
                if c.to_bits() == best.input.vals[i].to_bits() || (best.input.vals[i] == 0.0 && best.input.vals[i].is_sign_positive()) {
                    continue;
                }
                if best.input.vals[i] == 1.0 && c != 0.0 {
                    continue;
                }
                let mut cand = best.input.clone();
                cand.vals[i] = c;
                let spec = best.spec.clone();
                if attempt!(spec, cand) {
                    break;
                }
            }
        }
        if !progress || sh.budget == 0 {
            return best;
        }
    }
}

// ------------------------------------------------------------------ generation

const PATTERNS: [&str; 13] = [
    "dyadic", "distinct", "ties", "all_equal", "nan_mix", "inf_mix", "ascending", "descending", "weird", "probs", "probs_zeros", "neg_inf_mix", "signed_zeros",
];

fn gen_vals(rng: &mut Rng, n: usize, pattern: &str) -> Vec<f32> {
    let mut v: Vec<f32> = match pattern {
        "distinct" | "ascending" | "descending" | "nan_mix" | "inf_mix" | "neg_inf_mix" => {
            // Distinct multiples of 1/8 in shuffled order.
            let mut xs: Vec<f32> = (0..n).map(|i| (i as f32 - (n / 2) as f32) / 8.0 * rng.urange(1, 3) as f32).collect();
            xs.sort_by(|a, b| a.total_cmp(b));
            xs.dedup();
            while xs.len() < n {
                xs.push(xs.last().copied().unwrap_or(0.0) + 0.125);
            }
            rng.shuffle(&mut xs);
            xs
        }
        "ties" => {
            let m = rng.urange(1, 4);
            (0..n).map(|_| rng.below(m) as f32 * 0.5 - 0.5).collect()
        }
        "all_equal" => {
            let c = *rng.choose(&[0.0f32, 1.0, -2.5, f32::NEG_INFINITY, f32::INFINITY, f32::NAN, -0.0]);
            vec![c; n]
        }
        "weird" => (0..n).map(|_| rng.weird_f32()).collect(),
        "probs" | "probs_zeros" => {
            let spread = *rng.choose(&[0.5f32, 2.0, 8.0, 30.0]);
            let logits: Vec<f32> = (0..n).map(|_| rng.f32_in(-spread, spread)).collect();
            let mut p: Vec<f32> = softmax64(&logits).iter().map(|x| *x as f32).collect();
            if pattern == "probs_zeros" && n > 1 {
                // Move the mass of some entries onto entry 0 and zero them.
                for i in 1..n {
                    if rng.chance(1, 3) {
                        p[0] += p[i];
                        p[i] = 0.0;
                    }
                }
                rng.shuffle(&mut p);
            }
            p
        }
        "dyadic" => {
            // Multiples of 1/64 summing to exactly 1 (all partial sums exact).
            let mut units = vec![0u32; n];
            if n > 0 {
                for _ in 0..64 {
                    let i = rng.below(n.min(12));
                    units[i] += 1;
                }
                rng.shuffle(&mut units);
            }
            units.iter().map(|u| *u as f32 / 64.0).collect()
        }
        "signed_zeros" => (0..n).map(|_| *rng.choose(&[0.0f32, -0.0, 0.0, -0.0, 1.0, -1.0])).collect(),
        _ => unreachable!(),
    };
    match pattern {
        "ascending" => v.sort_by(|a, b| a.total_cmp(b)),
        "descending" => v.sort_by(|a, b| b.total_cmp(a)),
        "nan_mix" => {
            for x in v.iter_mut() {
                if rng.chance(1, 5) {
                    *x = match rng.below(5) {
                        0 | 1 => f32::from_bits(QNAN),
                        2 | 3 => f32::from_bits(QNAN | 0x8000_0000),
                        _ => f32::from_bits(QNAN | rng.urange(1, 0xffff) as u32 | if rng.bool() { 0x8000_0000 } else { 0 }),
                    };
                }
            }
        }
        "inf_mix" => {
            for x in v.iter_mut() {
                if rng.chance(1, 5) {
                    *x = if rng.bool() { f32::INFINITY } else { f32::NEG_INFINITY };
                }
            }
        }
        "neg_inf_mix" => {
            for x in v.iter_mut() {
                if rng.chance(1, 4) {
                    *x = f32::NEG_INFINITY;
                }
            }
        }
        _ => {}
    }
    v
}

fn gen_input(rng: &mut Rng, n: usize, pattern: &str, sparse: bool) -> Input {
    let vals = gen_vals(rng, n, pattern);
    if !sparse {
        return Input::dense(vals);
    }
    let mut pool: Vec<u32> = (0..(n as u32 * 3 + 5)).collect();
    rng.shuffle(&mut pool);
    let mut ids: Vec<u32> = pool[..n].to_vec();
    if rng.bool() {
        ids.sort();
    }
    Input { vals, ids, dense: false }
}

const P_VALUES: [f32; 16] = [0.0, 1e-38, 1e-30, 1e-6, 0.01, 0.1, 0.125, 0.25, 0.5, 0.75, 0.9, 0.984375, 0.99, 0.999, 0.999_999, 1.0];
const T_VALUES: [f32; 6] = [1.0, 0.5, 0.7, 2.0, 1e-3, 0.0];

fn gen_member(rng: &mut Rng, which: usize, n_hint: usize) -> Spec {
    match which {
        0 => Spec::Temp(*rng.choose(&T_VALUES)),
        1 => Spec::TopP {
            p: match rng.below(4) {
                0 => rng.unit_f64() as f32,
                1 => rng.urange(0, 64) as f32 / 64.0,
                _ => *rng.choose(&P_VALUES),
            },
            norm: *rng.choose(&[None, None, Some(false), Some(true), Some(true)]),
        },
        2 => Spec::TopK(rng.urange(0, n_hint + 3)),
        3 => Spec::Sort,
        _ => {
            let m = rng.urange(1, 4) as u32;
            Spec::IdMod(m, rng.below(m as usize) as u32)
        }
    }
}

fn gen_any_member(rng: &mut Rng, n_hint: usize) -> Spec {
    let which = rng.below(5);
    gen_member(rng, which, n_hint)
}

/// All ordered selections of 2..=4 of the five member kinds.
fn chain_orders() -> Vec<Vec<usize>> {
    fn rec(cur: &mut Vec<usize>, out: &mut Vec<Vec<usize>>) {
        if cur.len() >= 2 {
            out.push(cur.clone());
        }
        if cur.len() == 4 {
            return;
        }
        for k in 0..5 {
            if !cur.contains(&k) {
                cur.push(k);
                rec(cur, out);
                cur.pop();
            }
        }
    }
    let mut out = Vec::new();
    rec(&mut Vec::new(), &mut out);
    out
}

// ------------------------------------------------------------------ driver

struct Ctx<'a> {
    rep: &'a mut Report,
    isas: Vec<(IsaKind, &'static str)>,
}

fn count_spec(rep: &mut Report, spec: &Spec, top: bool) {
    rep.count(&format!("filter_{}{}", spec.family(), if top { "" } else { "_in_chain" }));
    if let Spec::Chain(m) = spec {
        for s in m {
            count_spec(rep, s, false);
        }
    }
}

fn run_case(cx: &mut Ctx, spec: &Spec, inp: &Input, origin: &str) {
    cx.rep.eval();
    count_spec(cx.rep, spec, true);
    cx.rep.count(if inp.dense { "inputs_dense" } else { "inputs_sparse" });
    cx.rep.max("max_candidates", inp.len() as u64);
    if inp.vals.iter().any(|v| v.is_nan()) {
        cx.rep.count("inputs_with_nan");
    }
    if inp.vals.iter().any(|v| v.is_infinite()) {
        cx.rep.count("inputs_with_inf");
    }
    let mut failing: Vec<(IsaKind, &'static str, Fail)> = Vec::new();
    let isas = cx.isas.clone();
    for (isa, isa_name) in isas {
        let mut st = Stats::default();
        let res = with_isa(isa, || judge(spec, inp, &mut st));
        cx.rep.count(&format!("isa_{}_cases", isa_name));
        cx.rep.add("topk_k_greater_than_n", st.topk_k_gt_n);
        cx.rep.add("topk_scan_path_cases", st.topk_update_path);
        cx.rep.add("topp_strict_prefix_checked", st.topp_strict);
        cx.rep.add("topp_structural_only", st.topp_structural);
        cx.rep.add("topp_exact_threshold_decisions", st.topp_exact);
        cx.rep.add("topp_p1_passthrough_keeps_zero_probability", st.topp_p1_keeps_zero);
        cx.rep.add("temperature_value_not_x_over_t", st.temp_value_off);
        match res {
            Ok(out) => {
                if isa == IsaKind::Generic {
                    cx.rep.max("max_output_candidates", out.0.len() as u64);
                }
            }
            Err(f) => failing.push((isa, isa_name, f)),
        }
    }
    let nontrivial = inp.len() >= 2
        && match spec {
            Spec::TopK(k) => *k > 0,
            Spec::TopP { .. } => true,
            Spec::Chain(m) => m.len() >= 2,
            _ => false,
        };
    if nontrivial {
        let bits: Vec<u32> = inp.vals.iter().map(|v| v.to_bits()).collect();
        cx.rep.nontrivial(&(spec.name(), bits, &inp.ids));
    }
    if cx.rep.wants_sample() && nontrivial && inp.len() >= 5 && inp.len() <= 12 && matches!(spec, Spec::Chain(_)) {
        let mut st = Stats::default();
        let out = judge(spec, inp, &mut st).ok();
        cx.rep.sample(|| json!({"filter": spec.name(), "input": inp.to_json(), "output_ids": out.as_ref().map(|o| o.1.clone()), "origin": origin}));
    }
    if let Some((isa, _, f)) = failing.first().cloned() {
        report(cx, f, isa, origin);
    }
}

fn report(cx: &mut Ctx, fail: Fail, isa: IsaKind, origin: &str) {
    cx.rep.count(&format!("failing_cases_{}", fail.kind));
    // Shrinking is bounded but not free: once a signature class is known,
    // only count further hits of the same kind for the same filter family.
    let class = format!("{}|{}", fail.kind, fail.spec.family());
    let seen_key = format!("shrunk_{}", class);
    if cx.rep.counters.get(&seen_key).copied().unwrap_or(0) >= 12 {
        cx.rep.suppressed_violations += 1;
        return;
    }
    cx.rep.count(&seen_key);
    let small = shrink(fail, isa);
    // Which ISAs show it?
    let mut on: Vec<&str> = Vec::new();
    for (k, name) in cx.isas.clone() {
        let mut st = Stats::default();
        if matches!(with_isa(k, || judge(&small.spec, &small.input, &mut st)), Err(f) if f.kind == small.kind) {
            on.push(name);
        }
    }
    let isa_txt = if on.len() == cx.isas.len() { "all".to_string() } else { on.join("+") };
    let mut sig = format!("C31|{}|{}|{}|logits={}|isa={}", small.kind, small.spec.name(), small.input.layout_str(), fvec_str(&small.input.vals), isa_txt);
    if small.kind.contains("panic") {
        sig.push_str(&format!("|{}", panic_sig(&small.detail)));
    }
    let summary = format!(
        "{} on {} logits {} ({}): {}",
        small.spec.name(),
        if small.input.dense { "dense".to_string() } else { format!("sparse ids {:?}", small.input.ids) },
        fvec_str(&small.input.vals),
        small.kind,
        small.detail
    );
    cx.rep.violation(
        sig,
        summary,
        json!({"mode": "c31", "kind": small.kind, "spec": small.spec.to_json(), "input": small.input.to_json(), "isas_failing": on, "origin": origin}),
    );
}

pub fn run(args: &Args) {
    let mut rep = Report::new(
        "C31",
        "gencheck c31",
        args,
        "TopK / TopP / Temperature / Sort / token-id filter / Chain run on dense and sparse logits of length 0..=70 (NaN of both signs, +-inf, ties, all-equal, signed zeros, probability vectors) under every forced instruction set; systematic (n, K in 0..=n+3) and (n, p, normalize) grids, every ordered selection of 2-4 member kinds as a chain, then random cases. Oracle: sort by f32::total_cmp (sign of zero and NaN payload ignored), f64 cumulative sums for top-p with a 5e-5 band, member-by-member composition for chains; any panic is a violation. Non-trivial = at least 2 candidates and a TopK with K>0, a TopP or a chain of >=2 members; distinct by (filter, logits bits, ids)",
    );
    rep.max_samples = 6;
    let isas = usable_isas(&mut rep);
    if isas.is_empty() {
        rep.finish();
        return;
    }
    let mut cx = Ctx { rep: &mut rep, isas };

    if let Some(path) = &args.replay {
        let w = load_witness(path);
        let spec = Spec::from_json(&w["spec"]);
        let inp = Input::from_json(&w["input"]);
        run_case(&mut cx, &spec, &inp, "replay");
        rep.nontrivial(&0u8);
        rep.finish();
        return;
    }

    let mut rng = Rng::derive(args.seed, 0xC31 + 977 * args.shard as u64);
    let mut counter = 0usize;
    let mine = |counter: &mut usize| {
        *counter += 1;
        *counter % args.shards == args.shard
    };

    // ---- A: TopK grid
    for n in 0..=70usize {
        for k in 0..=n + 3 {
            for (pi, pat) in ["distinct", "ties", "all_equal", "nan_mix", "inf_mix", "ascending", "descending", "signed_zeros"].iter().enumerate() {
                if !mine(&mut counter) {
                    continue;
                }
                let inp = gen_input(&mut rng, n, pat, (n + k + pi) % 3 == 0);
                run_case(&mut cx, &Spec::TopK(k), &inp, "topk_grid");
            }
        }
    }
    // ---- B: TopP grid
    for n in 0..=70usize {
        for p in P_VALUES {
            for norm in [None, Some(false), Some(true)] {
                for (pi, pat) in ["dyadic", "probs", "probs_zeros", "distinct", "ties", "all_equal", "nan_mix", "inf_mix", "neg_inf_mix", "weird"].iter().enumerate() {
                    if !mine(&mut counter) {
                        continue;
                    }
                    let inp = gen_input(&mut rng, n, pat, (n + pi) % 3 == 1);
                    run_case(&mut cx, &Spec::TopP { p, norm }, &inp, "topp_grid");
                }
            }
        }
    }
    // ---- C: chains in every order
    let orders = chain_orders();
    cx.rep.note("chain_orders", json!(orders.len()));
    let per_order = if args.thorough { 200 } else { 12 };
    for order in &orders {
        for rep_i in 0..per_order {
            if !mine(&mut counter) {
                continue;
            }
            let n = if rep_i % 4 == 0 { rng.urange(0, 6) } else { rng.urange(0, 70) };
            let pat = *rng.choose(&PATTERNS);
            let sparse = rng.chance(1, 3);
            let inp = gen_input(&mut rng, n, pat, sparse);
            let members: Vec<Spec> = order.iter().map(|w| gen_member(&mut rng, *w, n)).collect();
            let desc: Vec<&str> = members.iter().map(|m| m.family()).collect();
            cx.rep.nontrivial(&("order", desc));
            run_case(&mut cx, &Spec::Chain(members), &inp, "chain_orders");
        }
    }
    // ---- D: random
    let n_rand = args.budget(24_000, 4_000_000);
    for _ in 0..n_rand {
        let n = match rng.below(10) {
            0 => rng.urange(0, 3),
            1 => *rng.choose(&[4usize, 8, 16, 32, 64, 7, 9, 15, 17, 31, 33, 63, 65]),
            _ => rng.urange(0, 70),
        };
        let pat = *rng.choose(&PATTERNS);
        let sparse = rng.chance(1, 3);
            let inp = gen_input(&mut rng, n, pat, sparse);
        let spec = match rng.below(10) {
            0..=2 => Spec::TopK(rng.urange(0, n + 3)),
            3..=5 => gen_member(&mut rng, 1, n),
            6 => gen_any_member(&mut rng, n),
            _ => {
                let len = rng.urange(1, 5);
                let mut members: Vec<Spec> = (0..len).map(|_| gen_any_member(&mut rng, n)).collect();
                if rng.chance(1, 8) {
                    // one nested chain
                    let inner = vec![gen_any_member(&mut rng, n), gen_any_member(&mut rng, n)];
                    members.push(Spec::Chain(inner));
                }
                Spec::Chain(members)
            }
        };
        run_case(&mut cx, &spec, &inp, "random");
    }

    rep.finish();
}
