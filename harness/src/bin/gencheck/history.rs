//! C32: Generator token history against a reference state machine, observed
//! through a mock `rten_generate::model::Model`.
use std::cell::RefCell;
use std::error::Error;

use rayon::prelude::*;
use rten::{Dimension, NodeId, RunOptions, Value, ValueOrView, ValueView};
use rten_generate::model::{Model, NodeInfo};
use rten_generate::{Generator, GeneratorConfig, ModelInputsConfig};
use rten_tensor::prelude::*;
use rten_tensor::{Tensor, TensorView};
use vcommon::*;

use crate::util::load_witness;

// ------------------------------------------------------------------ mock model

#[derive(Clone, Copy, Debug, PartialEq)]
enum Kv {
    None,
    /// `[batch, seq, chans]`
    Dec3,
    /// `[batch, heads, seq, chans]`
    Dec4,
    /// Optimum "merged" encoder-decoder layout: decoder + encoder caches and a
    /// `use_cache_branch` flag.
    EncDec4,
}

#[derive(Clone, Copy, Debug)]
pub struct Variant {
    name: &'static str,
    kv: Kv,
    layers: usize,
    position_ids: bool,
    cache_position: bool,
    attention_mask: bool,
    capacity: Option<usize>,
}

/// KV-cache models first: the canonical (smallest) witness then names one.
pub const VARIANTS: [Variant; 6] = [
    Variant { name: "kv4", kv: Kv::Dec4, layers: 2, position_ids: true, cache_position: true, attention_mask: true, capacity: None },
    Variant { name: "kv3", kv: Kv::Dec3, layers: 1, position_ids: false, cache_position: true, attention_mask: false, capacity: None },
    Variant { name: "encdec4", kv: Kv::EncDec4, layers: 1, position_ids: true, cache_position: false, attention_mask: false, capacity: None },
    Variant { name: "kv4cap", kv: Kv::Dec4, layers: 1, position_ids: true, cache_position: false, attention_mask: false, capacity: Some(3) },
    Variant { name: "nokv", kv: Kv::None, layers: 0, position_ids: true, cache_position: false, attention_mask: true, capacity: None },
    Variant { name: "nokv_min", kv: Kv::None, layers: 0, position_ids: false, cache_position: false, attention_mask: false, capacity: None },
];

const HEADS: usize = 1;
const CHANS: usize = 2;
const SAMPLE_BASE: u32 = 10;
const MAX_RUNS: u32 = 70;
const VOCAB: usize = (SAMPLE_BASE + MAX_RUNS) as usize;
const PROMPT_BASE: u32 = 1000;
const ENC_LEN: usize = 3;

#[derive(Clone, Copy, Debug, PartialEq)]
enum Role {
    InputIds,
    PositionIds,
    CachePosition,
    AttentionMask,
    UseCache,
    KvIn(usize),
    EncIn(usize),
    Logits,
    KvOut(usize),
    EncOut(usize),
}

type Blob = (Vec<usize>, Vec<f32>);

#[derive(Clone, Debug, Default)]
struct RunRec {
    ids: Vec<i32>,
    ids_shape: Vec<usize>,
    pos: Option<Vec<i32>>,
    cache_pos: Option<Vec<i32>>,
    mask: Option<(Vec<usize>, bool)>,
    use_cache: Option<i32>,
    want_logits: bool,
    /// Decoder cache inputs compared with what the previous run returned.
    kv_checked: usize,
    enc_checked: usize,
    cache_problems: Vec<String>,
    other_problems: Vec<String>,
}

#[derive(Default)]
struct MockState {
    run_no: u32,
    last_kv: Vec<Option<Blob>>,
    enc_first: Vec<Option<Blob>>,
    log: Vec<RunRec>,
}

struct Mock {
    nodes: Vec<NodeInfo>,
    roles: Vec<Role>,
    input_node_ids: Vec<NodeId>,
    kv: Kv,
    state: RefCell<MockState>,
}

impl Mock {
    fn new(v: &Variant) -> Mock {
        let mut inputs: Vec<(String, Vec<Dimension>, Role)> = vec![("input_ids".into(), vec![], Role::InputIds)];
        let mut outputs: Vec<(String, Vec<Dimension>, Role)> = vec![("logits".into(), vec![], Role::Logits)];
        if v.position_ids {
            inputs.push(("position_ids".into(), vec![], Role::PositionIds));
        }
        if v.cache_position {
            inputs.push(("cache_position".into(), vec![], Role::CachePosition));
        }
        if v.attention_mask {
            inputs.push(("attention_mask".into(), vec![], Role::AttentionMask));
        }
        let dims4 = vec![Dimension::Symbolic("batch".into()), Dimension::Fixed(HEADS), Dimension::Symbolic("seq".into()), Dimension::Fixed(CHANS)];
        let dims3 = vec![Dimension::Symbolic("batch".into()), Dimension::Symbolic("seq".into()), Dimension::Fixed(CHANS)];
        let (mut n_kv, mut n_enc) = (0, 0);
        for layer in 0..v.layers {
            match v.kv {
                Kv::None => {}
                Kv::Dec3 | Kv::Dec4 => {
                    let dims = if v.kv == Kv::Dec3 { &dims3 } else { &dims4 };
                    for kind in ["key", "value"] {
                        inputs.push((format!("past_key_values.{}.{}", layer, kind), dims.clone(), Role::KvIn(n_kv)));
                        outputs.push((format!("present.{}.{}", layer, kind), dims.clone(), Role::KvOut(n_kv)));
                        n_kv += 1;
                    }
                }
                Kv::EncDec4 => {
                    for kind in ["key", "value"] {
                        inputs.push((format!("past_key_values.{}.decoder.{}", layer, kind), dims4.clone(), Role::KvIn(n_kv)));
                        outputs.push((format!("present.{}.decoder.{}", layer, kind), dims4.clone(), Role::KvOut(n_kv)));
                        n_kv += 1;
                        inputs.push((format!("past_key_values.{}.encoder.{}", layer, kind), dims4.clone(), Role::EncIn(n_enc)));
                        outputs.push((format!("present.{}.encoder.{}", layer, kind), dims4.clone(), Role::EncOut(n_enc)));
                        n_enc += 1;
                    }
                }
            }
        }
        if v.kv == Kv::EncDec4 {
            inputs.push(("use_cache_branch".into(), vec![], Role::UseCache));
        }
        let n_inputs = inputs.len();
        let all: Vec<(String, Vec<Dimension>, Role)> = inputs.into_iter().chain(outputs).collect();
        Mock {
            nodes: all.iter().map(|(n, d, _)| NodeInfo::from_name_shape(n, d)).collect(),
            roles: all.iter().map(|(_, _, r)| *r).collect(),
            input_node_ids: (0..n_inputs as u32).map(NodeId::from_u32).collect(),
            kv: v.kv,
            state: RefCell::new(MockState { run_no: 0, last_kv: vec![None; n_kv], enc_first: vec![None; n_enc], log: Vec::new() }),
        }
    }

    fn n_calls(&self) -> usize {
        self.state.borrow().log.len()
    }

    fn seq_axis(&self) -> usize {
        if self.kv == Kv::Dec3 { 1 } else { 2 }
    }
}

fn f32_blob(v: &ValueView) -> Option<Blob> {
    let t: TensorView<f32> = v.clone().try_into().ok()?;
    Some((t.shape().to_vec(), t.iter().copied().collect()))
}

fn i32_blob(v: &ValueView) -> Option<(Vec<usize>, Vec<i32>)> {
    let t: TensorView<i32> = v.clone().try_into().ok()?;
    Some((t.shape().to_vec(), t.iter().copied().collect()))
}

fn stamp(run_no: u32, slot: usize, t: usize, c: usize) -> f32 {
    (run_no as usize * 4096 + t * 16 + slot * 4 + c) as f32
}

impl Model for Mock {
    fn find_node(&self, name: &str) -> Option<NodeId> {
        self.nodes.iter().position(|n| n.name() == name).map(|p| NodeId::from_u32(p as u32))
    }

    fn node_info(&self, id: NodeId) -> Option<NodeInfo> {
        self.nodes.get(id.as_usize()).cloned()
    }

    fn input_ids(&self) -> &[NodeId] {
        &self.input_node_ids
    }

    fn run(&self, inputs: Vec<(NodeId, ValueOrView)>, outputs: &[NodeId], _opts: Option<RunOptions>) -> Result<Vec<Value>, Box<dyn Error>> {
        let mut st = self.state.borrow_mut();
        let run_no = st.run_no;
        st.run_no += 1;
        let mut rec = RunRec::default();
        let n_kv = st.last_kv.len();
        let mut kv_in: Vec<Option<Blob>> = vec![None; n_kv];
        let mut seen = vec![false; self.nodes.len()];
        for (id, val) in &inputs {
            let idx = id.as_usize();
            if idx >= self.input_node_ids.len() {
                rec.other_problems.push(format!("value supplied for non-input node {}", idx));
                continue;
            }
            if seen[idx] {
                rec.other_problems.push(format!("input {} supplied twice", self.nodes[idx].name()));
            }
            seen[idx] = true;
            let view = val.as_view();
            match self.roles[idx] {
                Role::InputIds => match i32_blob(&view) {
                    Some((shape, data)) => {
                        rec.ids_shape = shape;
                        rec.ids = data;
                    }
                    None => rec.other_problems.push("input_ids is not an i32 tensor".into()),
                },
                Role::PositionIds => rec.pos = i32_blob(&view).map(|b| b.1),
                Role::CachePosition => rec.cache_pos = i32_blob(&view).map(|b| b.1),
                Role::AttentionMask => rec.mask = i32_blob(&view).map(|(s, d)| (s, d.iter().all(|x| *x == 1))),
                Role::UseCache => rec.use_cache = i32_blob(&view).and_then(|b| b.1.first().copied()),
                Role::KvIn(slot) => match f32_blob(&view) {
                    None => rec.cache_problems.push(format!("cache input {} is not an f32 tensor", self.nodes[idx].name())),
                    Some(blob) => {
                        rec.kv_checked += 1;
                        match &st.last_kv[slot] {
                            None => {
                                if blob.0.get(self.seq_axis()).copied() != Some(0) {
                                    rec.cache_problems.push(format!("first run: cache input {} has shape {:?}, expected sequence length 0", self.nodes[idx].name(), blob.0));
                                }
                            }
                            Some(last) => {
                                if *last != blob {
                                    rec.cache_problems.push(format!(
                                        "cache input {} has shape {:?} data {:?}; the model last returned shape {:?} data {:?}",
                                        self.nodes[idx].name(),
                                        blob.0,
                                        blob.1,
                                        last.0,
                                        last.1
                                    ));
                                }
                            }
                        }
                        kv_in[slot] = Some(blob);
                    }
                },
                Role::EncIn(slot) => match f32_blob(&view) {
                    None => rec.cache_problems.push(format!("cache input {} is not an f32 tensor", self.nodes[idx].name())),
                    Some(blob) => {
                        rec.enc_checked += 1;
                        match &st.enc_first[slot] {
                            None => {
                                if blob.0.get(2).copied() != Some(0) {
                                    rec.cache_problems.push(format!("first run: encoder cache input has shape {:?}, expected sequence length 0", blob.0));
                                }
                            }
                            Some(first) => {
                                if *first != blob {
                                    rec.cache_problems.push(format!("encoder cache input {} differs from what the first run returned", self.nodes[idx].name()));
                                }
                            }
                        }
                    }
                },
                _ => {}
            }
        }
        for (idx, s) in seen.iter().enumerate().take(self.input_node_ids.len()) {
            if !*s {
                let msg = format!("input {} not supplied", self.nodes[idx].name());
                if matches!(self.roles[idx], Role::KvIn(_) | Role::EncIn(_)) { rec.cache_problems.push(msg) } else { rec.other_problems.push(msg) }
            }
        }

        let s = rec.ids.len();
        let ax = self.seq_axis();
        let mut result = Vec::with_capacity(outputs.len());
        for out_id in outputs {
            let idx = out_id.as_usize();
            let role = self.roles.get(idx).copied();
            match role {
                Some(Role::Logits) => {
                    rec.want_logits = true;
                    let mut data = vec![0f32; s * VOCAB];
                    for row in 0..s {
                        let tok = if row + 1 == s { (SAMPLE_BASE + run_no.min(MAX_RUNS - 1)) as usize } else { 0 };
                        data[row * VOCAB + tok] = 5.0;
                    }
                    result.push(Value::FloatTensor(Tensor::from_data(&[1, s, VOCAB], data)));
                }
                Some(Role::KvOut(slot)) => {
                    // The received cache extended by one stamped entry per token.
                    let (in_shape, in_data) = kv_in[slot].clone().unwrap_or_else(|| (if ax == 1 { vec![1, 0, CHANS] } else { vec![1, HEADS, 0, CHANS] }, vec![]));
                    let past = in_shape.get(ax).copied().unwrap_or(0);
                    // heads = 1, batch = 1: rows are [seq, chans] in both layouts.
                    let mut data = in_data.clone();
                    for t in past..past + s {
                        for c in 0..CHANS {
                            data.push(stamp(run_no, slot, t, c));
                        }
                    }
                    let shape: Vec<usize> = if ax == 1 { vec![1, past + s, CHANS] } else { vec![1, HEADS, past + s, CHANS] };
                    if data.len() != shape.iter().product::<usize>() {
                        // The received cache had an unexpected shape; return a fresh one.
                        data = (0..(past + s) * CHANS).map(|i| stamp(run_no, slot, i / CHANS, i % CHANS)).collect();
                    }
                    st.last_kv[slot] = Some((shape.clone(), data.clone()));
                    result.push(Value::FloatTensor(Tensor::from_data(&shape, data)));
                }
                Some(Role::EncOut(slot)) => {
                    if st.enc_first[slot].is_none() {
                        let shape = vec![1, HEADS, ENC_LEN, CHANS];
                        let data: Vec<f32> = (0..ENC_LEN * CHANS).map(|i| 900_000.0 + (slot * 64 + i) as f32).collect();
                        st.enc_first[slot] = Some((shape.clone(), data.clone()));
                        result.push(Value::FloatTensor(Tensor::from_data(&shape, data)));
                    } else {
                        // Optimum models return dummy empty tensors after the first run.
                        result.push(Value::FloatTensor(Tensor::from_data(&[1, HEADS, 0, CHANS], Vec::<f32>::new())));
                    }
                }
                _ => {
                    rec.other_problems.push(format!("unknown output {} requested", idx));
                    return Err(format!("unknown output {}", idx).into());
                }
            }
        }
        st.log.push(rec);
        Ok(result)
    }

    fn partial_run(&self, _inputs: Vec<(NodeId, ValueOrView)>, _outputs: &[NodeId], _opts: Option<RunOptions>) -> Result<Vec<(NodeId, Value)>, Box<dyn Error>> {
        Ok(Vec::new())
    }
}

// ------------------------------------------------------------------ operations

#[derive(Clone, Copy, Debug, PartialEq, Eq, PartialOrd, Ord, Hash)]
pub enum Op {
    Append(usize),
    With(usize),
    Next,
    Process,
    Clear,
}

/// Alphabet in canonical order (append before with_prompt so the smallest
/// witness uses the call documented for adding input after generation).
const ALPHABET: [Op; 11] = [
    Op::Append(0),
    Op::Append(1),
    Op::Append(2),
    Op::Append(3),
    Op::With(0),
    Op::With(1),
    Op::With(2),
    Op::With(3),
    Op::Next,
    Op::Process,
    Op::Clear,
];

impl Op {
    fn name(&self) -> String {
        match self {
            Op::Append(n) => format!("A{}", n),
            Op::With(n) => format!("W{}", n),
            Op::Next => "N".into(),
            Op::Process => "P".into(),
            Op::Clear => "C".into(),
        }
    }
    fn parse(s: &str) -> Op {
        match s.as_bytes()[0] {
            b'A' => Op::Append(s[1..].parse().unwrap()),
            b'W' => Op::With(s[1..].parse().unwrap()),
            b'N' => Op::Next,
            b'P' => Op::Process,
            b'C' => Op::Clear,
            _ => panic!("bad op {:?}", s),
        }
    }
}

fn hist_str(ops: &[Op]) -> String {
    ops.iter().map(|o| o.name()).collect::<Vec<_>>().join(" ")
}

// ------------------------------------------------------------------ reference

/// The reference state machine.
struct Ref {
    kv: bool,
    /// Tokens waiting to be given to the model; flag = already recorded in
    /// `prev` (sampled tokens are recorded when they are produced).
    pending: Vec<(u32, bool)>,
    /// Tokens consumed by a KV-cache model so far.
    consumed: usize,
    prev: Vec<u32>,
}

impl Ref {
    fn with_prompt(&mut self, p: &[u32]) {
        self.pending = p.iter().map(|t| (*t, false)).collect();
    }
    fn append(&mut self, p: &[u32]) {
        self.pending.extend(p.iter().map(|t| (*t, false)));
    }
    fn clear(&mut self) {
        self.pending.clear();
    }
    /// Expected (ids, first position) of the next model run.
    fn expected_run(&self) -> (Vec<u32>, usize) {
        (self.pending.iter().map(|p| p.0).collect(), self.consumed)
    }
    fn ran(&mut self, sampled: Option<u32>) {
        for p in self.pending.iter_mut() {
            if !p.1 {
                self.prev.push(p.0);
                p.1 = true;
            }
        }
        if self.kv {
            self.consumed += self.pending.len();
            self.pending.clear();
        }
        if let Some(t) = sampled {
            self.prev.push(t);
            self.pending.push((t, true));
        }
    }
}

// ------------------------------------------------------------------ execution

#[derive(Clone, Debug)]
pub struct Finding {
    kind: String,
    step: usize,
    detail: String,
}

#[derive(Default, Clone, Debug)]
pub struct ExecStats {
    ops: [u64; 5],
    model_runs: u64,
    runs_multi_token_after_first: u64,
    kv_inputs_compared: u64,
    enc_inputs_compared: u64,
    positions_checked: u64,
    mask_len_as_expected: u64,
    mask_len_other: u64,
    use_cache_flag_as_expected: u64,
    use_cache_flag_other: u64,
    no_result_next_without_pending: u64,
    empty_process_prompt: u64,
    op_error: u64,
    op_panic: u64,
    prompt_accessor_differs: u64,
    sampled_token_unexpected: u64,
    nontrivial: bool,
    last_error: Option<String>,
}

pub struct Exec {
    findings: Vec<Finding>,
    stats: ExecStats,
}

fn is_subsequence(small: &[u32], big: &[u32]) -> bool {
    let mut it = big.iter();
    small.iter().all(|x| it.any(|y| y == x))
}

pub fn execute(v: &Variant, ops: &[Op]) -> Exec {
    let mut stats = ExecStats::default();
    let mut findings: Vec<Finding> = Vec::new();
    let mock = Mock::new(v);
    let cfg = GeneratorConfig { model_inputs: ModelInputsConfig::default(), kv_cache_capacity: v.capacity };
    let mut g = match Generator::from_model_config(&mock, cfg) {
        Ok(g) => g,
        Err(e) => {
            stats.op_error += 1;
            stats.last_error = Some(format!("from_model_config: {}", e));
            return Exec { findings, stats };
        }
    };
    let has_kv = v.kv != Kv::None;
    let mut r = Ref { kv: has_kv, pending: Vec::new(), consumed: 0, prev: Vec::new() };
    let mut next_prompt_tok = PROMPT_BASE;
    let mut prev_broken = false;
    let mut runs_done = 0u32;
    let mut prompt_change_after_run = false;
    let mut seen_kinds: Vec<String> = Vec::new();
    let mut add = |findings: &mut Vec<Finding>, kind: &str, step: usize, detail: String| {
        if !seen_kinds.iter().any(|k| k == kind) {
            seen_kinds.push(kind.to_string());
            findings.push(Finding { kind: kind.to_string(), step, detail });
        }
    };
    let mut fresh = |n: usize| -> Vec<u32> {
        let v: Vec<u32> = (0..n as u32).map(|i| next_prompt_tok + i).collect();
        next_prompt_tok += n as u32;
        v
    };

    for (step, op) in ops.iter().enumerate() {
        match op {
            Op::With(n) => {
                stats.ops[1] += 1;
                let toks = fresh(*n);
                g = g.with_prompt(&toks);
                r.with_prompt(&toks);
                if runs_done > 0 {
                    prompt_change_after_run = true;
                }
            }
            Op::Append(n) => {
                stats.ops[0] += 1;
                let toks = fresh(*n);
                g.append_prompt(&toks);
                r.append(&toks);
                if runs_done > 0 && *n > 0 {
                    prompt_change_after_run = true;
                }
            }
            Op::Clear => {
                stats.ops[4] += 1;
                g.clear_prompt();
                r.clear();
                if runs_done > 0 {
                    prompt_change_after_run = true;
                }
            }
            Op::Next | Op::Process => {
                let is_next = *op == Op::Next;
                if is_next && r.pending.is_empty() {
                    // A model cannot produce "the logits of the last token"
                    // for zero tokens: no result, the history ends here.
                    stats.no_result_next_without_pending += 1;
                    break;
                }
                if runs_done >= MAX_RUNS - 1 {
                    break;
                }
                stats.ops[if is_next { 2 } else { 3 }] += 1;
                if r.pending.is_empty() {
                    stats.empty_process_prompt += 1;
                }
                let calls_before = mock.n_calls();
                let res = catch(|| if is_next { g.next().expect("Generator::next never returns None").map(Some) } else { g.process_prompt().map(|_| None) });
                let sampled = match res {
                    Err(msg) => {
                        stats.op_panic += 1;
                        stats.last_error = Some(msg);
                        break;
                    }
                    Ok(Err(e)) => {
                        stats.op_error += 1;
                        stats.last_error = Some(e.to_string());
                        break;
                    }
                    Ok(Ok(tok)) => tok,
                };
                let (want_ids, first_pos) = r.expected_run();
                let st = mock.state.borrow();
                let calls = &st.log[calls_before..];
                if calls.len() != 1 {
                    add(&mut findings, "model_run_count", step, format!("{} ran the model {} times", op.name(), calls.len()));
                }
                if let Some(rec) = calls.first() {
                    stats.model_runs += 1;
                    if runs_done > 0 && want_ids.len() > 1 {
                        stats.runs_multi_token_after_first += 1;
                    }
                    let got: Vec<u32> = rec.ids.iter().map(|x| *x as u32).collect();
                    if got != want_ids || rec.ids_shape != [1, want_ids.len()] {
                        add(
                            &mut findings,
                            "input_ids_mismatch",
                            step,
                            format!("model run {} received input_ids {:?} (shape {:?}); pending tokens were {:?}", runs_done, got, rec.ids_shape, want_ids),
                        );
                    }
                    if rec.want_logits != is_next {
                        stats.sampled_token_unexpected += 1;
                    }
                    let want_pos: Vec<i32> = if has_kv { (first_pos..first_pos + want_ids.len()).map(|p| p as i32).collect() } else { (0..want_ids.len() as i32).collect() };
                    for (label, got_pos) in [("position_ids", &rec.pos), ("cache_position", &rec.cache_pos)] {
                        if let Some(p) = got_pos {
                            stats.positions_checked += 1;
                            if has_kv && *p != want_pos {
                                add(
                                    &mut findings,
                                    "position_ids_mismatch",
                                    step,
                                    format!("model run {} received {} {:?}; {} tokens were consumed before, so {:?} was expected", runs_done, label, p, first_pos, want_pos),
                                );
                            }
                        }
                    }
                    if has_kv {
                        stats.kv_inputs_compared += rec.kv_checked as u64;
                        stats.enc_inputs_compared += rec.enc_checked as u64;
                        if let Some(p) = rec.cache_problems.first() {
                            add(&mut findings, "kv_cache_mismatch", step, format!("model run {}: {}", runs_done, p));
                        }
                    }
                    // Not part of the statement: counted only.
                    if let Some((shape, ones)) = &rec.mask {
                        let want_len = if has_kv { first_pos + want_ids.len() } else { want_ids.len() };
                        if *shape == [1, want_len] && *ones { stats.mask_len_as_expected += 1 } else { stats.mask_len_other += 1 }
                    }
                    if let Some(flag) = rec.use_cache {
                        if flag == (first_pos > 0) as i32 { stats.use_cache_flag_as_expected += 1 } else { stats.use_cache_flag_other += 1 }
                    }
                    if let Some(t) = sampled {
                        if t != SAMPLE_BASE + runs_done {
                            stats.sampled_token_unexpected += 1;
                        }
                    }
                }
                drop(st);
                runs_done += 1;
                r.ran(sampled);
            }
        }
        // After every operation.
        let want_prompt: Vec<u32> = r.pending.iter().map(|p| p.0).collect();
        if g.prompt() != want_prompt.as_slice() {
            stats.prompt_accessor_differs += 1;
        }
        if !prev_broken && g.prev_tokens() != r.prev.as_slice() {
            prev_broken = true;
            let got = g.prev_tokens().to_vec();
            let missing_only_prompt = is_subsequence(&got, &r.prev) && r.prev.iter().filter(|t| !got.contains(t)).all(|t| *t >= PROMPT_BASE);
            let kind = if missing_only_prompt { "prev_tokens_missing_prompt_tokens" } else { "prev_tokens_mismatch" };
            add(
                &mut findings,
                kind,
                step,
                format!(
                    "after {} prev_tokens() = {:?}; tokens submitted to or sampled from the model so far: {:?} (prompt tokens are >= {}, sampled tokens are {}+run index)",
                    op.name(),
                    got,
                    r.prev,
                    PROMPT_BASE,
                    SAMPLE_BASE
                ),
            );
        }
    }
    stats.nontrivial = runs_done >= 2 && prompt_change_after_run;
    Exec { findings, stats }
}

// ------------------------------------------------------------------ enumeration

/// All operation sequences of exactly `len` operations in which `next` is
/// never called with nothing pending (decided on the reference alone).
fn enumerate(len: usize) -> Vec<Vec<Op>> {
    fn rec(cur: &mut Vec<Op>, pending_kv: usize, pending_nokv: usize, len: usize, out: &mut Vec<Vec<Op>>) {
        if cur.len() == len {
            out.push(cur.clone());
            return;
        }
        for op in ALPHABET {
            // (pending for a KV model, pending for a cache-less model)
            let (a, b) = match op {
                Op::Append(n) => (pending_kv + n, pending_nokv + n),
                Op::With(n) => (n, n),
                Op::Clear => (0, 0),
                Op::Process => (0, pending_nokv),
                Op::Next => {
                    if pending_kv == 0 && pending_nokv == 0 {
                        continue;
                    }
                    (1, pending_nokv + 1)
                }
            };
            cur.push(op);
            rec(cur, a, b, len, out);
            cur.pop();
        }
    }
    let mut out = Vec::new();
    rec(&mut Vec::new(), 0, 0, len, &mut out);
    out
}

fn gen_random(rng: &mut Rng, len: usize) -> Vec<Op> {
    (0..len)
        .map(|_| match rng.below(20) {
            0..=6 => Op::Next,
            7..=11 => Op::Append(rng.urange(0, 3)),
            12..=14 => Op::Process,
            15..=16 => Op::Clear,
            _ => Op::With(rng.urange(0, 3)),
        })
        .collect()
}

fn class_of(v: &Variant) -> &'static str {
    if v.kv == Kv::None { "nokv" } else { "kv" }
}

fn still_fails(v: &Variant, ops: &[Op], kind: &str) -> Option<Finding> {
    execute(v, ops).findings.into_iter().find(|f| f.kind == kind)
}

fn shrink(v: &Variant, ops: &[Op], f: &Finding) -> (Vec<Op>, Finding) {
    let mut ops: Vec<Op> = ops[..=f.step.min(ops.len() - 1)].to_vec();
    let mut f = f.clone();
    let mut budget = 300;
    loop {
        let mut progress = false;
        let mut i = 0;
        while i < ops.len() && budget > 0 {
            let mut cand = ops.clone();
            cand.remove(i);
            budget -= 1;
            if let Some(g) = still_fails(v, &cand, &f.kind) {
                ops = cand[..=g.step].to_vec();
                f = g;
                progress = true;
            } else {
                i += 1;
            }
        }
        for i in 0..ops.len() {
            let smaller = match ops[i] {
                Op::Append(n) if n > 0 => Op::Append(n - 1),
                Op::With(n) if n > 0 => Op::With(n - 1),
                _ => continue,
            };
            if budget == 0 {
                break;
            }
            let mut cand = ops.clone();
            cand[i] = smaller;
            budget -= 1;
            if let Some(g) = still_fails(v, &cand, &f.kind) {
                ops = cand[..=g.step].to_vec();
                f = g;
                progress = true;
            }
        }
        if !progress || budget == 0 {
            return (ops, f);
        }
    }
}

#[derive(Clone)]
struct Cand {
    variant: usize,
    ops: Vec<Op>,
    finding: Finding,
}

fn merge_stats(rep: &mut Report, s: &ExecStats) {
    for (i, name) in ["append_prompt", "with_prompt", "next", "process_prompt", "clear_prompt"].iter().enumerate() {
        rep.add(&format!("op_{}", name), s.ops[i]);
    }
    rep.add("model_runs", s.model_runs);
    rep.add("runs_with_several_tokens_after_first_run", s.runs_multi_token_after_first);
    rep.add("kv_cache_inputs_compared_with_last_returned", s.kv_inputs_compared);
    rep.add("encoder_cache_inputs_compared", s.enc_inputs_compared);
    rep.add("position_inputs_checked", s.positions_checked);
    rep.add("attention_mask_as_expected", s.mask_len_as_expected);
    rep.add("attention_mask_other", s.mask_len_other);
    rep.add("use_cache_flag_as_expected", s.use_cache_flag_as_expected);
    rep.add("use_cache_flag_other", s.use_cache_flag_other);
    rep.add("no_result_next_without_pending_tokens", s.no_result_next_without_pending);
    rep.add("process_prompt_with_nothing_pending", s.empty_process_prompt);
    rep.add("no_result_operation_returned_error", s.op_error);
    rep.add("no_result_operation_panicked", s.op_panic);
    rep.add("prompt_accessor_differs_from_reference", s.prompt_accessor_differs);
    rep.add("sampled_token_or_logits_request_unexpected", s.sampled_token_unexpected);
}

/// Run a batch of (variant, history) cases in parallel.
fn run_batch(rep: &mut Report, cases: &[(usize, Vec<Op>)], best: &mut std::collections::BTreeMap<String, Cand>, origin: &str) {
    let results: Vec<(usize, Exec)> = cases.par_iter().enumerate().map(|(i, (vi, ops))| (i, execute(&VARIANTS[*vi], ops))).collect();
    for (i, ex) in results {
        let (vi, ops) = &cases[i];
        rep.eval();
        rep.count(&format!("histories_{}_{}", origin, VARIANTS[*vi].name));
        rep.max("max_history_length", ops.len() as u64);
        merge_stats(rep, &ex.stats);
        if ex.stats.nontrivial {
            rep.nontrivial(&(*vi, ops));
        }
        if let Some(e) = &ex.stats.last_error {
            if !rep.notes.contains_key("example_no_result") {
                rep.note("example_no_result", json!({"model": VARIANTS[*vi].name, "history": hist_str(ops), "message": e}));
            }
        }
        if rep.wants_sample() && ex.stats.nontrivial && ex.findings.is_empty() && ops.len() >= 5 && i % 977 == 0 {
            rep.sample(|| json!({"model": VARIANTS[*vi].name, "history": hist_str(ops), "model_runs": ex.stats.model_runs}));
        }
        for f in ex.findings {
            rep.count(&format!("failing_histories_{}", f.kind));
            let key = format!("{}|{}", f.kind, class_of(&VARIANTS[*vi]));
            let cand_ops: Vec<Op> = ops[..=f.step].to_vec();
            let better = match best.get(&key) {
                None => true,
                Some(b) => (cand_ops.len(), &cand_ops, *vi) < (b.ops.len(), &b.ops, b.variant),
            };
            if better {
                best.insert(key, Cand { variant: *vi, ops: cand_ops, finding: f });
            }
        }
    }
}

fn report_all(rep: &mut Report, best: std::collections::BTreeMap<String, Cand>, origin: &str) {
    for (_key, c) in best {
        let v = &VARIANTS[c.variant];
        let (ops, f) = shrink(v, &c.ops, &c.finding);
        rep.violation(
            format!("C32|{}|model={}|hist={}", f.kind, v.name, hist_str(&ops)),
            format!("mock model '{}', history [{}] (A<n>=append_prompt of n tokens, W<n>=with_prompt, N=next, P=process_prompt, C=clear_prompt): {}", v.name, hist_str(&ops), f.detail),
            json!({"mode": "c32", "kind": f.kind, "variant": v.name, "hist": ops.iter().map(|o| o.name()).collect::<Vec<_>>(), "origin": origin}),
        );
    }
}

pub fn run(args: &Args) {
    let mut rep = Report::new(
        "C32",
        "gencheck c32",
        args,
        "histories over append_prompt / with_prompt (0-3 fresh tokens) / next / process_prompt / clear_prompt run against Generator with six mock models (4-d and 3-d KV cache, encoder-decoder with use_cache_branch, reserved capacity, two cache-less models); the mock logs every run (input_ids, position_ids, cache_position, cache tensors compared with the stamped tensors it returned last) and makes the sampled token 10+run index. A reference state machine predicts input_ids, first position and prev_tokens() after every operation. Exhaustive: all histories of length <=4 (quick) / <=6 (thorough) in which next is never called with nothing pending (that is 'no result'); plus random histories of length 7-40. Non-trivial = at least two model runs and a prompt change (append/with/clear) after the first run; distinct by (model, history)",
    );
    rep.max_samples = 6;
    let mut best: std::collections::BTreeMap<String, Cand> = Default::default();

    if let Some(path) = &args.replay {
        let w = load_witness(path);
        let name = w["variant"].as_str().expect("variant");
        let vi = VARIANTS.iter().position(|v| v.name == name).expect("known variant");
        let ops: Vec<Op> = w["hist"].as_array().expect("hist").iter().map(|s| Op::parse(s.as_str().unwrap())).collect();
        run_batch(&mut rep, &[(vi, ops)], &mut best, "replay");
        report_all(&mut rep, best, "replay");
        rep.nontrivial(&0u8);
        rep.finish();
        return;
    }

    // ---- exhaustive part. Lengths <= 4 are run by every shard (so that the
    // smallest witness does not depend on the sharding); longer ones are split.
    let max_len = if args.thorough { 6 } else { 4 };
    let mut enumerated = serde_json::Map::new();
    for len in 1..=max_len {
        let hs = enumerate(len);
        enumerated.insert(format!("len{}", len), json!(hs.len()));
        let mut cases: Vec<(usize, Vec<Op>)> = Vec::new();
        for (hi, h) in hs.iter().enumerate() {
            if len > 4 && hi % args.shards != args.shard {
                continue;
            }
            for vi in 0..VARIANTS.len() {
                cases.push((vi, h.clone()));
            }
        }
        for chunk in cases.chunks(400_000) {
            run_batch(&mut rep, chunk, &mut best, "exhaustive");
        }
    }
    rep.note("histories_enumerated_per_length", Json::Object(enumerated));
    rep.exhaustive = args.shards == 1;

    // ---- random longer histories
    let n_rand = args.budget(6_000, 600_000);
    let mut rng = Rng::derive(args.seed, 0xC32 + 7919 * args.shard as u64);
    let mut cases: Vec<(usize, Vec<Op>)> = Vec::new();
    for _ in 0..n_rand {
        let len = rng.urange(7, 40);
        cases.push((rng.below(VARIANTS.len()), gen_random(&mut rng, len)));
    }
    for chunk in cases.chunks(200_000) {
        run_batch(&mut rep, chunk, &mut best, "random");
    }

    let no_result = rep.counters.get("no_result_operation_returned_error").copied().unwrap_or(0) + rep.counters.get("no_result_operation_panicked").copied().unwrap_or(0);
    if no_result * 10 > rep.evaluations {
        rep.inconclusive = Some(format!("{} of {} histories ended in an error or panic of the generator", no_result, rep.evaluations));
    }
    report_all(&mut rep, best, "search");
    rep.finish();
}
