//! C33: ArgMax and Multinomial samplers.
use rten_generate::Logits;
use rten_generate::sampler::{ArgMax, Multinomial, Sampler};
use vcommon::*;

use crate::util::*;

#[derive(Clone, Debug)]
pub struct Set {
    pub vals: Vec<f32>,
    pub ids: Vec<u32>,
    pub dense: bool,
}

impl Set {
    fn logits(&self) -> Logits {
        if self.dense { Logits::dense(self.vals.clone()) } else { Logits::sparse(self.vals.clone(), self.ids.clone()) }
    }
    fn to_json(&self) -> Json {
        json!({"dense": self.dense, "vals": bits_json(&self.vals), "vals_text": fvec_str(&self.vals), "ids": self.ids})
    }
    fn from_json(j: &Json) -> Set {
        Set {
            vals: bits_from_json(&j["vals"]),
            ids: j["ids"].as_array().unwrap().iter().map(|x| x.as_u64().unwrap() as u32).collect(),
            dense: j["dense"].as_bool().unwrap(),
        }
    }
    fn layout(&self) -> String {
        if self.dense { "dense".into() } else { format!("sparse:{:?}", self.ids) }
    }
    fn score_of(&self, id: u32) -> Option<f32> {
        self.ids.iter().position(|x| *x == id).map(|p| self.vals[p])
    }
}

const PATTERNS: [&str; 8] = ["uniformish", "ties", "all_equal", "neg_inf_mix", "huge_spread", "peaked", "first_neg_inf", "ascending"];

fn gen_set(rng: &mut Rng, n: usize, pattern: &str, sparse: bool) -> Set {
    let mut vals: Vec<f32> = match pattern {
        "uniformish" | "neg_inf_mix" | "first_neg_inf" => (0..n).map(|_| rng.f32_in(-2.0, 2.0)).collect(),
        "ties" => {
            let m = rng.urange(1, 4);
            (0..n).map(|_| rng.below(m) as f32).collect()
        }
        "all_equal" => vec![*rng.choose(&[0.0f32, -3.5, 1e30, -1e30, 100.0]); n],
        "huge_spread" => (0..n)
            .map(|_| match rng.below(6) {
                0 => rng.f32_in(-3e38, 3e38),
                1 => rng.f32_in(-1e4, 1e4),
                2 => rng.f32_in(-100.0, 100.0),
                3 => f32::MAX,
                4 => f32::MIN,
                _ => rng.f32_in(-1.0, 1.0),
            })
            .collect(),
        "peaked" => {
            let mut v: Vec<f32> = (0..n).map(|_| rng.f32_in(-1.0, 1.0)).collect();
            let i = rng.below(n);
            v[i] += rng.f32_in(5.0, 40.0);
            v
        }
        "ascending" => (0..n).map(|i| i as f32 * 0.01).collect(),
        _ => unreachable!(),
    };
    match pattern {
        "neg_inf_mix" => {
            for v in vals.iter_mut() {
                if rng.chance(1, 3) {
                    *v = f32::NEG_INFINITY;
                }
            }
        }
        "first_neg_inf" => {
            vals[0] = f32::NEG_INFINITY;
            if n > 2 && rng.bool() {
                let last = n - 1;
                vals[last] = f32::NEG_INFINITY;
            }
        }
        _ => {}
    }
    // At least one finite entry: the statement is about valid candidate sets.
    if !vals.iter().any(|v| v.is_finite()) {
        let i = rng.below(n);
        vals[i] = 0.5;
    }
    if !sparse {
        let ids = (0..n as u32).collect();
        return Set { vals, ids, dense: true };
    }
    let mut pool: Vec<u32> = (0..(n as u32 * 3 + 7)).collect();
    rng.shuffle(&mut pool);
    let mut ids = pool[..n].to_vec();
    if rng.bool() {
        ids.sort();
    }
    Set { vals, ids, dense: false }
}

#[derive(Clone, Debug)]
struct Fail {
    kind: &'static str,
    detail: String,
    seed: u64,
    draws: usize,
    /// The offending id is the first candidate of the set.
    first: bool,
}

fn check_argmax(set: &Set) -> Result<(), Fail> {
    let lg = set.logits();
    let id = match catch(|| ArgMax::new().sample(&lg)) {
        Ok(id) => id,
        Err(msg) => return Err(Fail { kind: "argmax_panic", detail: msg, seed: 0, draws: 0, first: false }),
    };
    let Some(score) = set.score_of(id) else {
        return Err(Fail { kind: "argmax_foreign_id", detail: format!("returned id {} which is not a candidate", id), seed: 0, draws: 0, first: false });
    };
    let max = set.vals.iter().copied().fold(f32::NEG_INFINITY, f32::max);
    if score < max {
        return Err(Fail { kind: "argmax_not_maximal", detail: format!("returned id {} with score {} but the maximum is {}", id, fstr(score), fstr(max)), seed: 0, draws: 0, first: false });
    }
    Ok(())
}


const ZERO_TARGET: &str = "multinomial_zero_probability_id_target_zero";
const ABOVE_SUM: &str = "multinomial_zero_probability_id_target_above_sum";

/// Does draw number `d` (0-based) of a sampler seeded with `seed` select the
/// first candidate of the control set [-inf, 0]? Its probabilities are exactly
/// [0, 1], so that only happens when the random target is exactly 0. Every
/// draw consumes one random number whatever the candidate set is, so this
/// classifies draw `d` of any other set sampled with the same seed.
fn zero_target_at(seed: u64, d: usize) -> bool {
    let ctl = Logits::dense(vec![f32::NEG_INFINITY, 0.0]);
    let c = Multinomial::with_seed(seed);
    for _ in 0..d {
        c.sample(&ctl);
    }
    c.sample(&ctl) == 0
}

/// Draw `draws` tokens with two identically seeded samplers. With
/// `skip_zero_target`, zero-probability ids drawn because the random target
/// was exactly 0 are passed over (used to look for the other mechanism).
fn check_multinomial(set: &Set, seed: u64, draws: usize, skip_zero_target: bool) -> Result<u64, Fail> {
    let lg = set.logits();
    let res = catch(|| {
        let a = Multinomial::with_seed(seed);
        let b = Multinomial::with_seed(seed);
        let mut distinct = std::collections::HashSet::new();
        for d in 0..draws {
            let x = a.sample(&lg);
            let y = b.sample(&lg);
            if x != y {
                return Err(Fail { kind: "multinomial_seed_not_reproducible", detail: format!("draw {}: {} vs {}", d, x, y), seed, draws: d + 1, first: false });
            }
            match set.score_of(x) {
                None => {
                    return Err(Fail { kind: "multinomial_foreign_id", detail: format!("draw {} returned id {} which is not a candidate", d, x), seed, draws: d + 1, first: false });
                }
                Some(s) if s == f32::NEG_INFINITY => {
                    let zero_target = zero_target_at(seed, d);
                    if zero_target && skip_zero_target {
                        continue;
                    }
                    return Err(Fail {
                        kind: if zero_target { ZERO_TARGET } else { ABOVE_SUM },
                        detail: format!(
                            "draw {} of Multinomial::with_seed({}) returned id {} whose logit is -inf (probability exactly 0); {}",
                            d,
                            seed,
                            x,
                            if zero_target {
                                "the same draw selects the zero-probability entry of [-inf, 0] too, i.e. the random target was exactly 0 and `target <= cum_prob` holds at a zero-probability entry"
                            } else {
                                "the same draw on [-inf, 0] selects the second entry, so the target was not 0: it exceeded the f32 cumulative sum of the softmax output and the sampler fell back to index 0"
                            }
                        ),
                        seed,
                        draws: d + 1,
                        first: set.ids.first() == Some(&x),
                    });
                }
                _ => {}
            }
            distinct.insert(x);
        }
        Ok(distinct.len() as u64)
    });
    match res {
        Ok(r) => r,
        Err(msg) => Err(Fail { kind: "multinomial_panic", detail: msg, seed, draws, first: false }),
    }
}

fn fails_same(set: &Set, f: &Fail, isa: IsaKind) -> Option<Fail> {
    // Only valid candidate sets: at least one finite logit.
    if !set.vals.iter().any(|v| v.is_finite()) {
        return None;
    }
    let r = with_isa(isa, || if f.kind.starts_with("argmax") { check_argmax(set) } else { check_multinomial(set, f.seed, f.draws, f.kind == ABOVE_SUM).map(|_| ()) });
    match r {
        Err(g) if g.kind == f.kind => Some(g),
        _ => None,
    }
}

fn shrink(set: Set, fail: Fail, isa: IsaKind) -> (Set, Fail) {
    let (mut set, mut fail) = (set, fail);
    // Each attempt replays up to `draws` draws over `n` candidates.
    let cost = (fail.draws.max(1) * set.vals.len().max(1)) as u64;
    let mut budget: i64 = if cost <= 4_000_000 { 300 } else { (1_200_000_000 / cost).clamp(4, 300) as i64 };
    loop {
        let mut progress = false;
        if !set.dense && budget > 0 {
            let cand = Set { vals: set.vals.clone(), ids: (0..set.vals.len() as u32).collect(), dense: true };
            budget -= 1;
            if let Some(g) = fails_same(&cand, &fail, isa) {
                set = cand;
                fail = g;
                progress = true;
            }
        }
        // halves first, then single elements
        let mut chunk = (set.vals.len() / 2).max(1);
        loop {
            let mut i = 0;
            while i + chunk <= set.vals.len() && set.vals.len() > chunk && budget > 0 {
                let mut cand = set.clone();
                cand.vals.drain(i..i + chunk);
                cand.ids.drain(i..i + chunk);
                if cand.dense {
                    cand.ids = (0..cand.vals.len() as u32).collect();
                }
                budget -= 1;
                if let Some(g) = fails_same(&cand, &fail, isa) {
                    set = cand;
                    fail = g;
                    progress = true;
                } else {
                    i += chunk;
                }
            }
            if chunk == 1 {
                break;
            }
            chunk /= 2;
        }
        for i in 0..set.vals.len() {
            if budget <= 0 {
                break;
            }
            if set.vals[i] == 0.0 || set.vals[i] == f32::NEG_INFINITY {
                continue;
            }
            let mut cand = set.clone();
            cand.vals[i] = 0.0;
            budget -= 1;
            if let Some(g) = fails_same(&cand, &fail, isa) {
                set = cand;
                fail = g;
                progress = true;
            }
        }
        if !progress || budget <= 0 {
            break;
        }
    }
    (set, fail)
}

fn canonicalise(set: Set, fail: Fail, isa: IsaKind) -> (Set, Fail) {
    let (mut set, mut fail) = (set, fail);
    if !set.dense {
        // Sparse ids 1..=n: the smallest layout that is not the dense one.
        let cand = Set { vals: set.vals.clone(), ids: (1..=set.vals.len() as u32).collect(), dense: false };
        if let Some(g) = fails_same(&cand, &fail, isa) {
            set = cand;
            fail = g;
        }
    }
    if fail.seed != 0 && !fail.kind.starts_with("argmax") && set.vals.len() <= 8 {
        let mut f0 = fail.clone();
        f0.seed = 0;
        f0.draws = 20_000;
        if let Some(g) = fails_same(&set, &f0, isa) {
            fail = g;
        }
    }
    (set, fail)
}

fn report(rep: &mut Report, isas: &[(IsaKind, &'static str)], set: &Set, fail: Fail, isa: IsaKind, origin: &str) {
    rep.count(&format!("failing_cases_{}", fail.kind));
    let key = format!("shrunk_{}", fail.kind);
    if rep.counters.get(&key).copied().unwrap_or(0) >= 6 {
        rep.suppressed_violations += 1;
        return;
    }
    rep.count(&key);
    let (small, sfail) = shrink(set.clone(), fail, isa);
    let (small, sfail) = canonicalise(small, sfail, isa);
    let on: Vec<&str> = isas.iter().filter(|(k, _)| fails_same(&small, &sfail, *k).is_some()).map(|(_, n)| *n).collect();
    let isa_txt = if on.len() == isas.len() { "all".to_string() } else { on.join("+") };
    let sig = if sfail.kind == ABOVE_SUM && sfail.first {
        // Whether the target exceeds the rounded cumulative sum depends on
        // the last bits of the softmax output, hence on the candidate set,
        // the seed and the instruction set; the finding is the fallback
        // itself, the concrete case is in the witness.
        format!("C33|{}|fallback_returns_first_candidate_with_logit=-inf", sfail.kind)
    } else if small.vals.len() <= 8 {
        format!("C33|{}|{}|logits={}|seed={}|draw={}|isa={}", sfail.kind, small.layout(), fvec_str(&small.vals), sfail.seed, sfail.draws, isa_txt)
    } else {
        let bits: Vec<u32> = small.vals.iter().map(|v| v.to_bits()).collect();
        format!("C33|{}|{}|n={}|logits#{:016x}|seed={}|draw={}|isa={}", sfail.kind, if small.dense { "dense" } else { "sparse" }, small.vals.len(), hash_of(&(bits, &small.ids)), sfail.seed, sfail.draws, isa_txt)
    };
    rep.violation(
        sig,
        format!("{} candidates ({}) logits {}: {}: {}", small.vals.len(), small.layout().chars().take(40).collect::<String>(), fvec_str(&small.vals).chars().take(120).collect::<String>(), sfail.kind, sfail.detail),
        json!({"mode": "c33", "kind": sfail.kind, "set": small.to_json(), "seed": sfail.seed, "draws": sfail.draws, "isas_failing": on, "origin": origin}),
    );
}

fn run_set(rep: &mut Report, isas: &[(IsaKind, &'static str)], set: &Set, seed: u64, draws: usize, skip_zero_target: bool, origin: &str) {
    rep.eval();
    rep.count(if set.dense { "sets_dense" } else { "sets_sparse" });
    rep.max("max_candidates", set.vals.len() as u64);
    if set.vals.len() == 1 {
        rep.count("sets_single_candidate");
    }
    if set.vals.iter().any(|v| *v == f32::NEG_INFINITY) {
        rep.count("sets_with_neg_inf");
    }
    let max = set.vals.iter().copied().fold(f32::NEG_INFINITY, f32::max);
    if set.vals.iter().filter(|v| **v == max).count() > 1 {
        rep.count("sets_with_tied_maximum");
    }
    for (isa, name) in isas {
        rep.count(&format!("isa_{}_sets", name));
        rep.count("argmax_samples");
        if let Err(f) = with_isa(*isa, || check_argmax(set)) {
            report(rep, isas, set, f, *isa, origin);
            return;
        }
        match with_isa(*isa, || check_multinomial(set, seed, draws, skip_zero_target)) {
            Ok(distinct) => {
                rep.add("multinomial_draws", 2 * draws as u64);
                rep.max("max_distinct_ids_drawn", distinct);
            }
            Err(f) => {
                rep.add("multinomial_draws", 2 * f.draws as u64);
                report(rep, isas, set, f, *isa, origin);
                return;
            }
        }
    }
    if set.vals.len() >= 2 {
        let bits: Vec<u32> = set.vals.iter().map(|v| v.to_bits()).collect();
        rep.nontrivial(&(bits, &set.ids));
    }
    if rep.wants_sample() && set.vals.len() >= 3 && set.vals.len() <= 6 {
        rep.sample(|| json!({"set": set.to_json(), "seed": seed, "draws": draws}));
    }
}

/// Seed-independent directed search for the two ways `Multinomial::sample`
/// can return a first candidate of probability exactly 0:
/// (a) the random target is exactly 0 (`0 <= 0` at the first entry);
/// (b) the f32 cumulative sum of the softmax output stays below the target,
///     no entry is selected and the documented fallback returns index 0.
/// The softmax is evaluated here only to pick a promising candidate set for
/// (b); the verdict is taken from what the sampler returns.
fn directed(rep: &mut Report, isas: &[(IsaKind, &'static str)], cap: usize) {
    use rten_simd::SimdOp;
    use rten_vecmath::Softmax;
    // (a): does not depend on the softmax, hence not on the instruction set.
    let ctl = Set { vals: vec![f32::NEG_INFINITY, 0.0], ids: vec![0, 1], dense: true };
    rep.count("directed_searches");
    run_set(rep, isas, &ctl, 0, cap.min(2_000_000), false, "directed_zero_target");
    // (b)
    let mut covered: Vec<&str> = Vec::new();
    for (isa, name) in isas {
        if covered.contains(name) {
            continue;
        }
        let mut rng = Rng::new(0xC33D);
        let mut best: Option<(f32, Vec<f32>)> = None;
        for n in [5usize, 6, 8] {
            for _ in 0..3000 {
                let mut vals: Vec<f32> = (0..n).map(|_| (rng.range(-16, 16) as f32) / 8.0).collect();
                vals[0] = f32::NEG_INFINITY;
                let mut probs = vals.clone();
                with_isa(*isa, || {
                    Softmax::new_mut(&mut probs).dispatch();
                });
                let cum = probs.iter().fold(0f32, |a, p| a + *p);
                if best.as_ref().map(|b| cum < b.0).unwrap_or(true) {
                    best = Some((cum, vals));
                }
            }
        }
        let (cum, vals) = best.unwrap();
        rep.note(&format!("directed_above_sum_{}", name), json!({"logits": fvec_str(&vals), "f32_cumulative_softmax": format!("1-{:e}", 1.0 - cum as f64), "max_draws": cap}));
        let ids = (0..vals.len() as u32).collect();
        let set = Set { vals, ids, dense: true };
        rep.eval();
        rep.count("directed_searches");
        // Many seeds, 100000 draws each: the witness then replays quickly.
        let per_seed = 100_000usize;
        let mut hit: Option<Fail> = None;
        let mut drawn = 0u64;
        for seed in 0..(cap / per_seed).max(1) as u64 {
            match with_isa(*isa, || check_multinomial(&set, seed, per_seed, true)) {
                Ok(_) => drawn += 2 * per_seed as u64,
                Err(f) => {
                    drawn += 2 * f.draws as u64;
                    hit = Some(f);
                    break;
                }
            }
        }
        rep.add("multinomial_draws", drawn);
        match hit {
            None => rep.count("directed_above_sum_not_reached"),
            Some(f) => {
                rep.note(&format!("directed_above_sum_hit_{}", name), json!({"seed": f.seed, "draw": f.draws - 1}));
                // The same witness under the other instruction sets: no
                // separate search where it fails as well.
                for (other, other_name) in isas {
                    if fails_same(&set, &f, *other).is_some() {
                        covered.push(other_name);
                    }
                }
                report(rep, isas, &set, f, *isa, "directed_above_sum");
            }
        }
    }
}

pub fn run(args: &Args) {
    let mut rep = Report::new(
        "C33",
        "gencheck c33",
        args,
        "dense and sparse candidate sets of 1..=200 logits (finite and -inf entries with at least one finite; for ArgMax also sets that are entirely -inf; two vocabulary-sized sets of 65536 / 131072 logits with a zero-probability tail, ties, all-equal, single candidate, spreads up to +-3e38) under every forced instruction set. ArgMax: returned id is a candidate whose score is >= every score. Multinomial: two samplers built with the same seed draw the same ids; every drawn id is a candidate and its logit is not -inf. Plus a seed-independent directed search (sampler seeds 0.., 100000 draws each, up to 2e7 / 2e8 draws) for the two ways a zero-probability first candidate can be returned: a random target of exactly 0 (control set [-inf, 0]), and the documented 'fall back to index 0' when the target exceeds the rounded cumulative sum (fixed set whose first logit is -inf and whose f32 softmax sums to less than 1, per instruction set). Non-trivial = at least 2 candidates; distinct by (logits bits, ids)",
    );
    let isas = usable_isas(&mut rep);
    if isas.is_empty() {
        rep.finish();
        return;
    }

    if let Some(path) = &args.replay {
        let w = load_witness(path);
        let set = Set::from_json(&w["set"]);
        let seed = w["seed"].as_u64().unwrap_or(0);
        let draws = w["draws"].as_u64().unwrap_or(1) as usize;
        let skip = w["kind"].as_str() == Some(ABOVE_SUM);
        run_set(&mut rep, &isas, &set, seed, draws.max(1), skip, "replay");
        rep.nontrivial(&0u8);
        rep.finish();
        return;
    }

    let mut rng = Rng::derive(args.seed, 0xC33 + 131 * args.shard as u64);
    let draws = if args.thorough { 10_000 } else { 400 };
    rep.note("draws_per_set_per_isa", json!(draws));

    // Every size once per pattern (sharded), then random sets.
    let mut counter = 0usize;
    for n in 1..=200usize {
        for (pi, pat) in PATTERNS.iter().enumerate() {
            counter += 1;
            if counter % args.shards != args.shard {
                continue;
            }
            if !args.thorough && n > 24 && (n + pi) % 5 != 0 {
                continue;
            }
            let set = gen_set(&mut rng, n, pat, (n + pi) % 2 == 0);
            let seed = rng.next_u64();
            run_set(&mut rep, &isas, &set, seed, draws, false, "size_grid");
        }
    }
    let n_sets = args.budget(400, 8_000);
    for _ in 0..n_sets {
        let n = match rng.below(8) {
            0 => 1,
            1 => rng.urange(2, 4),
            2 => *rng.choose(&[8usize, 16, 32, 64, 128, 200, 17, 33]),
            _ => rng.urange(1, 200),
        };
        let pat = *rng.choose(&PATTERNS);
        let sparse = rng.chance(1, 2);
        let set = gen_set(&mut rng, n, pat, sparse);
        let seed = rng.next_u64();
        run_set(&mut rep, &isas, &set, seed, draws, false, "random");
    }

    // ArgMax on sets whose scores are all -inf (every candidate is maximal): the
    // returned id must still be one of the candidates. Multinomial is not asked:
    // the probabilities of such a set are undefined.
    for n in [1usize, 2, 3, 7, 16, 33] {
        for sparse in [false, true] {
            let mut set = gen_set(&mut rng, n, "uniformish", sparse);
            for v in set.vals.iter_mut() {
                *v = f32::NEG_INFINITY;
            }
            if sparse {
                // make sure id 0 is not a candidate
                for id in set.ids.iter_mut() {
                    *id += 5;
                }
            }
            for (isa, _) in &isas {
                rep.eval();
                rep.count("argmax_all_neg_inf_sets");
                if let Err(f) = with_isa(*isa, || check_argmax(&set)) {
                    report(&mut rep, &isas, &set, f, *isa, "all_neg_inf");
                    break;
                }
            }
        }
    }
    // Large candidate sets (vocabulary sized) whose tail has probability exactly 0:
    // the f32 cumulative sum falls short of 1 by about n * 3e-8, so the "target above
    // the sum" fallback is reached within a few thousand draws.
    if args.shard == args.shards - 1 {
        for (n, tail) in [(65_536usize, 1usize), (131_072, 3)] {
            let mut vals: Vec<f32> = (0..n).map(|_| rng.f32_in(-2.0, 2.0)).collect();
            // One dominant candidate (p ~ 0.996) first: the many tiny probabilities that
            // follow are partly lost when added to the running f32 sum.
            vals[0] = (n as f32 * 1.8 * 250.0).ln();
            for v in vals[n - tail..].iter_mut() {
                *v = f32::NEG_INFINITY;
            }
            let ids = (0..n as u32).collect();
            let set = Set { vals, ids, dense: true };
            let big_draws = if args.thorough { 6000 } else { 1500 };
            rep.count("vocabulary_sized_sets");
            run_set(&mut rep, &isas[..1.min(isas.len())], &set, rng.next_u64(), big_draws, true, "vocabulary_sized");
        }
    }

    if args.shard == 0 {
        directed(&mut rep, &isas, args.get_u64("directed", if args.thorough { 200_000_000 } else { 20_000_000 }) as usize);
    }

    rep.finish();
}
