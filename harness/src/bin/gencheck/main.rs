//! gencheck: runtime monitors for rten-generate (C31 C32 C33).
//!
//!   gencheck c31   logit filters vs sort-based references, every ISA
//!   gencheck c32   Generator token history vs a reference state machine
//!   gencheck c33   ArgMax / Multinomial samplers
use vcommon::*;

mod filters;
mod history;
mod samplers;
mod util;

fn main() {
    run_main(real_main)
}

fn real_main() {
    let args = Args::parse();
    match args.cmd.as_str() {
        "c31" => filters::run(&args),
        "c32" => history::run(&args),
        "c33" => samplers::run(&args),
        other => {
            eprintln!("unknown sub-command {:?}", other);
            std::process::exit(3);
        }
    }
}
