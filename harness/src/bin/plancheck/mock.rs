//! Mock operators, graph construction from a `GSpec`, and execution of plans
//! through the real executor.
use std::sync::{Arc, Mutex};

use rten::verif::{
    CaptureEnv, Graph, InPlaceInputs, InferShapes, NodeId, OpError, OpRunContext, Operator, OutputList, OutputTypeList, OutputTypesContext, PlanOptions, Profiler,
    RunError, SubgraphOperator, WeightCache,
};
use rten::{RunOptions, Value, ValueOrView};
use rten_base::bit_set::BitSet;
use rten_tensor::Tensor;
use smallvec::SmallVec;

use crate::spec::*;

/// Order in which the executor ran the mock operators (operator index;
/// bit 31 set = ran in place).
pub type ExecLog = Arc<Mutex<Vec<u32>>>;

fn mock_value() -> Value {
    Value::from(1.0f32)
}

#[derive(Debug)]
pub struct MockOp {
    pub idx: u32,
    pub n_out: usize,
    pub in_place: bool,
    pub log: Option<ExecLog>,
}

impl MockOp {
    fn record(&self, flag: u32) {
        if let Some(log) = &self.log {
            log.lock().unwrap().push(self.idx | flag);
        }
    }
}

impl Operator for MockOp {
    fn name(&self) -> &str {
        "Mock"
    }

    fn run(&self, _ctx: &OpRunContext) -> Result<OutputList, OpError> {
        self.record(0);
        Ok((0..self.n_out).map(|_| mock_value()).collect())
    }

    fn max_inputs(&self) -> Option<usize> {
        None
    }

    fn max_outputs(&self) -> Option<usize> {
        None
    }

    fn output_types(&self, _ctx: &OutputTypesContext) -> Option<OutputTypeList> {
        None
    }

    fn in_place_inputs(&self) -> BitSet<u16> {
        if self.in_place { BitSet::from_indices([0]) } else { BitSet::new() }
    }

    fn run_in_place(&self, in_place: InPlaceInputs, _ctx: &OpRunContext) -> Result<OutputList, OpError> {
        self.record(1 << 31);
        let mut out: OutputList = in_place.into_iter().map(|(_, v)| v).take(1).collect();
        while out.len() < self.n_out {
            out.push(mock_value());
        }
        Ok(out)
    }

    fn as_infer_shapes(&self) -> Option<&dyn InferShapes> {
        None
    }
}

/// An operator with a subgraph that captures values of the enclosing graph by
/// name. Running it runs the subgraph, so a capture that is not available at
/// that point is noticed by the real executor.
pub struct MockSub {
    pub idx: u32,
    pub n_out: usize,
    pub graph: Graph,
    pub log: Option<ExecLog>,
}

impl std::fmt::Debug for MockSub {
    fn fmt(&self, f: &mut std::fmt::Formatter<'_>) -> std::fmt::Result {
        write!(f, "MockSub#{}", self.idx)
    }
}

impl Operator for MockSub {
    fn name(&self) -> &str {
        "MockSub"
    }

    fn run(&self, _ctx: &OpRunContext) -> Result<OutputList, OpError> {
        Err(OpError::InvalidValue("operator must be run with `run_subgraph`"))
    }

    fn max_inputs(&self) -> Option<usize> {
        None
    }

    fn max_outputs(&self) -> Option<usize> {
        None
    }

    fn output_types(&self, _ctx: &OutputTypesContext) -> Option<OutputTypeList> {
        None
    }

    fn as_subgraph_op(&self) -> Option<&dyn SubgraphOperator> {
        Some(self as &dyn SubgraphOperator)
    }

    fn as_infer_shapes(&self) -> Option<&dyn InferShapes> {
        None
    }
}

impl SubgraphOperator for MockSub {
    fn subgraphs(&self) -> SmallVec<[&Graph; 2]> {
        let mut v = SmallVec::new();
        v.push(&self.graph);
        v
    }

    fn run_subgraph<'a>(
        &'a self,
        ctx: &OpRunContext,
        captures: CaptureEnv,
        _weight_cache: Option<&[WeightCache]>,
        _profiler: Option<&mut Profiler<'a>>,
        run_opts: Option<RunOptions>,
    ) -> Result<OutputList, RunError> {
        if let Some(log) = &self.log {
            if self.idx != u32::MAX {
                log.lock().unwrap().push(self.idx);
            }
        }
        self.graph.run_subgraph(Vec::new(), self.graph.output_ids(), captures, ctx.pool(), None, None, run_opts)?;
        Ok((0..self.n_out).map(|_| mock_value()).collect())
    }
}

/// Subgraph that captures `names` from the enclosing scope and feeds them to
/// one mock operator. With `nested`, the captures happen one level deeper.
fn capture_subgraph(names: &[String], nested: bool) -> Graph {
    let mut g = Graph::new();
    if nested {
        let inner = capture_subgraph(names, false);
        let out = g.add_value(Some("nested_out"), None, None);
        g.add_op(Some("nested_sub"), Arc::new(MockSub { idx: u32::MAX, n_out: 1, graph: inner, log: None }), &[], &[Some(out)]);
        g.set_output_ids(&[out]);
        return g;
    }
    let caps: Vec<NodeId> = names.iter().map(|n| g.add_value(Some(n), None, None)).collect();
    g.set_captures(&caps);
    let out = g.add_value(Some("inner_out"), None, None);
    let ins: Vec<Option<NodeId>> = caps.iter().map(|c| Some(*c)).collect();
    g.add_op(Some("inner"), Arc::new(MockOp { idx: u32::MAX, n_out: 1, in_place: false, log: None }), &ins, &[Some(out)]);
    g.set_output_ids(&[out]);
    g
}

pub struct Built {
    pub graph: Graph,
    pub val_ids: Vec<NodeId>,
    pub op_ids: Vec<NodeId>,
    pub log: ExecLog,
}

/// An id that is certainly not in the graph.
pub fn unknown_id(n: u32) -> NodeId {
    NodeId::from_u32(1_000_000 + n)
}

pub fn build(spec: &GSpec) -> Built {
    let mut g = Graph::new();
    let log: ExecLog = Arc::new(Mutex::new(Vec::new()));
    let mut val_ids = Vec::with_capacity(spec.values.len());
    let mut caps = Vec::new();
    for (i, k) in spec.values.iter().enumerate() {
        let name = format!("v{}", i);
        let id = match k {
            VKind::Const => g.add_constant(Some(&name), Tensor::from(1.0f32).into_arc()),
            _ => g.add_value(Some(&name), None, None),
        };
        if *k == VKind::Capture {
            caps.push(id);
        }
        val_ids.push(id);
    }
    if !caps.is_empty() {
        g.set_captures(&caps);
    }
    let mut op_ids = Vec::with_capacity(spec.ops.len());
    for (i, o) in spec.ops.iter().enumerate() {
        let ins: Vec<Option<NodeId>> = o.inputs.iter().map(|x| x.map(|v| val_ids[v])).collect();
        let outs: Vec<Option<NodeId>> = o.outputs.iter().map(|x| x.map(|v| val_ids[v])).collect();
        let name = format!("op{}", i);
        let op: Arc<dyn Operator + Send + Sync> = if o.subgraph {
            let names: Vec<String> = o.captures.iter().map(|v| format!("v{}", v)).collect();
            Arc::new(MockSub { idx: i as u32, n_out: o.outputs.len(), graph: capture_subgraph(&names, o.nested), log: Some(log.clone()) })
        } else {
            Arc::new(MockOp { idx: i as u32, n_out: o.outputs.len(), in_place: o.in_place, log: Some(log.clone()) })
        };
        op_ids.push(g.add_op(Some(&name), op, &ins, &outs));
    }
    Built { graph: g, val_ids, op_ids, log }
}

impl Built {
    pub fn node_id(&self, id: &Id) -> NodeId {
        match id {
            Id::Val(v) => self.val_ids[*v],
            Id::Op(o) => self.op_ids[*o],
            Id::Unknown(n) => unknown_id(*n),
        }
    }

    pub fn op_index(&self, id: NodeId) -> Option<usize> {
        // Operator ids are contiguous.
        let first = self.op_ids.first()?.as_u32();
        let n = id.as_u32();
        if n >= first && ((n - first) as usize) < self.op_ids.len() { Some((n - first) as usize) } else { None }
    }

    pub fn plan(&self, inputs: &[NodeId], outputs: &[NodeId], req: &Request) -> Result<Vec<NodeId>, RunError> {
        self.graph.execution_plan(inputs, outputs, PlanOptions { allow_missing_inputs: req.allow_missing, captures_available: req.captures_available })
    }
}

/// Result of pushing a request through the real executor.
pub enum ExecResult {
    /// Ran; number of values returned and the operators the executor ran.
    Ran(usize, Vec<u32>),
    RunErr(String),
}

/// Run `inputs -> outputs` with `Graph::run` (plans with
/// captures_available = false). `owned` chooses whether inputs are passed as
/// owned values (enables in-place execution) or views.
pub fn exec_direct(b: &Built, inputs: &[NodeId], outputs: &[NodeId], owned: bool) -> ExecResult {
    b.log.lock().unwrap().clear();
    let vals: Vec<Value> = inputs.iter().map(|_| mock_value()).collect();
    let ins: Vec<(NodeId, ValueOrView)> = if owned {
        inputs.iter().map(|id| (*id, ValueOrView::from(mock_value()))).collect()
    } else {
        inputs.iter().zip(vals.iter()).map(|(id, v)| (*id, ValueOrView::from(v))).collect()
    };
    match b.graph.run(ins, outputs, None, None) {
        Ok(out) => ExecResult::Ran(out.len(), b.log.lock().unwrap().clone()),
        Err(e) => ExecResult::RunErr(e.to_string()),
    }
}

/// Operator of the wrapper graph used to run a graph *as a subgraph* (so the
/// executor plans it with captures_available = true and hands it a capture
/// environment).
struct RunInner {
    inner: Built,
    inputs: Vec<NodeId>,
    outputs: Vec<NodeId>,
    owned: bool,
    returned: Mutex<Option<usize>>,
}

impl std::fmt::Debug for RunInner {
    fn fmt(&self, f: &mut std::fmt::Formatter<'_>) -> std::fmt::Result {
        write!(f, "RunInner")
    }
}

impl Operator for RunInner {
    fn name(&self) -> &str {
        "RunInner"
    }
    fn run(&self, _ctx: &OpRunContext) -> Result<OutputList, OpError> {
        Err(OpError::InvalidValue("operator must be run with `run_subgraph`"))
    }
    fn max_inputs(&self) -> Option<usize> {
        None
    }
    fn max_outputs(&self) -> Option<usize> {
        None
    }
    fn output_types(&self, _ctx: &OutputTypesContext) -> Option<OutputTypeList> {
        None
    }
    fn as_subgraph_op(&self) -> Option<&dyn SubgraphOperator> {
        Some(self as &dyn SubgraphOperator)
    }
    fn as_infer_shapes(&self) -> Option<&dyn InferShapes> {
        None
    }
}

impl SubgraphOperator for RunInner {
    fn subgraphs(&self) -> SmallVec<[&Graph; 2]> {
        let mut v = SmallVec::new();
        v.push(&self.inner.graph);
        v
    }

    fn run_subgraph<'a>(
        &'a self,
        ctx: &OpRunContext,
        captures: CaptureEnv,
        _weight_cache: Option<&[WeightCache]>,
        _profiler: Option<&mut Profiler<'a>>,
        run_opts: Option<RunOptions>,
    ) -> Result<OutputList, RunError> {
        let vals: Vec<Value> = self.inputs.iter().map(|_| mock_value()).collect();
        let ins: Vec<(NodeId, ValueOrView)> = if self.owned {
            self.inputs.iter().map(|id| (*id, ValueOrView::from(mock_value()))).collect()
        } else {
            self.inputs.iter().zip(vals.iter()).map(|(id, v)| (*id, ValueOrView::from(v))).collect()
        };
        let out = self.inner.graph.run_subgraph(ins, &self.outputs, captures, ctx.pool(), None, None, run_opts)?;
        *self.returned.lock().unwrap() = Some(out.len());
        let mut res = OutputList::new();
        res.push(mock_value());
        Ok(res)
    }
}

/// Run the request with the graph embedded as the subgraph of a one-operator
/// parent graph which supplies the captured values (plans with
/// captures_available = true).
pub fn exec_as_subgraph(spec: &GSpec, req: &Request, owned: bool) -> ExecResult {
    let inner = build(spec);
    let inputs: Vec<NodeId> = req.inputs.iter().map(|i| inner.node_id(i)).collect();
    let outputs: Vec<NodeId> = req.outputs.iter().map(|i| inner.node_id(i)).collect();
    let log = inner.log.clone();
    let mut parent = Graph::new();
    let mut parent_inputs: Vec<NodeId> = Vec::new();
    for (i, k) in spec.values.iter().enumerate() {
        if *k == VKind::Capture {
            parent_inputs.push(parent.add_value(Some(&format!("v{}", i)), None, None));
        }
    }
    let out = parent.add_value(Some("wrap_out"), None, None);
    let op = Arc::new(RunInner { inner, inputs, outputs, owned, returned: Mutex::new(None) });
    parent.add_op(Some("wrap"), op.clone(), &[], &[Some(out)]);
    let vals: Vec<Value> = parent_inputs.iter().map(|_| mock_value()).collect();
    let ins: Vec<(NodeId, ValueOrView)> = parent_inputs.iter().zip(vals.iter()).map(|(id, v)| (*id, ValueOrView::from(v))).collect();
    match parent.run(ins, &[out], None, None) {
        Ok(_) => {
            let n = op.returned.lock().unwrap().unwrap_or(0);
            ExecResult::Ran(n, log.lock().unwrap().clone())
        }
        Err(e) => ExecResult::RunErr(e.to_string()),
    }
}
