//! Graph and request descriptions used by plancheck: the harness's own,
//! planner-independent record of what a graph contains.
use vcommon::*;

#[derive(Clone, Copy, PartialEq, Eq, Hash, Debug, PartialOrd, Ord)]
pub enum VKind {
    /// Ordinary value node.
    Plain,
    /// Constant node.
    Const,
    /// Value node listed in `Graph::captures()` (its value comes from a parent
    /// graph at run time).
    Capture,
}

#[derive(Clone, PartialEq, Eq, Hash, Debug, Default)]
pub struct OpSpec {
    /// Operator inputs: value indices, `None` = omitted optional input.
    pub inputs: Vec<Option<usize>>,
    /// Operator outputs: value indices, `None` = unused output.
    pub outputs: Vec<Option<usize>>,
    /// Declares input 0 as modifiable in place.
    pub in_place: bool,
    /// The operator has a subgraph (it is a `SubgraphOperator`).
    pub subgraph: bool,
    /// Values of this graph which the subgraph captures by name.
    pub captures: Vec<usize>,
    /// The captures happen in a subgraph nested inside the subgraph.
    pub nested: bool,
}

#[derive(Clone, PartialEq, Eq, Hash, Debug, Default)]
pub struct GSpec {
    pub values: Vec<VKind>,
    pub ops: Vec<OpSpec>,
}

/// A node reference in a request.
#[derive(Clone, Copy, PartialEq, Eq, Hash, Debug)]
pub enum Id {
    Val(usize),
    Op(usize),
    /// A node id that does not exist in the graph.
    Unknown(u32),
}

#[derive(Clone, PartialEq, Eq, Hash, Debug, Default)]
pub struct Request {
    pub inputs: Vec<Id>,
    pub outputs: Vec<Id>,
    pub allow_missing: bool,
    pub captures_available: bool,
}

impl GSpec {
    /// Producer of each value (the last operator listing it as an output;
    /// generators never create two producers for one value).
    pub fn producers(&self) -> Vec<Option<usize>> {
        let mut p = vec![None; self.values.len()];
        for (i, op) in self.ops.iter().enumerate() {
            for o in op.outputs.iter().flatten() {
                p[*o] = Some(i);
            }
        }
        p
    }

    /// The harness's dependency relation: values an operator needs before it
    /// can run = its inputs plus the values its subgraphs capture.
    pub fn deps(&self) -> Vec<Vec<usize>> {
        self.ops
            .iter()
            .map(|op| {
                let mut d: Vec<usize> = Vec::new();
                for v in op.inputs.iter().flatten().chain(op.captures.iter()) {
                    if !d.contains(v) {
                        d.push(*v);
                    }
                }
                d
            })
            .collect()
    }

    pub fn to_json(&self) -> Json {
        json!({
            "values": self.values.iter().map(|k| match k { VKind::Plain => "value", VKind::Const => "const", VKind::Capture => "capture" }).collect::<Vec<_>>(),
            "ops": self.ops.iter().map(|o| json!({
                "inputs": o.inputs, "outputs": o.outputs, "in_place": o.in_place,
                "subgraph": o.subgraph, "captures": o.captures, "nested": o.nested,
            })).collect::<Vec<_>>(),
        })
    }

    pub fn from_json(j: &Json) -> GSpec {
        let values = j["values"]
            .as_array()
            .expect("values")
            .iter()
            .map(|k| match k.as_str().unwrap() {
                "const" => VKind::Const,
                "capture" => VKind::Capture,
                _ => VKind::Plain,
            })
            .collect();
        let opt_list = |a: &Json| -> Vec<Option<usize>> { a.as_array().map(|a| a.iter().map(|x| x.as_u64().map(|n| n as usize)).collect()).unwrap_or_default() };
        let ops = j["ops"]
            .as_array()
            .expect("ops")
            .iter()
            .map(|o| OpSpec {
                inputs: opt_list(&o["inputs"]),
                outputs: opt_list(&o["outputs"]),
                in_place: o["in_place"].as_bool().unwrap_or(false),
                subgraph: o["subgraph"].as_bool().unwrap_or(false),
                captures: opt_list(&o["captures"]).into_iter().flatten().collect(),
                nested: o["nested"].as_bool().unwrap_or(false),
            })
            .collect();
        GSpec { values, ops }
    }
}

fn id_json(id: &Id) -> Json {
    match id {
        Id::Val(v) => json!(format!("v{}", v)),
        Id::Op(o) => json!(format!("op{}", o)),
        Id::Unknown(n) => json!(format!("#{}", n)),
    }
}

fn id_parse(j: &Json) -> Id {
    let s = j.as_str().expect("id string");
    if let Some(r) = s.strip_prefix("op") {
        Id::Op(r.parse().unwrap())
    } else if let Some(r) = s.strip_prefix('v') {
        Id::Val(r.parse().unwrap())
    } else {
        Id::Unknown(s.trim_start_matches('#').parse().unwrap())
    }
}

impl Request {
    pub fn to_json(&self) -> Json {
        json!({
            "inputs": self.inputs.iter().map(id_json).collect::<Vec<_>>(),
            "outputs": self.outputs.iter().map(id_json).collect::<Vec<_>>(),
            "allow_missing_inputs": self.allow_missing,
            "captures_available": self.captures_available,
        })
    }

    pub fn from_json(j: &Json) -> Request {
        Request {
            inputs: j["inputs"].as_array().expect("inputs").iter().map(id_parse).collect(),
            outputs: j["outputs"].as_array().expect("outputs").iter().map(id_parse).collect(),
            allow_missing: j["allow_missing_inputs"].as_bool().unwrap_or(false),
            captures_available: j["captures_available"].as_bool().unwrap_or(false),
        }
    }
}

fn id_text(id: &Id) -> String {
    match id {
        Id::Val(v) => format!("v{}", v),
        Id::Op(o) => format!("op{}", o),
        Id::Unknown(n) => format!("#{}", n),
    }
}

/// Canonical one-line text of a case (used in signatures).
pub fn canonical(spec: &GSpec, req: &Request) -> String {
    let opt = |xs: &[Option<usize>]| xs.iter().map(|x| x.map(|v| format!("v{}", v)).unwrap_or_else(|| "_".to_string())).collect::<Vec<_>>().join(",");
    let ops: Vec<String> = spec
        .ops
        .iter()
        .enumerate()
        .map(|(i, o)| {
            let mut s = format!("op{}", i);
            if o.in_place {
                s.push('*');
            }
            if o.subgraph {
                s.push_str(&format!(
                    "{{{}cap {}}}",
                    if o.nested { "nested " } else { "" },
                    o.captures.iter().map(|v| format!("v{}", v)).collect::<Vec<_>>().join(",")
                ));
            }
            format!("{}({})->({})", s, opt(&o.inputs), opt(&o.outputs))
        })
        .collect();
    let list = |k: VKind| spec.values.iter().enumerate().filter(|(_, x)| **x == k).map(|(i, _)| format!("v{}", i)).collect::<Vec<_>>().join(",");
    let mut s = format!("{}", ops.join(";"));
    let (c, g) = (list(VKind::Const), list(VKind::Capture));
    if !c.is_empty() {
        s.push_str(&format!("|const=[{}]", c));
    }
    if !g.is_empty() {
        s.push_str(&format!("|captures=[{}]", g));
    }
    s.push_str(&format!(
        "|in=[{}]|out=[{}]|allow_missing={},captures_available={}",
        req.inputs.iter().map(id_text).collect::<Vec<_>>().join(","),
        req.outputs.iter().map(id_text).collect::<Vec<_>>().join(","),
        req.allow_missing as u8,
        req.captures_available as u8
    ));
    s
}

/// Remove value `v` from a case and renumber.
pub fn remove_value(spec: &GSpec, req: &Request, v: usize) -> (GSpec, Request) {
    let map = |x: usize| if x > v { x - 1 } else { x };
    let mut s = spec.clone();
    s.values.remove(v);
    for op in s.ops.iter_mut() {
        op.inputs = op.inputs.iter().filter(|x| **x != Some(v)).map(|x| x.map(map)).collect();
        op.outputs = op.outputs.iter().map(|x| if *x == Some(v) { None } else { x.map(map) }).collect();
        while op.outputs.last() == Some(&None) {
            op.outputs.pop();
        }
        op.captures = op.captures.iter().filter(|x| **x != v).map(|x| map(*x)).collect();
    }
    let fix = |ids: &[Id]| -> Vec<Id> {
        ids.iter()
            .filter(|i| **i != Id::Val(v))
            .map(|i| match i {
                Id::Val(x) => Id::Val(map(*x)),
                other => *other,
            })
            .collect()
    };
    let r = Request { inputs: fix(&req.inputs), outputs: fix(&req.outputs), ..req.clone() };
    (s, r)
}

/// Remove operator `o` from a case and renumber.
pub fn remove_op(spec: &GSpec, req: &Request, o: usize) -> (GSpec, Request) {
    let mut s = spec.clone();
    s.ops.remove(o);
    let fix = |ids: &[Id]| -> Vec<Id> {
        ids.iter()
            .filter(|i| **i != Id::Op(o))
            .map(|i| match i {
                Id::Op(x) if *x > o => Id::Op(*x - 1),
                other => *other,
            })
            .collect()
    };
    let r = Request { inputs: fix(&req.inputs), outputs: fix(&req.outputs), ..req.clone() };
    (s, r)
}

/// Apply a permutation to the operators (new position i holds old operator perm[i]).
pub fn permute_ops(spec: &GSpec, req: &Request, perm: &[usize]) -> (GSpec, Request) {
    let mut s = spec.clone();
    s.ops = perm.iter().map(|&i| spec.ops[i].clone()).collect();
    let inv = |old: usize| perm.iter().position(|&p| p == old).unwrap();
    let fix = |ids: &[Id]| -> Vec<Id> {
        ids.iter()
            .map(|i| match i {
                Id::Op(x) => Id::Op(inv(*x)),
                other => *other,
            })
            .collect()
    };
    (s, Request { inputs: fix(&req.inputs), outputs: fix(&req.outputs), ..req.clone() })
}

/// Renumber values in order of first appearance (operator outputs and inputs
/// in operator order, then the request, then the rest).
pub fn renumber_values(spec: &GSpec, req: &Request) -> (GSpec, Request) {
    let n = spec.values.len();
    let mut order: Vec<usize> = Vec::new();
    let see = |v: usize, order: &mut Vec<usize>| {
        if !order.contains(&v) {
            order.push(v);
        }
    };
    for op in &spec.ops {
        for v in op.inputs.iter().flatten() {
            see(*v, &mut order);
        }
        for v in &op.captures {
            see(*v, &mut order);
        }
        for v in op.outputs.iter().flatten() {
            see(*v, &mut order);
        }
    }
    for id in req.inputs.iter().chain(req.outputs.iter()) {
        if let Id::Val(v) = id {
            see(*v, &mut order);
        }
    }
    for v in 0..n {
        see(v, &mut order);
    }
    let new_of = |old: usize| order.iter().position(|&o| o == old).unwrap();
    let mut s = GSpec { values: order.iter().map(|&o| spec.values[o]).collect(), ops: spec.ops.clone() };
    for op in s.ops.iter_mut() {
        op.inputs = op.inputs.iter().map(|x| x.map(new_of)).collect();
        op.outputs = op.outputs.iter().map(|x| x.map(new_of)).collect();
        op.captures = op.captures.iter().map(|x| new_of(*x)).collect();
    }
    let fix = |ids: &[Id]| -> Vec<Id> {
        ids.iter()
            .map(|i| match i {
                Id::Val(x) => Id::Val(new_of(*x)),
                other => *other,
            })
            .collect()
    };
    (s, Request { inputs: fix(&req.inputs), outputs: fix(&req.outputs), ..req.clone() })
}
