//! plancheck: the graph planner against an independent dependency relation (C03).
//!
//!   plancheck c03   bounded-exhaustive and random (graph, inputs, outputs,
//!                   options) requests; each returned plan is validated step by
//!                   step by the harness's own checker and then executed through
//!                   the real executor; requests that must be refused must be.
use std::collections::BTreeMap;
use std::sync::atomic::{AtomicBool, AtomicU64, Ordering::SeqCst};
use std::sync::{Arc, Mutex};
use std::time::{Duration, Instant};

use rayon::prelude::*;
use rten::verif::NodeId;
use vcommon::*;

mod mock;
mod oracle;
mod spec;

use mock::*;
use oracle::*;
use spec::*;

// ------------------------------------------------------------------ checking one request

#[derive(Clone, Debug)]
pub struct Failure {
    kind: &'static str,
    detail: String,
}

#[derive(Clone, Copy, PartialEq)]
enum Exec {
    No,
    Yes,
    /// Execute, and probe in a child process even if the run has already
    /// decided to trust or avoid the request's class (shrinking, replay).
    YesForceProbe,
}

// Requests that are plannable but contain a dependency cycle through an
// available (supplied / constant / captured) value are first planned in a
// forked child with a time limit, per allow_missing_inputs setting:
// 0 = probing (fork), 1 = trusted after PROBE_CLEAN clean returns (in-process),
// 2 = a hang was confirmed; the class is skipped (and counted) from then on.
// Classes: 0/1 = plannable with a cycle through an available value
// (allow_missing_inputs false/true), 2/3 = a cycle for which an error is
// required (a planner without a working cycle test recurses without bound).
static DANGER_MODE: [AtomicU64; 4] = [AtomicU64::new(0), AtomicU64::new(0), AtomicU64::new(0), AtomicU64::new(0)];
static DANGER_CLEAN: [AtomicU64; 4] = [AtomicU64::new(0), AtomicU64::new(0), AtomicU64::new(0), AtomicU64::new(0)];
const PROBE_CLEAN: u64 = 24;

#[derive(PartialEq, Debug)]
enum ChildEnd {
    Finished,
    /// Still running after the limit; killed.
    TimedOut,
    /// Killed by a signal (stack overflow, out of memory ...).
    Died(i32),
    Failed,
}

/// Plan in a forked child with a time limit.
fn plan_in_child(spec: &GSpec, req: &Request, limit: Duration) -> ChildEnd {
    unsafe {
        let pid = libc::fork();
        if pid < 0 {
            return ChildEnd::Failed;
        }
        if pid == 0 {
            // Child: only this thread exists.
            let b = build(spec);
            let ins: Vec<NodeId> = req.inputs.iter().map(|i| b.node_id(i)).collect();
            let outs: Vec<NodeId> = req.outputs.iter().map(|i| b.node_id(i)).collect();
            let _ = catch(|| b.plan(&ins, &outs, req).map(|p| p.len()));
            libc::_exit(0);
        }
        let t0 = Instant::now();
        loop {
            let mut status = 0;
            let r = libc::waitpid(pid, &mut status, libc::WNOHANG);
            if r == pid {
                return if libc::WIFEXITED(status) {
                    ChildEnd::Finished
                } else if libc::WIFSIGNALED(status) {
                    ChildEnd::Died(libc::WTERMSIG(status))
                } else {
                    ChildEnd::Failed
                };
            }
            if r < 0 {
                return ChildEnd::Failed;
            }
            if t0.elapsed() > limit {
                libc::kill(pid, libc::SIGKILL);
                libc::waitpid(pid, &mut status, 0);
                return ChildEnd::TimedOut;
            }
            std::thread::sleep(Duration::from_micros(300));
        }
    }
}

enum Probe {
    Proceed,
    Skip,
    Hang(String),
}

/// Number of threads currently waiting for a probe child (the watchdog must
/// not mistake that wait for a stuck planner).
static PROBING: AtomicU64 = AtomicU64::new(0);

fn probe_danger(class: usize, spec: &GSpec, req: &Request, force: bool, st: &mut Stats) -> Probe {
    PROBING.fetch_add(1, SeqCst);
    let r = probe_danger_inner(class, spec, req, force, st);
    PROBING.fetch_sub(1, SeqCst);
    r
}

fn probe_danger_inner(class: usize, spec: &GSpec, req: &Request, force: bool, st: &mut Stats) -> Probe {
    let mode = DANGER_MODE[class].load(SeqCst);
    if !force {
        if mode == 1 {
            return Probe::Proceed;
        }
        if mode == 2 {
            st.count(if class < 2 { "skipped_cycle_through_available_after_confirmed_hang" } else { "skipped_cyclic_request_after_confirmed_hang" });
            return Probe::Skip;
        }
    }
    st.count("probed_in_child_process");
    // Normal planning of these graphs takes microseconds.
    let (first, confirm) = if force { (120, 500) } else { (700, 3000) };
    let mut end = plan_in_child(spec, req, Duration::from_millis(first));
    if end == ChildEnd::TimedOut {
        end = plan_in_child(spec, req, Duration::from_millis(confirm));
        if end == ChildEnd::Finished {
            st.count("hang_suspicion_not_confirmed");
        }
    } else if let ChildEnd::Died(_) = end {
        // Confirm a crash by running it once more.
        end = plan_in_child(spec, req, Duration::from_millis(confirm));
    }
    match end {
        ChildEnd::Finished => {
            if DANGER_CLEAN[class].fetch_add(1, SeqCst) + 1 >= PROBE_CLEAN && mode == 0 {
                DANGER_MODE[class].store(1, SeqCst);
            }
            Probe::Proceed
        }
        ChildEnd::TimedOut => {
            DANGER_MODE[class].store(2, SeqCst);
            Probe::Hang("execution_plan did not return: run in a child process it had to be killed after the time limit, twice (normal cost: microseconds)".to_string())
        }
        ChildEnd::Died(sig) => {
            DANGER_MODE[class].store(2, SeqCst);
            Probe::Hang(format!("execution_plan did not return: run in a child process it was killed by signal {} (stack exhausted by unbounded recursion?), twice", sig))
        }
        ChildEnd::Failed => {
            st.count("probe_child_failed");
            Probe::Skip
        }
    }
}

#[derive(Default)]
struct Stats {
    evals: u64,
    counters: BTreeMap<&'static str, u64>,
    nontrivial: Vec<u64>,
    nontrivial_total: u64,
    samples: Vec<Json>,
    failures: Vec<(GSpec, Request, Failure)>,
    failure_count: u64,
    other_panics: Vec<String>,
    partial_run_panics: Vec<String>,
    max_plan_len: u64,
}

impl Stats {
    /// Keep at most 6 failing cases per kind.
    fn keep_failure(&mut self, f: (GSpec, Request, Failure)) {
        if self.failures.iter().filter(|x| x.2.kind == f.2.kind).count() < 6 {
            self.failures.push(f);
        }
    }
    fn count(&mut self, k: &'static str) {
        *self.counters.entry(k).or_insert(0) += 1;
    }
    fn merge(&mut self, o: Stats) {
        self.evals += o.evals;
        for (k, v) in o.counters {
            *self.counters.entry(k).or_insert(0) += v;
        }
        let room = NONTRIVIAL_CAP.saturating_sub(self.nontrivial.len());
        self.nontrivial.extend(o.nontrivial.into_iter().take(room));
        self.nontrivial_total += o.nontrivial_total;
        for s in o.samples {
            if self.samples.len() < 8 {
                self.samples.push(s);
            }
        }
        for f in o.failures {
            self.keep_failure(f);
        }
        for p in o.partial_run_panics {
            if self.partial_run_panics.len() < 6 {
                self.partial_run_panics.push(p);
            }
        }
        self.failure_count += o.failure_count;
        for p in o.other_panics {
            if self.other_panics.len() < 8 {
                self.other_panics.push(p);
            }
        }
        self.max_plan_len = self.max_plan_len.max(o.max_plan_len);
    }
}

const NONTRIVIAL_CAP: usize = 150_000;

fn err_class(msg: &str) -> &'static str {
    if msg.contains("cycle") {
        "planner_err_cycle"
    } else if msg.contains("Missing input") || msg.contains("Source node not found") {
        "planner_err_missing"
    } else if msg.contains("not unique") {
        "planner_err_duplicate"
    } else if msg.contains("not a value node") {
        "planner_err_non_value"
    } else {
        "planner_err_other"
    }
}

fn is_plan_panic(msg: &str) -> bool {
    msg.contains("Invalid plan") || msg.contains("missing output value") || msg.contains("input is available") || msg.contains("is not a value or constant")
}

/// Plan one request on a built graph, compare with the oracle, optionally
/// execute. Returns the failure, if any.
fn check_request(b: &Built, orc: &mut Oracle, spec: &GSpec, req: &Request, ins: &[NodeId], outs: &[NodeId], exec: Exec, st: &mut Stats, id_hash: u64) -> Option<Failure> {
    st.evals += 1;
    let expect = orc.classify(req);
    let class = match &expect {
        Expect::Err(ErrWhy::Cycle) => Some(2 + req.allow_missing as usize),
        Expect::Ok if orc.cycle_through_available() => {
            st.count("requests_with_cycle_through_available_value");
            Some(req.allow_missing as usize)
        }
        _ => None,
    };
    if let Some(class) = class {
        match probe_danger(class, spec, req, exec == Exec::YesForceProbe, st) {
            Probe::Proceed => {}
            Probe::Skip => return None,
            Probe::Hang(detail) => return Some(Failure { kind: "hang", detail }),
        }
    }
    let result = match catch(|| b.plan(ins, outs, req)) {
        Ok(r) => r,
        Err(msg) => {
            st.count("planner_panicked");
            return Some(Failure { kind: "panic", detail: format!("execution_plan panicked: {}", msg) });
        }
    };
    match (&expect, result) {
        (Expect::Err(why), Err(e)) => {
            st.count(match why {
                ErrWhy::NonValueId => "refused_non_value_id",
                ErrWhy::Duplicate => "refused_duplicate_id",
                ErrWhy::Missing => "refused_missing_input",
                ErrWhy::Cycle => "refused_cycle",
            });
            st.count(err_class(&e.to_string()));
            note_nontrivial(st, id_hash);
            None
        }
        (Expect::Err(why), Ok(plan)) => Some(Failure {
            kind: "err_required",
            detail: format!("the request must be refused ({:?}) but planning returned a plan of {} operators", why, plan.len()),
        }),
        (Expect::Ok, Err(e)) => Some(Failure { kind: "ok_required", detail: format!("the request is plannable but planning failed: {}", e) }),
        (Expect::Ok, Ok(plan)) => {
            let plan_idx: Vec<Option<usize>> = plan.iter().map(|id| b.op_index(*id)).collect();
            if let Err(f) = orc.validate(req, &plan_idx) {
                let text: Vec<String> = plan_idx.iter().map(|p| p.map(|i| format!("op{}", i)).unwrap_or_else(|| "?".to_string())).collect();
                return Some(Failure { kind: f.kind, detail: format!("plan [{}]: {}", text.join(","), f.detail) });
            }
            st.count("valid_plans");
            st.max_plan_len = st.max_plan_len.max(plan.len() as u64);
            match plan.len() {
                0 => st.count("plans_len_0"),
                1 => st.count("plans_len_1"),
                2 => st.count("plans_len_2"),
                3 => st.count("plans_len_3"),
                _ => st.count("plans_len_4plus"),
            }
            if plan.len() >= 2 {
                note_nontrivial(st, id_hash);
            }
            if st.samples.len() < 2 && plan.len() >= 3 {
                st.samples.push(json!({"graph": canonical(spec, req), "plan": plan_idx.iter().map(|p| format!("op{}", p.unwrap())).collect::<Vec<_>>()}));
            }
            if exec != Exec::No {
                return execute(b, spec, req, ins, outs, &plan_idx, st, id_hash);
            }
            None
        }
    }
}

fn note_nontrivial(st: &mut Stats, id_hash: u64) {
    st.nontrivial_total += 1;
    if st.nontrivial.len() < NONTRIVIAL_CAP {
        st.nontrivial.push(id_hash);
    }
}

/// Push a validated plan's request through the real executor.
fn execute(b: &Built, spec: &GSpec, req: &Request, ins: &[NodeId], outs: &[NodeId], plan: &[Option<usize>], st: &mut Stats, id_hash: u64) -> Option<Failure> {
    let owned = id_hash & 1 == 0;
    if req.allow_missing {
        // partial_run = plan(allow_missing, no captures) + prune + execute. Not
        // part of the statement; panics are counted, not reported.
        if !req.captures_available {
            let r = catch(|| {
                let vals: Vec<rten::Value> = ins.iter().map(|_| rten::Value::from(1.0f32)).collect();
                let inputs: Vec<(NodeId, rten::ValueOrView)> = if owned {
                    ins.iter().map(|id| (*id, rten::ValueOrView::from(rten::Value::from(1.0f32)))).collect()
                } else {
                    ins.iter().zip(vals.iter()).map(|(id, v)| (*id, rten::ValueOrView::from(v))).collect()
                };
                b.graph.partial_run(inputs, outs, None).map(|v| v.len())
            });
            match r {
                Ok(Ok(_)) => st.count("partial_run_ok"),
                Ok(Err(_)) => st.count("partial_run_err"),
                Err(msg) => {
                    st.count("partial_run_panicked");
                    if st.partial_run_panics.len() < 3 {
                        st.partial_run_panics.push(format!("{} :: {} (inputs passed as {})", msg, canonical(spec, req), if owned { "owned values" } else { "views" }));
                    }
                }
            }
        }
        return None;
    }
    if !req.captures_available {
        // Run directly there is no parent scope: the capture environment never
        // resolves a value listed in Graph::captures(), even when the caller
        // supplied it as an input. That is a property of the executor's capture
        // lookup, not of the plan, so such plans are not executed here (they
        // are when run as a subgraph).
        let captures_a_capture = plan.iter().flatten().any(|op| spec.ops[*op].captures.iter().any(|v| spec.values[*v] == VKind::Capture));
        if captures_a_capture {
            st.count("not_executed_directly_subgraph_captures_a_graph_capture");
            return None;
        }
    }
    let r = if req.captures_available { catch(|| exec_as_subgraph(spec, req, owned)) } else { catch(|| exec_direct(b, ins, outs, owned)) };
    match r {
        Err(msg) => {
            // "<panic>": the message was taken by another thread panicking at
            // the same moment; the case is re-checked alone at the end.
            if is_plan_panic(&msg) || msg == "<panic>" {
                Some(Failure { kind: "invalid_plan_panic", detail: format!("executing the validated plan panicked: {}", msg) })
            } else {
                st.count("run_other_panic");
                if st.other_panics.len() < 4 {
                    st.other_panics.push(format!("{} :: {}", msg, canonical(spec, req)));
                }
                None
            }
        }
        Ok(ExecResult::RunErr(e)) => {
            st.count("run_returned_error");
            if st.other_panics.len() < 4 {
                st.other_panics.push(format!("run error: {} :: {}", e, canonical(spec, req)));
            }
            None
        }
        Ok(ExecResult::Ran(n, log)) => {
            st.count(if req.captures_available { "executed_as_subgraph" } else { "executed_direct" });
            if n != outs.len() {
                st.count("run_output_count_mismatch");
            }
            let ran: Vec<usize> = log.iter().map(|x| (x & 0x7fff_ffff) as usize).collect();
            if log.iter().any(|x| x >> 31 == 1) {
                st.count("executed_with_in_place_op");
            }
            let planned: Vec<usize> = plan.iter().map(|p| p.unwrap()).collect();
            if ran == planned {
                st.count("executor_ran_exactly_the_plan");
            } else {
                st.count("executor_order_differs_from_plan");
            }
            None
        }
    }
}

/// Check a stand-alone case (used for candidates, shrinking and replay).
fn check_case(spec: &GSpec, req: &Request, st: &mut Stats) -> Option<Failure> {
    let b = build(spec);
    let mut orc = Oracle::new(spec);
    let ins: Vec<NodeId> = req.inputs.iter().map(|i| b.node_id(i)).collect();
    let outs: Vec<NodeId> = req.outputs.iter().map(|i| b.node_id(i)).collect();
    check_request(&b, &mut orc, spec, req, &ins, &outs, Exec::YesForceProbe, st, 0)
}

// ------------------------------------------------------------------ enumeration

#[derive(Clone, Copy, PartialEq, Debug)]
enum Modifier {
    /// Inputs drawn from values, no omitted inputs, all free values plain.
    Base,
    /// Free values range over {value, const, capture} (not all plain).
    Kinds,
    /// A non-empty subset of operators is in-place capable.
    InPlace,
    /// Input lists may contain omitted (None) inputs; at least one does.
    NoneInputs,
    /// Exactly one operator has a subgraph capturing exactly one value.
    Capture,
}

#[derive(Clone, Debug)]
struct Space {
    name: &'static str,
    n_ops: usize,
    n_values: usize,
    modifier: Modifier,
    /// Output lists: all subsets (None) or subsets of at most this size plus the full set.
    max_outputs: Option<usize>,
    /// Execute every n-th valid plan (0 = never).
    exec_every: u64,
}

/// Everything about a graph shape except the operators' input lists.
#[derive(Clone, Debug)]
struct Outer {
    arities: Vec<usize>,
    kinds: Vec<VKind>,
    in_place: u32,
    capture: Option<(usize, usize)>,
}

fn outers(sp: &Space) -> Vec<Outer> {
    let mut res = Vec::new();
    for ar in 0..(1u32 << sp.n_ops) {
        let arities: Vec<usize> = (0..sp.n_ops).map(|i| 1 + ((ar >> i) & 1) as usize).collect();
        let k: usize = arities.iter().sum();
        if k > sp.n_values {
            continue;
        }
        let f = sp.n_values - k;
        let plain = vec![VKind::Plain; f];
        match sp.modifier {
            Modifier::Base | Modifier::NoneInputs => res.push(Outer { arities: arities.clone(), kinds: plain, in_place: 0, capture: None }),
            Modifier::Kinds => {
                // Non-decreasing kind sequences (free values are interchangeable), not all plain.
                let ks = [VKind::Plain, VKind::Const, VKind::Capture];
                let mut idx = vec![0usize; f];
                loop {
                    if idx.iter().any(|i| *i != 0) && idx.windows(2).all(|w| w[0] <= w[1]) {
                        res.push(Outer { arities: arities.clone(), kinds: idx.iter().map(|i| ks[*i]).collect(), in_place: 0, capture: None });
                    }
                    let mut p = 0;
                    while p < f {
                        idx[p] += 1;
                        if idx[p] < 3 {
                            break;
                        }
                        idx[p] = 0;
                        p += 1;
                    }
                    if p == f {
                        break;
                    }
                }
            }
            Modifier::InPlace => {
                for m in 1..(1u32 << sp.n_ops) {
                    res.push(Outer { arities: arities.clone(), kinds: plain.clone(), in_place: m, capture: None });
                }
            }
            Modifier::Capture => {
                for op in 0..sp.n_ops {
                    for v in 0..sp.n_values {
                        res.push(Outer { arities: arities.clone(), kinds: plain.clone(), in_place: 0, capture: Some((op, v)) });
                    }
                }
            }
        }
    }
    res
}

/// Input lists an operator may have: length 0..=2 over the values (and None
/// when `with_none`).
fn input_configs(n_values: usize, with_none: bool) -> Vec<Vec<Option<usize>>> {
    let mut choices: Vec<Option<usize>> = (0..n_values).map(Some).collect();
    if with_none {
        choices.push(None);
    }
    let mut res = vec![vec![]];
    for a in &choices {
        res.push(vec![*a]);
    }
    for a in &choices {
        for b in &choices {
            res.push(vec![*a, *b]);
        }
    }
    res
}

fn make_spec(sp: &Space, outer: &Outer, cfgs: &[Vec<Option<usize>>], mut inner: usize) -> Option<GSpec> {
    let mut values: Vec<VKind> = Vec::with_capacity(sp.n_values);
    let mut ops = Vec::with_capacity(sp.n_ops);
    let mut next = 0usize;
    let mut any_none = false;
    for (i, a) in outer.arities.iter().enumerate() {
        let cfg = &cfgs[inner % cfgs.len()];
        inner /= cfgs.len();
        any_none |= cfg.iter().any(|x| x.is_none());
        let outputs: Vec<Option<usize>> = (0..*a).map(|j| Some(next + j)).collect();
        next += a;
        let (subgraph, captures, nested) = match outer.capture {
            Some((op, v)) if op == i => (true, vec![v], (op + v) % 2 == 1),
            _ => (false, vec![], false),
        };
        ops.push(OpSpec { inputs: cfg.clone(), outputs, in_place: (outer.in_place >> i) & 1 == 1, subgraph, captures, nested });
    }
    if sp.modifier == Modifier::NoneInputs && !any_none {
        return None; // already covered by the Base space
    }
    for _ in 0..next {
        values.push(VKind::Plain);
    }
    values.extend(outer.kinds.iter().copied());
    Some(GSpec { values, ops })
}

/// Output lists for a graph with `n` values.
fn output_lists(n: usize, max: Option<usize>) -> Vec<Vec<usize>> {
    let mut res = Vec::new();
    for m in 0u32..(1 << n) {
        let size = m.count_ones() as usize;
        if let Some(mx) = max {
            if size > mx && size != n {
                continue;
            }
        }
        let asc: Vec<usize> = (0..n).filter(|i| (m >> i) & 1 == 1).collect();
        if size >= 2 {
            let mut desc = asc.clone();
            desc.reverse();
            res.push(desc);
        }
        res.push(asc);
    }
    res
}

fn invalid_requests(spec: &GSpec) -> Vec<Request> {
    let nv = spec.values.len();
    let no = spec.ops.len();
    let mut res = Vec::new();
    let some_out: Vec<Id> = if nv > 0 { vec![Id::Val(nv - 1)] } else { vec![] };
    if no > 0 {
        res.push((vec![Id::Op(0)], some_out.clone()));
        res.push((vec![], vec![Id::Op(no - 1)]));
        if nv > 0 {
            res.push((vec![Id::Val(0), Id::Op(no - 1)], vec![Id::Val(0)]));
        }
    }
    res.push((vec![Id::Unknown(0)], some_out.clone()));
    res.push((vec![], vec![Id::Unknown(1)]));
    if nv > 0 {
        res.push((vec![Id::Val(0), Id::Val(0)], some_out.clone()));
        res.push((vec![], vec![Id::Val(nv - 1), Id::Val(nv - 1)]));
    }
    if nv > 1 {
        res.push((vec![Id::Val(0), Id::Val(1), Id::Val(0)], vec![Id::Val(1)]));
        res.push((vec![Id::Val(0)], vec![Id::Val(1), Id::Val(0), Id::Val(1)]));
    }
    let mut out = Vec::new();
    for (i, o) in res {
        for opts in 0..4 {
            out.push(Request { inputs: i.clone(), outputs: o.clone(), allow_missing: opts & 1 == 1, captures_available: opts & 2 == 2 });
        }
    }
    out
}

fn mix(mut z: u64) -> u64 {
    z = (z ^ (z >> 30)).wrapping_mul(0xbf58476d1ce4e5b9);
    z = (z ^ (z >> 27)).wrapping_mul(0x94d049bb133111eb);
    z ^ (z >> 31)
}

/// All requests of one enumerated graph.
fn check_enumerated_graph(sp: &Space, spec: &GSpec, graph_hash: u64, out_lists: &[Vec<usize>], st: &mut Stats, wd: &WatchSlot) {
    let b = build(spec);
    let mut orc = Oracle::new(spec);
    let nv = spec.values.len();
    let has_captures = spec.values.iter().any(|k| *k == VKind::Capture);
    let mut req = Request::default();
    let mut ins: Vec<NodeId> = Vec::with_capacity(nv);
    let mut outs: Vec<NodeId> = Vec::with_capacity(nv);
    let mut counter = 0u64;
    for in_mask in 0u32..(1 << nv) {
        req.inputs.clear();
        ins.clear();
        for v in 0..nv {
            if (in_mask >> v) & 1 == 1 {
                req.inputs.push(Id::Val(v));
                ins.push(b.val_ids[v]);
            }
        }
        for ol in out_lists {
            req.outputs.clear();
            outs.clear();
            for v in ol {
                req.outputs.push(Id::Val(*v));
                outs.push(b.val_ids[*v]);
            }
            for opts in 0..4u32 {
                counter += 1;
                let h = mix(graph_hash ^ counter.wrapping_mul(0x9e3779b97f4a7c15));
                // Without captured values in the graph the captures_available
                // flag has nothing to act on; sample it.
                if opts & 2 == 2 && !has_captures && h % 8 != 0 {
                    continue;
                }
                req.allow_missing = opts & 1 == 1;
                req.captures_available = opts & 2 == 2;
                let exec = if sp.exec_every > 0 && (h >> 8) % sp.exec_every == 0 { Exec::Yes } else { Exec::No };
                wd.tick();
                if let Some(f) = check_request(&b, &mut orc, spec, &req, &ins, &outs, exec, st, h) {
                    st.failure_count += 1;
                    st.count(kind_counter(f.kind));
                    st.keep_failure((spec.clone(), req.clone(), f));
                }
            }
        }
    }
    for (i, r) in invalid_requests(spec).iter().enumerate() {
        let ins: Vec<NodeId> = r.inputs.iter().map(|i| b.node_id(i)).collect();
        let outs: Vec<NodeId> = r.outputs.iter().map(|i| b.node_id(i)).collect();
        wd.tick();
        st.count("invalid_requests");
        if let Some(f) = check_request(&b, &mut orc, spec, r, &ins, &outs, Exec::No, st, mix(graph_hash ^ (0xbad0 + i as u64))) {
            st.failure_count += 1;
            st.count(kind_counter(f.kind));
            st.keep_failure((spec.clone(), r.clone(), f));
        }
    }
}

fn kind_counter(kind: &str) -> &'static str {
    match kind {
        "duplicate_op" => "raw_duplicate_op",
        "dep_not_ready" => "raw_dep_not_ready",
        "missing_output" => "raw_missing_output",
        "unneeded_op" => "raw_unneeded_op",
        "err_required" => "raw_err_required",
        "ok_required" => "raw_ok_required",
        "invalid_plan_panic" => "raw_invalid_plan_panic",
        "panic" => "raw_panic",
        "hang" => "raw_hang",
        _ => "raw_other",
    }
}

fn run_space(sp: &Space, args: &Args, total: &mut Stats, wd: &Arc<Watch>) -> (u64, f64) {
    let t0 = Instant::now();
    let outer_list = outers(sp);
    let cfgs = input_configs(sp.n_values, sp.modifier == Modifier::NoneInputs);
    let inner_count = cfgs.len().pow(sp.n_ops as u32);
    let out_lists = output_lists(sp.n_values, sp.max_outputs);
    const CHUNK: usize = 64;
    let mut tasks: Vec<(usize, usize)> = Vec::new();
    let mut t = 0usize;
    for oi in 0..outer_list.len() {
        let mut start = 0;
        while start < inner_count {
            if t % args.shards == args.shard {
                tasks.push((oi, start));
            }
            t += 1;
            start += CHUNK;
        }
    }
    let space_tag = hash_of(&(sp.name, sp.n_ops, sp.n_values));
    let graphs = AtomicU64::new(0);
    let merged: Stats = tasks
        .par_iter()
        .fold(Stats::default, |mut st, (oi, start)| {
            let slot = wd.slot();
            let outer = &outer_list[*oi];
            for inner in *start..(*start + CHUNK).min(inner_count) {
                if let Some(spec) = make_spec(sp, outer, &cfgs, inner) {
                    let gh = mix(space_tag ^ ((*oi as u64) << 40) ^ inner as u64);
                    slot.begin(WatchJob::Enumerated { space: sp.clone(), outer: outer.clone(), inner });
                    check_enumerated_graph(sp, &spec, gh, &out_lists, &mut st, slot);
                    slot.end();
                    graphs.fetch_add(1, SeqCst);
                }
            }
            st
        })
        .reduce(Stats::default, |mut a, b| {
            a.merge(b);
            a
        });
    total.merge(merged);
    (graphs.load(SeqCst), t0.elapsed().as_secs_f64())
}

// ------------------------------------------------------------------ random graphs

fn gen_random(rng: &mut Rng, max_ops: usize) -> GSpec {
    let n_ops = rng.urange(1, max_ops);
    let n_free = rng.urange(1, 4);
    let acyclic_bias = rng.chance(1, 2);
    // Decide the outputs first so that inputs can be drawn from all values.
    let mut values: Vec<VKind> = Vec::new();
    for _ in 0..n_free {
        values.push(match rng.below(6) {
            0 => VKind::Const,
            1 => VKind::Capture,
            _ => VKind::Plain,
        });
    }
    let mut ops: Vec<OpSpec> = Vec::new();
    let mut first_out: Vec<usize> = Vec::new();
    for _ in 0..n_ops {
        let n_out = match rng.below(8) {
            0..=4 => 1,
            5..=6 => 2,
            _ => 3,
        };
        first_out.push(values.len());
        let mut outputs: Vec<Option<usize>> = Vec::new();
        for _ in 0..n_out {
            if rng.chance(1, 10) && n_out > 1 {
                outputs.push(None);
            } else {
                outputs.push(Some(values.len()));
                values.push(VKind::Plain);
            }
        }
        if outputs.iter().all(|o| o.is_none()) {
            outputs[0] = Some(values.len());
            values.push(VKind::Plain);
        }
        ops.push(OpSpec { outputs, ..OpSpec::default() });
    }
    let nv = values.len();
    for i in 0..n_ops {
        let limit = if acyclic_bias { first_out[i].max(1) } else { nv };
        let n_in = rng.below(5);
        let mut inputs = Vec::new();
        for _ in 0..n_in {
            if rng.chance(1, 10) {
                inputs.push(None);
            } else if !inputs.is_empty() && rng.chance(1, 6) {
                let prev = *rng.choose(&inputs);
                inputs.push(prev); // repeated input
            } else {
                inputs.push(Some(rng.below(limit)));
            }
        }
        ops[i].inputs = inputs;
        ops[i].in_place = rng.chance(3, 10);
        if rng.chance(1, 5) {
            ops[i].subgraph = true;
            ops[i].in_place = false;
            for _ in 0..rng.urange(0, 2) {
                let c = if rng.chance(1, 3) && !ops[i].inputs.is_empty() {
                    // also used as an input
                    ops[i].inputs.iter().flatten().next().copied().unwrap_or(rng.below(limit))
                } else {
                    rng.below(limit)
                };
                if !ops[i].captures.contains(&c) {
                    ops[i].captures.push(c);
                }
            }
            ops[i].nested = rng.chance(1, 3);
        }
    }
    GSpec { values, ops }
}

fn gen_request(rng: &mut Rng, spec: &GSpec, producers: &[Option<usize>]) -> Request {
    let nv = spec.values.len();
    let mut inputs = Vec::new();
    for v in 0..nv {
        let p = if producers[v].is_none() { (7, 10) } else { (1, 8) };
        if rng.chance(p.0, p.1) {
            inputs.push(Id::Val(v));
        }
    }
    rng.shuffle(&mut inputs);
    let mut outputs: Vec<Id> = Vec::new();
    for _ in 0..rng.urange(1, 3) {
        let v = rng.below(nv);
        let v = if producers[v].is_none() && rng.chance(3, 4) { (0..nv).rev().find(|x| producers[*x].is_some()).unwrap_or(v) - rng.below(1) } else { v };
        if !outputs.contains(&Id::Val(v)) {
            outputs.push(Id::Val(v));
        }
    }
    Request { inputs, outputs, allow_missing: rng.chance(1, 4), captures_available: rng.chance(1, 3) }
}

fn run_random(args: &Args, n_graphs: u64, max_ops: usize, total: &mut Stats, wd: &Arc<Watch>) {
    let ids: Vec<u64> = (0..n_graphs).map(|i| i * args.shards as u64 + args.shard as u64).collect();
    let seed = args.seed;
    let merged: Stats = ids
        .par_chunks(32)
        .fold(Stats::default, |mut st, chunk| {
            let slot = wd.slot();
            for gid in chunk {
                slot.begin(WatchJob::Random { seed, gid: *gid, max_ops });
                check_random_graph(seed, *gid, max_ops, &mut st, slot);
                slot.end();
            }
            st
        })
        .reduce(Stats::default, |mut a, b| {
            a.merge(b);
            a
        });
    total.merge(merged);
}

fn check_random_graph(seed: u64, gid: u64, max_ops: usize, st: &mut Stats, wd: &WatchSlot) {
    let mut rng = Rng::derive(seed, 0xC03_0000 + gid);
    let spec = gen_random(&mut rng, max_ops);
    let producers = spec.producers();
    let b = build(&spec);
    let mut orc = Oracle::new(&spec);
    st.count("random_graphs");
    if spec.ops.iter().any(|o| o.subgraph) {
        st.count("random_graphs_with_subgraph_ops");
    }
    let mut reqs: Vec<Request> = (0..10).map(|_| gen_request(&mut rng, &spec, &producers)).collect();
    if rng.chance(1, 4) {
        let inv = invalid_requests(&spec);
        reqs.push(rng.choose(&inv).clone());
    }
    for (i, req) in reqs.iter().enumerate() {
        let ins: Vec<NodeId> = req.inputs.iter().map(|i| b.node_id(i)).collect();
        let outs: Vec<NodeId> = req.outputs.iter().map(|i| b.node_id(i)).collect();
        wd.tick();
        let h = mix(hash_of(&(seed, gid)) ^ i as u64);
        if let Some(f) = check_request(&b, &mut orc, &spec, req, &ins, &outs, Exec::Yes, st, h) {
            st.failure_count += 1;
            st.count(kind_counter(f.kind));
            st.keep_failure((spec.clone(), req.clone(), f));
        }
    }
}

// ------------------------------------------------------------------ long chains

fn chain_spec(n: usize) -> (GSpec, Request) {
    // v0 -> op0 -> v1 -> op1 -> ... -> vn
    let values = vec![VKind::Plain; n + 1];
    let ops = (0..n).map(|i| OpSpec { inputs: vec![Some(i)], outputs: vec![Some(i + 1)], ..OpSpec::default() }).collect();
    (GSpec { values, ops }, Request { inputs: vec![Id::Val(0)], outputs: vec![Id::Val(n)], allow_missing: false, captures_available: false })
}

/// Plan (and validate) a chain on a thread with the given stack size, in a
/// forked child, so that a stack overflow is observed instead of being fatal.
/// Returns "ok", "invalid:<kind>", or "signal <n>".
fn chain_in_child(n: usize, stack_bytes: usize) -> String {
    let r = guard::in_child(|| {
        let h = std::thread::Builder::new().stack_size(stack_bytes).spawn(move || {
            let (spec, req) = chain_spec(n);
            let b = build(&spec);
            let mut orc = Oracle::new(&spec);
            let ins: Vec<NodeId> = req.inputs.iter().map(|i| b.node_id(i)).collect();
            let outs: Vec<NodeId> = req.outputs.iter().map(|i| b.node_id(i)).collect();
            let mut st = Stats::default();
            match check_request(&b, &mut orc, &spec, &req, &ins, &outs, Exec::No, &mut st, 0) {
                None => 0,
                Some(_) => 1,
            }
        });
        match h {
            Ok(h) => h.join().unwrap_or(2),
            Err(_) => 3,
        }
    });
    match r {
        Ok(0) => "ok".to_string(),
        Ok(c) => format!("exit {}", c),
        Err(sig) => format!("signal {}", sig),
    }
}

fn run_chains(rep: &mut Report, thorough: bool) {
    // Must run before any other thread exists (fork).
    let lens: &[usize] = if thorough { &[1000, 5000, 20_000, 50_000] } else { &[1000, 5000] };
    let mut table = serde_json::Map::new();
    for &n in lens {
        for (label, stack) in [("2MiB_thread", 2usize << 20), ("8MiB_main_like", 8 << 20), ("1GiB", 1 << 30)] {
            let r = chain_in_child(n, stack);
            rep.eval();
            rep.count("chain_runs");
            if r == "ok" {
                rep.count("chain_plans_valid");
            } else if r.starts_with("signal") {
                rep.count("chain_stack_overflows");
            } else {
                rep.count("chain_other_result");
            }
            table.insert(format!("chain_{}_ops_stack_{}", n, label), json!(r));
        }
    }
    // Smallest chain that overflows a 2 MiB thread stack (bisection).
    let (mut lo, mut hi) = (1000usize, 24_000usize);
    if chain_in_child(hi, 2 << 20) != "ok" && chain_in_child(lo, 2 << 20) == "ok" {
        while hi - lo > 250 {
            let mid = (lo + hi) / 2;
            if chain_in_child(mid, 2 << 20) == "ok" {
                lo = mid;
            } else {
                hi = mid;
            }
        }
        table.insert("smallest_chain_overflowing_2MiB_stack_approx".to_string(), json!(hi));
    }
    rep.note("long_chains", Json::Object(table));
}

// ------------------------------------------------------------------ watchdog (termination)

#[derive(Clone, Debug)]
enum WatchJob {
    Enumerated { space: Space, outer: Outer, inner: usize },
    Random { seed: u64, gid: u64, max_ops: usize },
}

struct WatchSlot {
    busy: AtomicBool,
    ticks: AtomicU64,
    job: Mutex<Option<WatchJob>>,
}

impl WatchSlot {
    fn begin(&self, job: WatchJob) {
        *self.job.lock().unwrap() = Some(job);
        self.ticks.fetch_add(1, SeqCst);
        self.busy.store(true, SeqCst);
    }
    fn tick(&self) {
        self.ticks.fetch_add(1, SeqCst);
        if FAKE_HANG.load(SeqCst) && self.ticks.load(SeqCst) % 100_000 == 77_777 {
            loop {
                std::thread::sleep(Duration::from_secs(3600));
            }
        }
    }
    fn end(&self) {
        self.busy.store(false, SeqCst);
    }
}

static FAKE_HANG: AtomicBool = AtomicBool::new(false);

struct Watch {
    slots: Vec<WatchSlot>,
    stop: AtomicBool,
}

impl Watch {
    fn new() -> Arc<Watch> {
        Arc::new(Watch {
            slots: (0..257).map(|_| WatchSlot { busy: AtomicBool::new(false), ticks: AtomicU64::new(0), job: Mutex::new(None) }).collect(),
            stop: AtomicBool::new(false),
        })
    }
    fn slot(&self) -> &WatchSlot {
        let i = rayon::current_thread_index().map(|i| i + 1).unwrap_or(0);
        &self.slots[i.min(self.slots.len() - 1)]
    }
}

/// Re-run one graph job alone on a fresh thread; returns the request that
/// does not finish within `limit`, if any.
fn rerun_alone(job: &WatchJob, limit: Duration) -> Option<(GSpec, Request)> {
    let current: Arc<Mutex<Option<(GSpec, Request)>>> = Arc::new(Mutex::new(None));
    let progress = Arc::new(AtomicU64::new(0));
    let done = Arc::new(AtomicBool::new(false));
    let (c2, p2, d2, job2) = (current.clone(), progress.clone(), done.clone(), job.clone());
    std::thread::spawn(move || {
        let (spec, reqs): (GSpec, Vec<Request>) = match &job2 {
            WatchJob::Enumerated { space, outer, inner } => {
                let cfgs = input_configs(space.n_values, space.modifier == Modifier::NoneInputs);
                let spec = make_spec(space, outer, &cfgs, *inner).unwrap();
                let nv = spec.values.len();
                let mut reqs = Vec::new();
                for in_mask in 0u32..(1 << nv) {
                    for ol in output_lists(nv, space.max_outputs) {
                        for opts in 0..4 {
                            reqs.push(Request {
                                inputs: (0..nv).filter(|v| (in_mask >> v) & 1 == 1).map(Id::Val).collect(),
                                outputs: ol.iter().map(|v| Id::Val(*v)).collect(),
                                allow_missing: opts & 1 == 1,
                                captures_available: opts & 2 == 2,
                            });
                        }
                    }
                }
                (spec, reqs)
            }
            WatchJob::Random { seed, gid, max_ops } => {
                let mut rng = Rng::derive(*seed, 0xC03_0000 + gid);
                let spec = gen_random(&mut rng, *max_ops);
                let producers = spec.producers();
                let reqs = (0..10).map(|_| gen_request(&mut rng, &spec, &producers)).collect();
                (spec, reqs)
            }
        };
        let b = build(&spec);
        let mut orc = Oracle::new(&spec);
        for req in reqs {
            *c2.lock().unwrap() = Some((spec.clone(), req.clone()));
            p2.fetch_add(1, SeqCst);
            let e = orc.classify(&req);
            if e == Expect::Err(ErrWhy::Cycle) || (e == Expect::Ok && orc.cycle_through_available()) {
                // This class is decided by the child-process probe, not here.
                continue;
            }
            let ins: Vec<NodeId> = req.inputs.iter().map(|i| b.node_id(i)).collect();
            let outs: Vec<NodeId> = req.outputs.iter().map(|i| b.node_id(i)).collect();
            let _ = catch(|| b.plan(&ins, &outs, &req).map(|p| p.len()));
        }
        d2.store(true, SeqCst);
    });
    let mut last = (progress.load(SeqCst), Instant::now());
    loop {
        std::thread::sleep(Duration::from_millis(50));
        if done.load(SeqCst) {
            return None;
        }
        let p = progress.load(SeqCst);
        if p != last.0 {
            last = (p, Instant::now());
        } else if last.1.elapsed() > limit {
            return current.lock().unwrap().clone();
        }
    }
}

fn spawn_watchdog(wd: Arc<Watch>, args: Args) {
    std::thread::spawn(move || {
        let n = wd.slots.len();
        let mut seen: Vec<(u64, Instant)> = (0..n).map(|_| (0, Instant::now())).collect();
        while !wd.stop.load(SeqCst) {
            std::thread::sleep(Duration::from_millis(200));
            for i in 0..n {
                let s = &wd.slots[i];
                let t = s.ticks.load(SeqCst);
                if !s.busy.load(SeqCst) || t != seen[i].0 || PROBING.load(SeqCst) > 0 {
                    seen[i] = (t, Instant::now());
                    continue;
                }
                if seen[i].1.elapsed() < Duration::from_secs(2) {
                    continue;
                }
                // A worker made no progress for 2 s on a graph with <= 10
                // operators. Re-run that graph alone before believing it.
                let job = s.job.lock().unwrap().clone();
                seen[i] = (t, Instant::now());
                let Some(job) = job else { continue };
                if let Some((spec, req)) = rerun_alone(&job, Duration::from_secs(5)) {
                    let mut rep = Report::new("C03", "plancheck c03", &args, RULE);
                    rep.eval();
                    rep.note("aborted", json!("a planning call did not return; the run was stopped after confirming it alone"));
                    let sig = format!("C03|hang|{}", canonical(&spec, &req));
                    rep.violation(
                        sig,
                        format!("execution_plan did not return within 5 s when re-run alone: {}", canonical(&spec, &req)),
                        json!({"spec": spec.to_json(), "request": req.to_json(), "kind": "hang"}),
                    );
                    rep.finish();
                    std::process::exit(0);
                } else {
                    eprintln!("plancheck: watchdog suspicion not confirmed (worker was descheduled)");
                }
            }
        }
    });
}

// ------------------------------------------------------------------ shrinking and reporting

fn still_fails(spec: &GSpec, req: &Request, kind: &str, budget: &mut usize) -> Option<Failure> {
    if *budget == 0 {
        return None;
    }
    *budget -= 1;
    // Structural sanity: indices in range, one producer per value.
    let nv = spec.values.len();
    let mut produced = vec![false; nv];
    for op in &spec.ops {
        for v in op.inputs.iter().flatten().chain(op.captures.iter()) {
            if *v >= nv {
                return None;
            }
        }
        for v in op.outputs.iter().flatten() {
            if *v >= nv || produced[*v] {
                return None;
            }
            produced[*v] = true;
        }
    }
    let mut st = Stats::default();
    match catch(|| check_case(spec, req, &mut st)) {
        Ok(Some(f)) if f.kind == kind => Some(f),
        _ => None,
    }
}

fn shrink(spec: &GSpec, req: &Request, fail: &Failure) -> (GSpec, Request, Failure) {
    let kind = fail.kind;
    let mut budget = 4000usize;
    let (mut s, mut r, mut f) = (spec.clone(), req.clone(), fail.clone());
    loop {
        let mut progress = false;
        macro_rules! attempt {
            ($cs:expr, $cr:expr) => {{
                let (cs, cr) = ($cs, $cr);
                if let Some(f2) = still_fails(&cs, &cr, kind, &mut budget) {
                    s = cs;
                    r = cr;
                    f = f2;
                    progress = true;
                    true
                } else {
                    false
                }
            }};
        }
        // Drop operators.
        let mut i = 0;
        while i < s.ops.len() {
            let (cs, cr) = remove_op(&s, &r, i);
            if !attempt!(cs, cr) {
                i += 1;
            }
        }
        // Drop values.
        let mut v = 0;
        while v < s.values.len() {
            let (cs, cr) = remove_value(&s, &r, v);
            if !attempt!(cs, cr) {
                v += 1;
            }
        }
        // Drop request entries.
        let mut i = 0;
        while i < r.inputs.len() {
            let mut cr = r.clone();
            cr.inputs.remove(i);
            if !attempt!(s.clone(), cr) {
                i += 1;
            }
        }
        let mut i = 0;
        while i < r.outputs.len() {
            let mut cr = r.clone();
            cr.outputs.remove(i);
            if !attempt!(s.clone(), cr) {
                i += 1;
            }
        }
        // Simplify operators.
        for i in 0..s.ops.len() {
            let mut j = 0;
            while j < s.ops[i].inputs.len() {
                let mut cs = s.clone();
                cs.ops[i].inputs.remove(j);
                if !attempt!(cs, r.clone()) {
                    j += 1;
                }
            }
            let mut j = 0;
            while j < s.ops[i].captures.len() {
                let mut cs = s.clone();
                cs.ops[i].captures.remove(j);
                if !attempt!(cs, r.clone()) {
                    j += 1;
                }
            }
            if s.ops[i].outputs.iter().any(|o| o.is_none()) {
                let mut cs = s.clone();
                cs.ops[i].outputs.retain(|o| o.is_some());
                attempt!(cs, r.clone());
            }
            if s.ops[i].subgraph && s.ops[i].captures.is_empty() {
                let mut cs = s.clone();
                cs.ops[i].subgraph = false;
                cs.ops[i].nested = false;
                attempt!(cs, r.clone());
            }
            if s.ops[i].nested {
                let mut cs = s.clone();
                cs.ops[i].nested = false;
                attempt!(cs, r.clone());
            }
            if s.ops[i].in_place {
                let mut cs = s.clone();
                cs.ops[i].in_place = false;
                attempt!(cs, r.clone());
            }
        }
        for v in 0..s.values.len() {
            if s.values[v] != VKind::Plain {
                let mut cs = s.clone();
                cs.values[v] = VKind::Plain;
                attempt!(cs, r.clone());
            }
        }
        if r.allow_missing {
            let mut cr = r.clone();
            cr.allow_missing = false;
            attempt!(s.clone(), cr);
        }
        if r.captures_available {
            let mut cr = r.clone();
            cr.captures_available = false;
            attempt!(s.clone(), cr);
        }
        if !progress || budget == 0 {
            break;
        }
    }
    // Canonical form: among operator orders and request orders that still
    // fail the same way, the lexicographically smallest text.
    let mut best = {
        let (cs, cr) = renumber_values(&s, &r);
        match still_fails(&cs, &cr, kind, &mut budget) {
            Some(f2) => (canonical(&cs, &cr), cs, cr, f2),
            None => (canonical(&s, &r), s.clone(), r.clone(), f.clone()),
        }
    };
    if s.ops.len() <= 4 {
        let mut perm: Vec<usize> = (0..s.ops.len()).collect();
        let mut perms: Vec<Vec<usize>> = Vec::new();
        permutations(&mut perm, 0, &mut perms);
        for p in perms {
            let (ps, pr) = permute_ops(&s, &r, &p);
            let mut reqs = vec![pr.clone()];
            let mut sorted = pr.clone();
            sorted.inputs.sort_by_key(|i| format!("{:?}", i));
            sorted.outputs.sort_by_key(|i| format!("{:?}", i));
            reqs.push(sorted);
            for rq in reqs {
                let (cs, cr) = renumber_values(&ps, &rq);
                let text = canonical(&cs, &cr);
                if text < best.0 {
                    if let Some(f2) = still_fails(&cs, &cr, kind, &mut budget) {
                        best = (text, cs, cr, f2);
                    }
                }
            }
        }
    }
    (best.1, best.2, best.3)
}

fn permutations(a: &mut Vec<usize>, k: usize, out: &mut Vec<Vec<usize>>) {
    if k == a.len() {
        out.push(a.clone());
        return;
    }
    for i in k..a.len() {
        a.swap(k, i);
        permutations(a, k + 1, out);
        a.swap(k, i);
    }
}

fn report_failure(rep: &mut Report, spec: &GSpec, req: &Request, fail: &Failure) {
    let (mut s, mut r, mut f) = shrink(spec, req, fail);
    if f.kind == "hang" {
        // Shrinking used short time limits; confirm the result with the long ones.
        let bad = |e: ChildEnd| matches!(e, ChildEnd::TimedOut | ChildEnd::Died(_));
        let long = bad(plan_in_child(&s, &r, Duration::from_millis(1000))) && bad(plan_in_child(&s, &r, Duration::from_millis(4000)));
        if !long {
            (s, r, f) = (spec.clone(), req.clone(), fail.clone());
        }
    }
    let text = canonical(&s, &r);
    rep.violation(
        format!("C03|{}|{}", f.kind, text),
        format!("{}: {} -- case: {}", f.kind, f.detail, text),
        json!({"spec": s.to_json(), "request": r.to_json(), "kind": f.kind, "detail": f.detail, "original_case": canonical(spec, req)}),
    );
}

// ------------------------------------------------------------------ main

const RULE: &str = "graphs built directly with Graph::add_value/add_constant/add_op and mock operators (0-2 inputs drawn from ALL values so cycles occur, 1-2 outputs, omitted inputs, repeated inputs, in-place operators, operators with (nested) subgraphs capturing values by name, constants, graph-level captures): bounded-exhaustive spaces (listed in notes.spaces) times every subset of values as supplied inputs, output lists in both orders, allow_missing_inputs x captures_available, plus invalid requests (operator ids, unknown ids, duplicates); random graphs up to 10 operators; 1000-100000 operator chains in child processes; each Ok plan is validated step by step against the harness's own dependency relation (once, dependencies ready, complete, minimal), requests the relation says are unplannable must be refused, plannable ones must not be, and validated plans are executed through Graph::run / run_subgraph with mock values; a case is non-trivial when the plan has >= 2 operators or an error was required; distinct by (graph, request)";

fn spaces(thorough: bool) -> Vec<Space> {
    let mut v = Vec::new();
    let mods = [Modifier::Base, Modifier::Kinds, Modifier::InPlace, Modifier::NoneInputs, Modifier::Capture];
    let names = ["base", "kinds", "in_place", "none_inputs", "capture"];
    let mut add = |n_ops: usize, n_values: usize, mi: usize, max_outputs: Option<usize>, exec_every: u64| {
        v.push(Space { name: names[mi], n_ops, n_values, modifier: mods[mi], max_outputs, exec_every });
    };
    if !thorough {
        for n_ops in 0..=2usize {
            for nv in n_ops.max(1)..=4 {
                for mi in 0..5 {
                    if n_ops == 0 && mi != 0 && mi != 1 {
                        continue;
                    }
                    add(n_ops, nv, mi, None, 1);
                }
            }
        }
    } else {
        for n_ops in 0..=2usize {
            for nv in n_ops.max(1)..=6 {
                for mi in 0..5 {
                    if n_ops == 0 && mi != 0 && mi != 1 {
                        continue;
                    }
                    add(n_ops, nv, mi, None, if nv <= 4 { 1 } else { 8 });
                }
            }
        }
        for nv in 3..=4 {
            for mi in 0..5 {
                add(3, nv, mi, None, 8);
            }
        }
        add(3, 5, 0, None, 32);
        add(3, 6, 0, Some(2), 64);
    }
    v
}

fn replay(args: &Args, rep: &mut Report, path: &str) {
    let w: Json = serde_json::from_str(&std::fs::read_to_string(path).expect("read replay file")).expect("parse replay file");
    let w = if w.get("witness").is_some() { w["witness"].clone() } else { w };
    let w = if w.get("witness").is_some() { w["witness"].clone() } else { w };
    let spec = GSpec::from_json(&w["spec"]);
    let req = Request::from_json(&w["request"]);
    let _ = args;
    rep.eval();
    rep.nontrivial(&0u8);
    rep.nontrivial(&1u8);
    let mut st = Stats::default();
    match catch(|| check_case(&spec, &req, &mut st)) {
        Ok(Some(f)) => report_failure(rep, &spec, &req, &f),
        Ok(None) => {}
        Err(msg) => rep.inconclusive = Some(format!("harness panic during replay: {}", msg)),
    }
    for (k, v) in st.counters {
        rep.add(k, v);
    }
}

fn c03(args: &Args) {
    let mut rep = Report::new("C03", "plancheck c03", args, RULE);
    rep.max_samples = 8;
    if let Some(path) = &args.replay {
        let path = path.clone();
        replay(args, &mut rep, &path);
        rep.finish();
        std::process::exit(0);
    }
    if std::env::var_os("VERIF_PLANCHECK_FAKE_HANG").is_some() {
        FAKE_HANG.store(true, SeqCst);
    }

    // Long chains first: they fork, so no other thread may exist yet.
    if args.shard == 0 && args.get("skip_chains").is_none() {
        run_chains(&mut rep, args.thorough);
    }

    let wd = Watch::new();
    spawn_watchdog(wd.clone(), args.clone());

    let mut total = Stats::default();
    let mut space_notes: Vec<Json> = Vec::new();
    let only = args.get("space").map(|s| s.to_string());
    // Run inside rten's thread pool: Graph::run then executes inline on the
    // calling worker instead of hopping threads.
    rten::thread_pool().run(|| {
        for sp in spaces(args.thorough) {
            let tag = format!("{}ops_{}values_{}", sp.n_ops, sp.n_values, sp.name);
            if let Some(o) = &only {
                if !tag.contains(o.as_str()) {
                    continue;
                }
            }
            let before = total.evals;
            let (graphs, secs) = run_space(&sp, args, &mut total, &wd);
            space_notes.push(json!({
                "space": tag, "operators": sp.n_ops, "values": sp.n_values, "modifier": format!("{:?}", sp.modifier),
                "output_lists": match sp.max_outputs { None => "all subsets, ascending and descending".to_string(), Some(m) => format!("subsets of size <= {} (both orders) and the full set", m) },
                "graphs": graphs, "requests": total.evals - before, "executed_every": sp.exec_every, "seconds": (secs * 100.0).round() / 100.0,
            }));
        }
        if only.is_none() || only.as_deref() == Some("random") {
            let n_random = args.budget(20_000, 2_000_000);
            let before = total.evals;
            let t0 = Instant::now();
            run_random(args, n_random, 10, &mut total, &wd);
            space_notes.push(json!({"space": "random", "graphs": n_random, "max_operators": 10, "requests": total.evals - before, "seconds": (t0.elapsed().as_secs_f64() * 100.0).round() / 100.0}));
        }
    });
    wd.stop.store(true, SeqCst);

    rep.evaluations += total.evals;
    for (k, v) in &total.counters {
        rep.add(k, *v);
    }
    for h in &total.nontrivial {
        rep.nontrivial(h);
    }
    rep.add("nontrivial_cases_total", total.nontrivial_total);
    rep.max("longest_plan", total.max_plan_len);
    for s in total.samples.drain(..) {
        rep.sample(|| s);
    }
    rep.note("spaces", json!(space_notes));
    rep.note(
        "enumeration",
        json!("each space = all graphs with exactly that many operators (1 or 2 outputs each, outputs are distinct values) and exactly that many values, every operator input list of length 0..2 over all values of the graph; supplied inputs = every subset of the values; options = allow_missing_inputs x captures_available (captures_available=true sampled 1/8 when the graph has no captured value); smaller graphs embed into larger spaces as graphs with unused values"),
    );
    rep.exhaustive = only.is_none() && args.shards == 1;
    if !total.other_panics.is_empty() {
        rep.note("unexpected_runs", json!(total.other_panics));
    }
    if !total.partial_run_panics.is_empty() {
        rep.note("partial_run_panics_not_part_of_C03", json!(total.partial_run_panics));
    }
    if total.counters.get("run_other_panic").copied().unwrap_or(0) > 0 {
        rep.inconclusive = Some(format!("executor panicked in an unexpected way: {}", total.other_panics.first().cloned().unwrap_or_default()));
    }

    // Violation candidates are re-checked alone, shrunk and reported here.
    rep.add("failing_requests_total", total.failure_count);
    let mut seen_kinds: BTreeMap<&'static str, u32> = BTreeMap::new();
    for (spec, req, _) in &total.failures {
        let mut st = Stats::default();
        match catch(|| check_case(spec, req, &mut st)) {
            Ok(Some(f)) => {
                let n = seen_kinds.entry(f.kind).or_insert(0);
                *n += 1;
                if *n <= 6 {
                    report_failure(&mut rep, spec, req, &f);
                }
            }
            Ok(None) => rep.count("candidates_not_confirmed_alone"),
            Err(msg) => rep.inconclusive = Some(format!("harness panic while confirming a candidate: {}", msg)),
        }
    }
    if rep.evaluations == 0 {
        rep.inconclusive = Some("nothing was evaluated".to_string());
    }
    if total.counters.get("valid_plans").copied().unwrap_or(0) == 0 && only.is_none() {
        rep.inconclusive = Some("no valid plan was ever returned".to_string());
    }
    rep.finish();
    // Worker threads of a confirmed-hang run may still exist; exit explicitly.
    std::process::exit(0);
}

fn real_main() {
    let args = Args::parse();
    match args.cmd.as_str() {
        "c03" => c03(&args),
        "noop" => {}
        other => {
            eprintln!("unknown sub-command {:?}", other);
            std::process::exit(3);
        }
    }
}

fn main() {
    run_main(real_main)
}
