//! The planner-independent oracle: decides from the harness's own dependency
//! relation whether a request must be refused, and validates a returned plan
//! step by step. Everything is iterative (no recursion), so 5000-operator
//! chains are fine.
use crate::spec::*;

/// Why a request must be refused.
#[derive(Clone, Copy, PartialEq, Eq, Debug, Hash)]
pub enum ErrWhy {
    NonValueId,
    Duplicate,
    Missing,
    Cycle,
}

#[derive(Clone, PartialEq, Eq, Debug)]
pub enum Expect {
    Err(ErrWhy),
    Ok,
}

/// Pre-computed relation of one graph plus scratch buffers.
pub struct Oracle {
    pub producer: Vec<Option<usize>>,
    pub deps: Vec<Vec<usize>>,
    pub outputs: Vec<Vec<usize>>,
    kinds: Vec<VKind>,
    // scratch
    avail: Vec<bool>,
    seen: Vec<bool>,
    pub needed: Vec<bool>,
    color: Vec<u8>,
    count: Vec<u32>,
    stack: Vec<usize>,
    dfs: Vec<(usize, usize)>,
}

#[derive(Clone, PartialEq, Eq, Debug)]
pub struct PlanFault {
    pub kind: &'static str,
    pub detail: String,
}

impl Oracle {
    pub fn new(spec: &GSpec) -> Oracle {
        let nv = spec.values.len();
        let no = spec.ops.len();
        Oracle {
            producer: spec.producers(),
            deps: spec.deps(),
            outputs: spec.ops.iter().map(|o| o.outputs.iter().flatten().copied().collect()).collect(),
            kinds: spec.values.clone(),
            avail: vec![false; nv],
            seen: vec![false; nv],
            needed: vec![false; no],
            color: vec![0; no],
            count: vec![0; no],
            stack: Vec::new(),
            dfs: Vec::new(),
        }
    }

    /// Values available before any operator runs.
    fn base_avail(&mut self, req: &Request) {
        for (v, k) in self.kinds.iter().enumerate() {
            self.avail[v] = match k {
                VKind::Const => true,
                VKind::Capture => req.captures_available,
                VKind::Plain => false,
            };
        }
        for id in &req.inputs {
            if let Id::Val(v) = id {
                self.avail[*v] = true;
            }
        }
    }

    /// Decide whether planning must fail. On `Expect::Ok`, `self.needed`
    /// holds the operators some requested output needs.
    pub fn classify(&mut self, req: &Request) -> Expect {
        for id in req.inputs.iter().chain(req.outputs.iter()) {
            if !matches!(id, Id::Val(_)) {
                return Expect::Err(ErrWhy::NonValueId);
            }
        }
        for list in [&req.inputs, &req.outputs] {
            for (i, a) in list.iter().enumerate() {
                if list[i + 1..].contains(a) {
                    return Expect::Err(ErrWhy::Duplicate);
                }
            }
        }
        self.base_avail(req);
        self.seen.iter_mut().for_each(|x| *x = false);
        self.needed.iter_mut().for_each(|x| *x = false);
        self.stack.clear();
        // Backwards search from the outputs; stops at available values.
        for id in req.outputs.iter().rev() {
            if let Id::Val(v) = id {
                self.stack.push(*v);
            }
        }
        let mut missing = false;
        while let Some(v) = self.stack.pop() {
            if self.seen[v] {
                continue;
            }
            self.seen[v] = true;
            if self.avail[v] {
                continue;
            }
            match self.producer[v] {
                None => {
                    if !req.allow_missing {
                        missing = true;
                    }
                }
                Some(p) => {
                    if !self.needed[p] {
                        self.needed[p] = true;
                        for d in &self.deps[p] {
                            self.stack.push(*d);
                        }
                    }
                }
            }
        }
        // Cycle among needed operators along unavailable values.
        self.color.iter_mut().for_each(|x| *x = 0);
        let mut cycle = false;
        'outer: for start in 0..self.needed.len() {
            if !self.needed[start] || self.color[start] != 0 {
                continue;
            }
            self.dfs.clear();
            self.dfs.push((start, 0));
            self.color[start] = 1;
            while let Some(&(op, i)) = self.dfs.last() {
                if i < self.deps[op].len() {
                    self.dfs.last_mut().unwrap().1 += 1;
                    let d = self.deps[op][i];
                    if self.avail[d] {
                        continue;
                    }
                    if let Some(p) = self.producer[d] {
                        match self.color[p] {
                            0 => {
                                self.color[p] = 1;
                                self.dfs.push((p, 0));
                            }
                            1 => {
                                cycle = true;
                                break 'outer;
                            }
                            _ => {}
                        }
                    }
                } else {
                    self.color[op] = 2;
                    self.dfs.pop();
                }
            }
        }
        if cycle {
            return Expect::Err(ErrWhy::Cycle);
        }
        if missing {
            return Expect::Err(ErrWhy::Missing);
        }
        Expect::Ok
    }

    /// After `classify` returned `Expect::Ok`: do the needed operators form a
    /// cycle when supplied / constant / captured values are *not* cut, i.e. is
    /// there a dependency cycle that passes through an available value?
    /// (Plannable, but the class of requests on which a planner that re-visits
    /// operators could loop; used only to decide *how* to call the planner.)
    pub fn cycle_through_available(&mut self) -> bool {
        self.color.iter_mut().for_each(|x| *x = 0);
        for start in 0..self.needed.len() {
            if !self.needed[start] || self.color[start] != 0 {
                continue;
            }
            self.dfs.clear();
            self.dfs.push((start, 0));
            self.color[start] = 1;
            while let Some(&(op, i)) = self.dfs.last() {
                if i < self.deps[op].len() {
                    self.dfs.last_mut().unwrap().1 += 1;
                    let d = self.deps[op][i];
                    if let Some(p) = self.producer[d] {
                        if !self.needed[p] {
                            continue;
                        }
                        match self.color[p] {
                            0 => {
                                self.color[p] = 1;
                                self.dfs.push((p, 0));
                            }
                            1 => return true,
                            _ => {}
                        }
                    }
                } else {
                    self.color[op] = 2;
                    self.dfs.pop();
                }
            }
        }
        false
    }

    /// Validate a plan (operator indices; `None` = an id that is not an
    /// operator of the graph) for a request that `classify` accepted.
    pub fn validate(&mut self, req: &Request, plan: &[Option<usize>]) -> Result<(), PlanFault> {
        self.count.iter_mut().for_each(|x| *x = 0);
        for (pos, op) in plan.iter().enumerate() {
            match op {
                None => {
                    return Err(PlanFault { kind: "unneeded_op", detail: format!("plan entry {} is not an operator of the graph", pos) });
                }
                Some(op) => {
                    self.count[*op] += 1;
                    if self.count[*op] > 1 {
                        return Err(PlanFault { kind: "duplicate_op", detail: format!("operator op{} appears more than once (second time at position {})", op, pos) });
                    }
                }
            }
        }
        self.base_avail(req);
        if req.allow_missing {
            // "as if those inputs would be provided later"
            for v in 0..self.avail.len() {
                if self.producer[v].is_none() {
                    self.avail[v] = true;
                }
            }
        }
        for (pos, op) in plan.iter().enumerate() {
            let op = op.unwrap();
            for d in &self.deps[op] {
                if !self.avail[*d] {
                    return Err(PlanFault {
                        kind: "dep_not_ready",
                        detail: format!("op{} at position {} runs before v{} is available", op, pos, d),
                    });
                }
            }
            for o in &self.outputs[op] {
                self.avail[*o] = true;
            }
        }
        for id in &req.outputs {
            if let Id::Val(v) = id {
                if !self.avail[*v] {
                    return Err(PlanFault { kind: "missing_output", detail: format!("requested output v{} is not produced", v) });
                }
            }
        }
        for op in plan.iter().flatten() {
            if !self.needed[*op] {
                return Err(PlanFault { kind: "unneeded_op", detail: format!("op{} is in the plan but no requested output needs it", op) });
            }
        }
        Ok(())
    }
}
