//! ctccheck: runtime monitor for rten::ctc (C39).
//!
//!   ctccheck c39   greedy and beam CTC decoding vs brute-force enumeration of
//!                  all alignments (small matrices) and the CTC forward
//!                  algorithm (larger ones), both in f64
use std::collections::{BTreeMap, HashMap, HashSet};

use rten::ctc::{CtcDecoder, CtcHypothesis};
use rten_tensor::NdTensor;
use rten_tensor::prelude::*;
use vcommon::*;

fn main() {
    run_main(real_main)
}

fn real_main() {
    let args = Args::parse();
    match args.cmd.as_str() {
        "c39" => run(&args),
        other => {
            eprintln!("unknown sub-command {:?}", other);
            std::process::exit(3);
        }
    }
}

// ------------------------------------------------------------------ cases

#[derive(Clone, Debug)]
struct Case {
    /// `[T][L]` log-probabilities, label 0 = blank.
    m: Vec<Vec<f32>>,
    beam: u32,
    n_best: u32,
    /// "flat" when every entry is ln(1/L) (canonical form used by shrinking).
    family: String,
}

impl Case {
    fn t(&self) -> usize {
        self.m.len()
    }
    fn l(&self) -> usize {
        self.m.first().map(|r| r.len()).unwrap_or(0)
    }
    fn tensor(&self) -> NdTensor<f32, 2> {
        let data: Vec<f32> = self.m.iter().flatten().copied().collect();
        NdTensor::from_data([self.t(), self.l()], data)
    }
    fn to_json(&self) -> Json {
        json!({
            "mode": "c39",
            "T": self.t(), "L": self.l(), "beam": self.beam, "n_best": self.n_best, "family": self.family,
            "m_bits": self.m.iter().map(|r| r.iter().map(|x| format!("{:08x}", x.to_bits())).collect::<Vec<_>>()).collect::<Vec<_>>(),
            "m_text": self.m.iter().map(|r| r.iter().map(|x| format!("{:?}", x)).collect::<Vec<_>>()).collect::<Vec<_>>(),
        })
    }
    fn from_json(j: &Json) -> Case {
        let m: Vec<Vec<f32>> = j["m_bits"]
            .as_array()
            .expect("m_bits")
            .iter()
            .map(|r| r.as_array().unwrap().iter().map(|x| f32::from_bits(u32::from_str_radix(x.as_str().unwrap(), 16).unwrap())).collect())
            .collect();
        Case { m, beam: j["beam"].as_u64().unwrap() as u32, n_best: j["n_best"].as_u64().unwrap() as u32, family: j["family"].as_str().unwrap_or("given").to_string() }
    }
    fn matrix_sig(&self) -> String {
        if self.family == "flat" {
            format!("flat T={} L={}", self.t(), self.l())
        } else {
            format!(
                "T={} L={} m=[{}]",
                self.t(),
                self.l(),
                self.m.iter().map(|r| format!("[{}]", r.iter().map(|x| format!("{:?}", x)).collect::<Vec<_>>().join(","))).collect::<Vec<_>>().join(",")
            )
        }
    }
}

/// Row of valid log-probabilities: log-softmax (f64) of `logits`, entries
/// whose logit is -inf stay -inf and the others still sum to 1.
fn log_softmax_row(logits: &[f64]) -> Vec<f32> {
    let mx = logits.iter().copied().fold(f64::NEG_INFINITY, f64::max);
    let lse = mx + logits.iter().map(|x| (x - mx).exp()).sum::<f64>().ln();
    logits.iter().map(|x| if *x == f64::NEG_INFINITY { f32::NEG_INFINITY } else { (x - lse) as f32 }).collect()
}

fn flat_matrix(t: usize, l: usize) -> Vec<Vec<f32>> {
    (0..t).map(|_| log_softmax_row(&vec![0.0; l])).collect()
}

fn gen_row(rng: &mut Rng, l: usize, kind: usize) -> Vec<f32> {
    let mut logits: Vec<f64> = match kind {
        0 => vec![0.0; l],
        1 => {
            let mut v: Vec<f64> = (0..l).map(|_| rng.unit_f64() * 2.0 - 1.0).collect();
            let i = rng.below(l);
            v[i] += 4.0 + rng.unit_f64() * 12.0;
            v
        }
        2 => (0..l).map(|_| rng.unit_f64() * 6.0 - 3.0).collect(),
        // a few tied values
        3 => (0..l).map(|_| rng.below(2) as f64).collect(),
        _ => (0..l).map(|_| rng.unit_f64() * 2.0 - 1.0).collect(),
    };
    if kind == 4 && l > 1 {
        // -inf entries; at least one finite entry remains.
        let keep = rng.below(l);
        for (i, x) in logits.iter_mut().enumerate() {
            if i != keep && rng.chance(1, 2) {
                *x = f64::NEG_INFINITY;
            }
        }
    }
    log_softmax_row(&logits)
}

fn gen_matrix(rng: &mut Rng, t: usize, l: usize, family: usize) -> (Vec<Vec<f32>>, String) {
    // family: 0 flat, 1 peaked, 2 random, 3 ties, 4 with -inf, 5 mixed rows
    let names = ["flat", "peaked", "random", "ties", "neg_inf", "mixed"];
    let m = (0..t)
        .map(|_| {
            let kind = if family == 5 { rng.below(5) } else { family };
            gen_row(rng, l, kind)
        })
        .collect();
    (m, names[family].to_string())
}

// ------------------------------------------------------------------ reference

fn collapse(path: &[usize]) -> Vec<u32> {
    let mut out = Vec::new();
    let mut last = 0usize;
    for &a in path {
        if a != last {
            last = a;
            if a > 0 {
                out.push(a as u32);
            }
        }
    }
    out
}

/// Exact log-probability of every label sequence by enumerating all L^T
/// alignments (probabilities summed in f64).
fn enumerate_exact(m: &[Vec<f32>]) -> HashMap<Vec<u32>, f64> {
    let t = m.len();
    let l = m[0].len();
    let mut acc: HashMap<Vec<u32>, f64> = HashMap::new();
    let total = l.pow(t as u32);
    let mut path = vec![0usize; t];
    for code in 0..total {
        let mut c = code;
        let mut lp = 0f64;
        for (i, row) in m.iter().enumerate() {
            path[i] = c % l;
            c /= l;
            lp += row[path[i]] as f64;
        }
        *acc.entry(collapse(&path)).or_insert(0.0) += lp.exp();
    }
    acc.into_iter().map(|(k, p)| (k, p.ln())).collect()
}

fn lse2(a: f64, b: f64) -> f64 {
    if a == f64::NEG_INFINITY {
        return b;
    }
    if b == f64::NEG_INFINITY {
        return a;
    }
    let m = a.max(b);
    m + ((a - m).exp() + (b - m).exp()).ln()
}

/// CTC forward algorithm: log-probability that the matrix emits `labels`.
fn forward(m: &[Vec<f32>], labels: &[u32]) -> f64 {
    let t = m.len();
    // extended sequence: blank, l1, blank, l2, ..., blank
    let ext: Vec<usize> = std::iter::once(0).chain(labels.iter().flat_map(|l| [*l as usize, 0])).collect();
    let s = ext.len();
    if t == 0 {
        return if labels.is_empty() { 0.0 } else { f64::NEG_INFINITY };
    }
    if labels.iter().any(|l| *l as usize >= m[0].len() || *l == 0) {
        return f64::NEG_INFINITY;
    }
    let mut alpha = vec![f64::NEG_INFINITY; s];
    alpha[0] = m[0][0] as f64;
    if s > 1 {
        alpha[1] = m[0][ext[1]] as f64;
    }
    for row in m.iter().skip(1) {
        let mut next = vec![f64::NEG_INFINITY; s];
        for i in 0..s {
            let mut a = alpha[i];
            if i >= 1 {
                a = lse2(a, alpha[i - 1]);
            }
            if i >= 2 && ext[i] != 0 && ext[i] != ext[i - 2] {
                a = lse2(a, alpha[i - 2]);
            }
            next[i] = a + row[ext[i]] as f64;
        }
        alpha = next;
    }
    if s > 1 { lse2(alpha[s - 1], alpha[s - 2]) } else { alpha[0] }
}

/// Is there an arg-max path (ties broken freely) whose collapse, with
/// first-occurrence positions, equals `steps`?
fn greedy_consistent(m: &[Vec<f32>], steps: &[(u32, u32)]) -> bool {
    // state: (last label, steps emitted)
    let mut states: HashSet<(usize, usize)> = HashSet::new();
    states.insert((0, 0));
    for (t, row) in m.iter().enumerate() {
        let mx = row.iter().copied().fold(f32::NEG_INFINITY, f32::max);
        let argmaxes: Vec<usize> = (0..row.len()).filter(|i| row[*i] == mx).collect();
        let mut next = HashSet::new();
        for (last, k) in &states {
            for &a in &argmaxes {
                if a == *last {
                    next.insert((*last, *k));
                } else if a == 0 {
                    next.insert((0, *k));
                } else if *k < steps.len() && steps[*k] == (a as u32, t as u32) {
                    next.insert((a, *k + 1));
                }
            }
        }
        states = next;
    }
    states.iter().any(|(_, k)| *k == steps.len())
}

// ------------------------------------------------------------------ judging

#[derive(Clone, Debug)]
struct Finding {
    kind: &'static str,
    api: &'static str,
    detail: String,
}

#[derive(Default, Clone, Debug)]
struct Stats {
    greedy: u64,
    greedy_with_ties: u64,
    beam_calls: u64,
    hyps: u64,
    hyps_exact_by_enumeration: u64,
    hyps_bound_by_forward: u64,
    hyps_unpruned_exactness_checked: u64,
    zero_probability_hyps: u64,
    forward_vs_enumeration_checked: u64,
    forward_vs_enumeration_disagree: u64,
    panics: u64,
    max_hyps_returned: u64,
    wide_beam_cases: u64,
    last_panic: Option<String>,
}

fn labels_of(h: &CtcHypothesis) -> Vec<u32> {
    h.steps().iter().map(|s| s.label).collect()
}

fn tol_for(t: usize, exact: f64) -> f64 {
    1e-4 + 4.0 * t as f64 * f32::EPSILON as f64 * exact.abs()
}

fn judge(case: &Case, st: &mut Stats) -> Vec<Finding> {
    let mut out = Vec::new();
    let tensor = case.tensor();
    let (t, l) = (case.t(), case.l());
    let small = t <= 5 && l <= 3;
    let exact_map = if small { Some(enumerate_exact(&case.m)) } else { None };

    // ---- greedy
    st.greedy += 1;
    match catch(|| CtcDecoder::new().decode_greedy(tensor.view())) {
        Err(msg) => {
            st.panics += 1;
            st.last_panic = Some(msg);
        }
        Ok(h) => {
            let steps: Vec<(u32, u32)> = h.steps().iter().map(|s| (s.label, s.pos)).collect();
            let ties = case.m.iter().any(|row| {
                let mx = row.iter().copied().fold(f32::NEG_INFINITY, f32::max);
                row.iter().filter(|x| **x == mx).count() > 1
            });
            if ties {
                st.greedy_with_ties += 1;
            }
            if !greedy_consistent(&case.m, &steps) {
                out.push(Finding { kind: "greedy_not_collapsed_argmax_path", api: "decode_greedy", detail: format!("returned (label,pos) {:?}, which is not the collapse of any arg-max path", steps) });
            }
            let want: f64 = case.m.iter().map(|row| row.iter().copied().fold(f32::NEG_INFINITY, f32::max) as f64).sum();
            let got = h.score() as f64;
            if !(got.is_finite() && (got - want).abs() <= tol_for(t, want)) {
                out.push(Finding { kind: "greedy_score", api: "decode_greedy", detail: format!("score {} but the arg-max path has log-probability {}", got, want) });
            }
        }
    }

    // ---- beam
    let distinct_total = exact_map.as_ref().map(|m| m.len());
    let unpruned = distinct_total.map(|d| case.beam as usize >= d).unwrap_or(false);
    if unpruned {
        st.wide_beam_cases += 1;
    }
    let mut results: Vec<(&'static str, Vec<CtcHypothesis>)> = Vec::new();
    st.beam_calls += 2;
    match catch(|| CtcDecoder::new().decode_beam_nbest(tensor.view(), case.beam, case.n_best)) {
        Ok(h) => results.push(("decode_beam_nbest", h)),
        Err(msg) => {
            st.panics += 1;
            st.last_panic = Some(msg);
        }
    }
    match catch(|| CtcDecoder::new().decode_beam(tensor.view(), case.beam)) {
        Ok(h) => results.push(("decode_beam", vec![h])),
        Err(msg) => {
            st.panics += 1;
            st.last_panic = Some(msg);
        }
    }
    for (api, hyps) in &results {
        st.max_hyps_returned = st.max_hyps_returned.max(hyps.len() as u64);
        let mut seen: HashMap<Vec<u32>, usize> = HashMap::new();
        for (i, h) in hyps.iter().enumerate() {
            st.hyps += 1;
            let labels = labels_of(h);
            if let Some(j) = seen.insert(labels.clone(), i) {
                out.push(Finding {
                    kind: "beam_duplicate_sequence",
                    api: *api,
                    detail: format!("hypotheses {} and {} both have label sequence {:?} (scores {} and {})", j, i, labels, hyps[j].score(), h.score()),
                });
            }
            let exact = match &exact_map {
                Some(m) => {
                    st.hyps_exact_by_enumeration += 1;
                    let e = m.get(&labels).copied().unwrap_or(f64::NEG_INFINITY);
                    // Cross-check the two references against each other.
                    st.forward_vs_enumeration_checked += 1;
                    let f = forward(&case.m, &labels);
                    if !((e == f) || (e - f).abs() <= 1e-9 * (1.0 + e.abs())) {
                        st.forward_vs_enumeration_disagree += 1;
                    }
                    e
                }
                None => {
                    st.hyps_bound_by_forward += 1;
                    forward(&case.m, &labels)
                }
            };
            let score = h.score() as f64;
            let tol = tol_for(t, if exact.is_finite() { exact } else { 0.0 });
            if score.is_nan() || score == f64::INFINITY {
                out.push(Finding { kind: "beam_nonfinite_score", api: *api, detail: format!("hypothesis {} {:?} has score {}", i, labels, score) });
            } else if score == f64::NEG_INFINITY {
                if exact == f64::NEG_INFINITY {
                    // Zero-probability sequence (only possible with -inf inputs): -inf is its exact score.
                    st.zero_probability_hyps += 1;
                } else {
                    out.push(Finding {
                        kind: "beam_nonfinite_score",
                        api: *api,
                        detail: format!("hypothesis {} {:?} has score -inf; the exact log-probability of that label sequence is {:.6}", i, labels, exact),
                    });
                }
            } else if score > exact + tol {
                out.push(Finding { kind: "beam_score_above_exact", api: *api, detail: format!("hypothesis {} {:?} has score {:.6} > exact log-probability {:.6}", i, labels, score, exact) });
            } else if unpruned {
                st.hyps_unpruned_exactness_checked += 1;
                if (score - exact).abs() > tol {
                    out.push(Finding {
                        kind: "beam_score_inexact_unpruned",
                        api: *api,
                        detail: format!(
                            "beam {} >= {} distinct label sequences, so nothing is pruned, but hypothesis {} {:?} has score {:.6}, exact log-probability {:.6}",
                            case.beam,
                            distinct_total.unwrap(),
                            i,
                            labels,
                            score,
                            exact
                        ),
                    });
                }
            }
        }
    }
    // One finding per (kind, api).
    let mut seen = HashSet::new();
    out.retain(|f| seen.insert((f.kind, f.api)));
    out
}

// ------------------------------------------------------------------ shrinking

fn fails(case: &Case, kind: &str) -> Option<Finding> {
    let mut st = Stats::default();
    judge(case, &mut st).into_iter().find(|f| f.kind == kind)
}

fn drop_column(m: &[Vec<f32>], c: usize) -> Vec<Vec<f32>> {
    m.iter()
        .map(|row| {
            let logits: Vec<f64> = row.iter().enumerate().filter(|(i, _)| *i != c).map(|(_, x)| *x as f64).collect();
            if logits.iter().all(|x| *x == f64::NEG_INFINITY) { log_softmax_row(&vec![0.0; logits.len()]) } else { log_softmax_row(&logits) }
        })
        .collect()
}

fn shrink(case: &Case, f: &Finding) -> (Case, Finding) {
    let mut best = case.clone();
    let mut bf = f.clone();
    let mut budget = 400i32;
    let attempt = |cand: Case, best: &mut Case, bf: &mut Finding, budget: &mut i32| -> bool {
        if *budget <= 0 {
            return false;
        }
        *budget -= 1;
        if let Some(g) = fails(&cand, bf.kind) {
            *best = cand;
            *bf = g;
            true
        } else {
            false
        }
    };
    // Canonical family first: a flat matrix of the same shape.
    if best.family != "flat" {
        let cand = Case { m: flat_matrix(best.t(), best.l()), family: "flat".into(), ..best.clone() };
        attempt(cand, &mut best, &mut bf, &mut budget);
    }
    loop {
        let mut progress = false;
        // fewer time steps
        let mut i = 0;
        while i < best.t() && best.t() > 1 {
            let mut cand = best.clone();
            cand.m.remove(i);
            if attempt(cand, &mut best, &mut bf, &mut budget) {
                progress = true;
            } else {
                i += 1;
            }
        }
        // fewer labels
        let mut c = best.l();
        while c > 1 && best.l() > 1 {
            c -= 1;
            if c >= best.l() {
                continue;
            }
            let cand = if best.family == "flat" { Case { m: flat_matrix(best.t(), best.l() - 1), ..best.clone() } } else { Case { m: drop_column(&best.m, c), ..best.clone() } };
            if attempt(cand, &mut best, &mut bf, &mut budget) {
                progress = true;
            }
        }
        // narrower beam, fewer results
        for cand_beam in [1, 2, 3, 4, best.beam / 2, best.beam.saturating_sub(1)] {
            if cand_beam >= 1 && cand_beam < best.beam {
                let cand = Case { beam: cand_beam, n_best: best.n_best.min(cand_beam), ..best.clone() };
                if attempt(cand, &mut best, &mut bf, &mut budget) {
                    progress = true;
                    break;
                }
            }
        }
        for cand_n in [1, 2, best.n_best / 2, best.n_best.saturating_sub(1)] {
            if cand_n >= 1 && cand_n < best.n_best {
                let cand = Case { n_best: cand_n, ..best.clone() };
                if attempt(cand, &mut best, &mut bf, &mut budget) {
                    progress = true;
                    break;
                }
            }
        }
        if !progress || budget <= 0 {
            return (best, bf);
        }
    }
}

// ------------------------------------------------------------------ driver

fn merge(rep: &mut Report, st: &Stats) {
    rep.add("greedy_decodes", st.greedy);
    rep.add("greedy_decodes_with_tied_rows", st.greedy_with_ties);
    rep.add("beam_decodes", st.beam_calls);
    rep.add("hypotheses_checked", st.hyps);
    rep.add("hypotheses_exact_by_enumeration", st.hyps_exact_by_enumeration);
    rep.add("hypotheses_bounded_by_forward_algorithm", st.hyps_bound_by_forward);
    rep.add("hypotheses_exactness_checked_unpruned", st.hyps_unpruned_exactness_checked);
    rep.add("zero_probability_hypotheses_with_minus_inf_score", st.zero_probability_hyps);
    rep.add("forward_vs_enumeration_checked", st.forward_vs_enumeration_checked);
    rep.add("forward_vs_enumeration_disagree", st.forward_vs_enumeration_disagree);
    rep.add("no_result_panics", st.panics);
    rep.add("cases_beam_at_least_distinct_sequences", st.wide_beam_cases);
    rep.max("max_hypotheses_returned", st.max_hyps_returned);
}

fn run_batch(rep: &mut Report, cases: &[Case], best: &mut BTreeMap<String, (Case, Finding)>) {
    // Plain threads, not rayon: decode_greedy enters rten's own thread pool,
    // and a rayon worker waiting there would start further cases on its stack.
    let n_threads = std::thread::available_parallelism().map(|n| n.get()).unwrap_or(4).min(16);
    let per = cases.len().div_ceil(n_threads).max(1);
    let results: Vec<(Stats, Vec<Finding>)> = std::thread::scope(|scope| {
        let handles: Vec<_> = cases
            .chunks(per)
            .map(|chunk| {
                scope.spawn(move || {
                    chunk
                        .iter()
                        .map(|c| {
                            let mut st = Stats::default();
                            let f = judge(c, &mut st);
                            (st, f)
                        })
                        .collect::<Vec<_>>()
                })
            })
            .collect();
        handles.into_iter().flat_map(|h| h.join().expect("worker thread")).collect()
    });
    for (case, (st, findings)) in cases.iter().zip(results) {
        rep.eval();
        merge(rep, &st);
        rep.count(&format!("matrices_{}", case.family));
        rep.max("max_T", case.t() as u64);
        rep.max("max_L", case.l() as u64);
        rep.max("max_beam", case.beam as u64);
        if let Some(p) = &st.last_panic {
            if !rep.notes.contains_key("example_panic") {
                rep.note("example_panic", json!({"case": case.to_json(), "message": p}));
            }
        }
        if case.t() >= 2 && case.l() >= 2 {
            let bits: Vec<u32> = case.m.iter().flatten().map(|x| x.to_bits()).collect();
            rep.nontrivial(&(bits, case.t(), case.beam, case.n_best));
        }
        if rep.wants_sample() && findings.is_empty() && case.t() == 3 && case.l() == 3 && case.beam >= 3 {
            rep.sample(|| case.to_json());
        }
        for f in findings {
            rep.count(&format!("failing_cases_{}", f.kind));
            let key = format!("{}|{}", f.kind, f.api);
            let size = |c: &Case| (c.t() * c.l(), c.beam, c.n_best);
            let better = match best.get(&key) {
                None => true,
                Some((b, _)) => size(case) < size(b),
            };
            if better {
                best.insert(key, (case.clone(), f));
            }
        }
    }
}

fn report_all(rep: &mut Report, best: BTreeMap<String, (Case, Finding)>) {
    for (_k, (case, f)) in best {
        let (small, sf) = shrink(&case, &f);
        rep.violation(
            format!("C39|{}|{}|{}|beam={}|nbest={}", sf.kind, sf.api, small.matrix_sig(), small.beam, small.n_best),
            format!("{}({}, beam_size={}, n_best={}): {}", sf.api, small.matrix_sig(), small.beam, small.n_best, sf.detail),
            small.to_json(),
        );
    }
}

fn run(args: &Args) {
    let mut rep = Report::new(
        "C39",
        "ctccheck c39",
        args,
        "log-probability matrices (rows = f64 log-softmax of flat / peaked / random / tied logits, or with -inf entries whose remaining entries sum to 1) decoded with decode_greedy, decode_beam and decode_beam_nbest. Small matrices (T<=5, L<=3): every L^T alignment enumerated in f64 gives the exact log-probability of every label sequence and the number D of distinct label sequences; beams 1..=50 and around D, n-best 1..=beam. Larger matrices (T<=30, L<=8): CTC forward algorithm in f64 as the exact score of each returned label sequence. Checks: greedy = collapse of an arg-max path (ties free) with first-occurrence positions and the summed row maxima; beam hypotheses pairwise distinct, score finite (a -inf score is accepted only for a sequence of probability exactly 0) and <= exact + tol, = exact within tol when beam >= D; tol = 1e-4 + 4*T*eps_f32*|exact|. Non-trivial = T>=2 and L>=2; distinct by (matrix bits, beam, n_best)",
    );
    rep.max_samples = 4;
    let mut best: BTreeMap<String, (Case, Finding)> = BTreeMap::new();

    if let Some(path) = &args.replay {
        let w: Json = serde_json::from_str(&std::fs::read_to_string(path).expect("read replay")).expect("json");
        let w = if w.get("witness").is_some() { w["witness"].clone() } else { w };
        let case = Case::from_json(&w);
        run_batch(&mut rep, &[case], &mut best);
        report_all(&mut rep, best);
        rep.nontrivial(&0u8);
        rep.finish();
        return;
    }

    let mut rng = Rng::derive(args.seed, 0xC39 + 104729 * args.shard as u64);
    let mut cases: Vec<Case> = Vec::new();
    let mut counter = 0usize;

    // ---- small matrices with exact enumeration
    let per_shape = if args.thorough { 40 } else { 5 };
    for t in 1..=5usize {
        for l in 1..=3usize {
            for family in 0..6usize {
                for rep_i in 0..per_shape {
                    if family == 0 && rep_i > 0 {
                        continue; // one flat matrix per shape
                    }
                    counter += 1;
                    if counter % args.shards != args.shard {
                        continue;
                    }
                    let (m, fam) = gen_matrix(&mut rng, t, l, family);
                    let d = enumerate_exact(&m).len() as u32;
                    let mut beams: Vec<u32> = if args.thorough || family == 0 { (1..=50).collect() } else { vec![1, 2, 3, 4, 5, 7, 10, 20, 50] };
                    beams.extend_from_slice(&[d.saturating_sub(1).max(1), d, d + 1, d + 7]);
                    beams.sort();
                    beams.dedup();
                    for beam in beams {
                        let mut ns: Vec<u32> = vec![1, 2, beam / 2, beam];
                        if args.thorough && beam <= 12 {
                            ns = (1..=beam).collect();
                        }
                        ns.retain(|n| *n >= 1 && *n <= beam);
                        ns.sort();
                        ns.dedup();
                        for n_best in ns {
                            cases.push(Case { m: m.clone(), beam, n_best, family: fam.clone() });
                        }
                    }
                }
            }
        }
    }
    rep.add("small_matrix_cases", cases.len() as u64);
    for chunk in cases.chunks(50_000) {
        run_batch(&mut rep, chunk, &mut best);
    }

    // ---- larger matrices: forward-algorithm reference
    let n_large = args.budget(3_000, 300_000);
    let mut cases: Vec<Case> = Vec::new();
    for _ in 0..n_large {
        let t = if rng.chance(1, 4) { rng.urange(1, 6) } else { rng.urange(6, 30) };
        let l = rng.urange(1, 8);
        let family = rng.below(6);
        let (m, fam) = gen_matrix(&mut rng, t, l, family);
        let beam = match rng.below(10) {
            0 => rng.urange(51, 300) as u32,
            1 => 1,
            _ => rng.urange(1, 50) as u32,
        };
        let n_best = rng.urange(1, beam as usize) as u32;
        cases.push(Case { m, beam, n_best, family: fam });
    }
    rep.add("large_matrix_cases", cases.len() as u64);
    for chunk in cases.chunks(20_000) {
        run_batch(&mut rep, chunk, &mut best);
    }

    if rep.counters.get("forward_vs_enumeration_disagree").copied().unwrap_or(0) > 0 {
        rep.inconclusive = Some("the two reference implementations (enumeration and forward algorithm) disagree: harness error".into());
    }
    let panics = rep.counters.get("no_result_panics").copied().unwrap_or(0);
    if panics * 10 > rep.evaluations {
        rep.inconclusive = Some(format!("{} decoder calls panicked", panics));
    }
    report_all(&mut rep, best);
    rep.finish();
}
