//! textcheck: runtime monitors for rten-text (C27 C28 C29 C30).
//!
//!   textcheck c27   byte-level BPE round trip and token offsets
//!   textcheck c28   BPE merging vs the reference merge procedure
//!   textcheck c29   chunked encoding vs window reconstruction
//!   textcheck c30   normalizer offset maps (direct API and tokenizer.json)
use vcommon::*;

mod c27;
mod c28;
mod c29;
mod c30;
mod tgen;
mod tokcfg;

fn main() {
    run_main(real_main)
}

fn real_main() {
    let args = Args::parse();
    match args.cmd.as_str() {
        "c27" => c27::run(&args),
        "c28" => c28::run(&args),
        "c29" => c29::run(&args),
        "c30" => c30::run(&args),
        other => {
            eprintln!("unknown sub-command {:?}", other);
            std::process::exit(3);
        }
    }
}
