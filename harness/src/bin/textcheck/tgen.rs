//! Shared generators and small reference pieces for the text engines:
//! an independent GPT-2 byte<->char table, a small real BPE trainer, random
//! Unicode text, and string escaping for signatures.
use std::collections::{BTreeMap, HashMap};

use vcommon::*;

// ------------------------------------------------------------ byte table

/// True for the bytes GPT-2's `bytes_to_unicode` keeps as themselves:
/// `!`..=`~`, `¡`..=`¬`, `®`..=`ÿ`. Written from the GPT-2 encoder, not from
/// rten.
pub fn gpt2_printable(b: u8) -> bool {
    (33..=126).contains(&b) || (161..=172).contains(&b) || b >= 174
}

/// GPT-2 byte -> printable char table (independent re-implementation).
pub fn byte_chars() -> &'static [char; 256] {
    static TABLE: std::sync::OnceLock<[char; 256]> = std::sync::OnceLock::new();
    TABLE.get_or_init(byte_chars_uncached)
}

fn byte_chars_uncached() -> [char; 256] {
    let mut out = ['\0'; 256];
    let mut n = 0u32;
    for b in 0..=255u8 {
        if gpt2_printable(b) {
            out[b as usize] = char::from(b);
        } else {
            out[b as usize] = char::from_u32(256 + n).unwrap();
            n += 1;
        }
    }
    out
}

/// Token ids that `Bpe` assigns to single bytes when no vocabulary is given:
/// printable bytes first, in byte order, then the rest.
pub fn default_byte_ids() -> [u32; 256] {
    let mut out = [0u32; 256];
    let mut r = 0u32;
    for b in 0..=255u8 {
        if gpt2_printable(b) {
            out[b as usize] = r;
            r += 1;
        }
    }
    for b in 0..=255u8 {
        if !gpt2_printable(b) {
            out[b as usize] = r;
            r += 1;
        }
    }
    out
}

/// Encode bytes as the printable-character string used in BPE vocabularies.
pub fn enc_bytes(bytes: &[u8]) -> String {
    let t = byte_chars();
    bytes.iter().map(|b| t[*b as usize]).collect()
}

// ------------------------------------------------------------ BPE trainer

/// A small real BPE trainer (Sennrich et al.): words are byte sequences,
/// repeatedly merge the most frequent adjacent symbol pair (ties: the pair
/// that sorts first), all occurrences, until `n_merges` rules exist or no
/// pair occurs twice... (a pair occurring once is still merged so that small
/// corpora give non-empty tables). Symbols are strings in the GPT-2 printable
/// encoding; the returned table is therefore valid for `BpeOptions::merges`:
/// every operand is a single byte symbol or the product of an earlier rule.
pub fn train_bpe(words: &[Vec<u8>], n_merges: usize) -> Vec<(String, String)> {
    let table = byte_chars();
    let mut corpus: Vec<(Vec<String>, usize)> = {
        let mut counts: BTreeMap<&[u8], usize> = BTreeMap::new();
        for w in words {
            if !w.is_empty() {
                *counts.entry(w.as_slice()).or_insert(0) += 1;
            }
        }
        counts
            .into_iter()
            .map(|(w, c)| (w.iter().map(|b| table[*b as usize].to_string()).collect(), c))
            .collect()
    };
    let mut merges: Vec<(String, String)> = Vec::new();
    while merges.len() < n_merges {
        let mut freq: BTreeMap<(String, String), usize> = BTreeMap::new();
        for (syms, c) in &corpus {
            for w in syms.windows(2) {
                *freq.entry((w[0].clone(), w[1].clone())).or_insert(0) += *c;
            }
        }
        // Most frequent; BTreeMap iteration order makes ties deterministic.
        let mut best: Option<((String, String), usize)> = None;
        for (p, c) in freq {
            if best.as_ref().map(|b| c > b.1).unwrap_or(true) {
                best = Some((p, c));
            }
        }
        let Some(((a, b), _)) = best else { break };
        if merges.iter().any(|(x, y)| *x == a && *y == b) {
            break; // cannot happen: all occurrences were merged
        }
        let merged = format!("{}{}", a, b);
        for (syms, _) in corpus.iter_mut() {
            let mut i = 0;
            let mut out: Vec<String> = Vec::with_capacity(syms.len());
            while i < syms.len() {
                if i + 1 < syms.len() && syms[i] == a && syms[i + 1] == b {
                    out.push(merged.clone());
                    i += 2;
                } else {
                    out.push(syms[i].clone());
                    i += 1;
                }
            }
            *syms = out;
        }
        merges.push((a, b));
    }
    merges
}

/// Every operand longer than one symbol is the product of an earlier rule
/// ("a trainer could have produced this order").
pub fn properly_ordered(rules: &[(String, String)]) -> bool {
    let mut made: Vec<String> = Vec::new();
    for (a, b) in rules {
        for op in [a, b] {
            if op.chars().count() > 1 && !made.iter().any(|m| m == op) {
                return false;
            }
        }
        made.push(format!("{}{}", a, b));
    }
    true
}

// ------------------------------------------------------------ reference BPE

/// The reference procedure of C28 on symbol strings: repeat { among adjacent
/// pairs present in the table take the lowest rank, leftmost first; merge
/// that one occurrence } until none applies. Returns (pieces, merges applied).
pub fn ref_bpe(input_syms: &[String], rules: &[(String, String)]) -> (Vec<String>, usize) {
    let rank: HashMap<(&str, &str), usize> = rules.iter().enumerate().map(|(i, (a, b))| ((a.as_str(), b.as_str()), i)).collect();
    let mut p: Vec<String> = input_syms.to_vec();
    let mut applied = 0;
    loop {
        let mut best: Option<(usize, usize)> = None; // (rank, index)
        for i in 0..p.len().saturating_sub(1) {
            if let Some(&r) = rank.get(&(p[i].as_str(), p[i + 1].as_str())) {
                if best.map(|b| r < b.0).unwrap_or(true) {
                    best = Some((r, i));
                }
            }
        }
        let Some((_, i)) = best else { break };
        let m = format!("{}{}", p[i], p[i + 1]);
        p[i] = m;
        p.remove(i + 1);
        applied += 1;
    }
    (p, applied)
}

/// The GPT-2 `encoder.py` procedure: take the lowest-ranked pair present, merge
/// *all* its occurrences left to right in one sweep, repeat. Only used to
/// classify a disagreement, never to decide one.
pub fn sweep_bpe(input_syms: &[String], rules: &[(String, String)]) -> Vec<String> {
    let rank: HashMap<(&str, &str), usize> = rules.iter().enumerate().map(|(i, (a, b))| ((a.as_str(), b.as_str()), i)).collect();
    let mut p: Vec<String> = input_syms.to_vec();
    loop {
        let mut best: Option<(usize, usize)> = None;
        for i in 0..p.len().saturating_sub(1) {
            if let Some(&r) = rank.get(&(p[i].as_str(), p[i + 1].as_str())) {
                if best.map(|b| r < b.0).unwrap_or(true) {
                    best = Some((r, i));
                }
            }
        }
        let Some((_, bi)) = best else { break };
        let (a, b) = (p[bi].clone(), p[bi + 1].clone());
        let mut out: Vec<String> = Vec::with_capacity(p.len());
        let mut i = 0;
        while i < p.len() {
            if i + 1 < p.len() && p[i] == a && p[i + 1] == b {
                out.push(format!("{}{}", a, b));
                i += 2;
            } else {
                out.push(p[i].clone());
                i += 1;
            }
        }
        p = out;
    }
    p
}

// ------------------------------------------------------------ random text

pub const SPECIAL_TEXTS: &[&str] = &["<|endoftext|>", "<s>", "</s>", "[CLS]", "[SEP]", "<pad>", "<|im_start|>"];

fn from_range(rng: &mut Rng, lo: u32, hi: u32) -> char {
    loop {
        let c = rng.range(lo as i64, hi as i64) as u32;
        if let Some(ch) = char::from_u32(c) {
            return ch;
        }
    }
}

const DECOMPOSABLE: &[char] = &[
    'é', 'ñ', 'Å', 'ü', 'Ç', 'ö', 'Ô', 'ǖ', 'ẛ', 'ṩ', 'Ω', 'ΐ', 'й', 'ё', 'が', 'パ', '\u{1E9B}', '\u{0344}', '\u{0F73}', '\u{212B}', '\u{2126}', '\u{1F71}',
];
const COMPAT: &[char] = &[
    'ﬁ', 'ﬀ', 'ﬃ', 'ﬆ', '½', '¼', '²', '³', '㎏', 'Ⅷ', 'ⅷ', '№', '™', '㍿', '①', '⑳', 'Ａ', 'ｚ', '５', 'ｶ', 'ﾞ', '\u{FDFA}', '\u{FDFB}', '\u{3300}', '\u{00A0}', '\u{2002}',
    '\u{2126}', 'ª', 'º', 'ĳ', 'ŉ', 'ǆ', '…', '‼', '\u{2474}', '\u{1D400}', '\u{1D7D8}', '\u{1F100}', '\u{1F225}',
];
const CASE_ODD: &[char] = &['İ', 'ẞ', 'Σ', 'ς', 'Ǆ', 'ǅ', 'ǈ', 'Ω', 'K', 'Å', 'Ⓐ', 'Ⅳ', 'Ꙁ', '𐐀', '𐒰', 'Ა', 'Ꭰ', 'Ɐ', 'Ⱥ', 'Ⱦ'];
const COMBINING: &[char] = &[
    '\u{0300}', '\u{0301}', '\u{0302}', '\u{0303}', '\u{0307}', '\u{0308}', '\u{030A}', '\u{0323}', '\u{0327}', '\u{0328}', '\u{0345}', '\u{0483}', '\u{05B0}', '\u{064B}', '\u{0651}', '\u{093C}',
    '\u{3099}', '\u{309A}', '\u{20D0}', '\u{20DD}', '\u{FE0F}', '\u{200D}', '\u{1F3FB}', '\u{0E31}', '\u{1AB0}', '\u{0903}', '\u{094D}',
];
const CONTROLS: &[char] = &[
    '\0', '\u{1}', '\t', '\n', '\r', '\u{b}', '\u{c}', '\u{1b}', '\u{7f}', '\u{80}', '\u{85}', '\u{9f}', '\u{ad}', '\u{200b}', '\u{200e}', '\u{200f}', '\u{202a}', '\u{202e}', '\u{2028}', '\u{2029}', '\u{feff}',
    '\u{fffd}', '\u{fffe}', '\u{e000}', '\u{f8ff}', '\u{d7ff}', '\u{e0001}', '\u{10ffff}', '\u{fdd0}',
];
const SPACES: &[&str] = &[" ", " ", " ", "  ", "   ", "\n", "\n\n", " \n", "\t", "\r\n", "\u{a0}", "\u{3000}", "\u{2003}", " \t "];

/// One random character of a random class.
pub fn rand_char(rng: &mut Rng) -> char {
    match rng.below(16) {
        0 | 1 => from_range(rng, 0x61, 0x7a),
        2 => from_range(rng, 0x41, 0x5a),
        3 => from_range(rng, 0x30, 0x39),
        4 => *rng.choose(&['.', ',', '!', '?', '\'', '"', '-', '_', '(', ')', '#', '$', '%', '<', '>', '|', '[', ']', '/', '\\', '*', '+', '=', '~', '`', '@', '^', '&', '{', '}', ':', ';']),
        5 => *rng.choose(CONTROLS),
        6 => *rng.choose(COMBINING),
        7 => match rng.below(5) {
            0 => from_range(rng, 0x1F600, 0x1F64F),
            1 => from_range(rng, 0x1D400, 0x1D7FF),
            2 => from_range(rng, 0x10000, 0x1007F),
            3 => from_range(rng, 0x20000, 0x2A6DF),
            _ => from_range(rng, 0x1F1E6, 0x1F1FF),
        },
        8 => match rng.below(4) {
            0 => from_range(rng, 0x4E00, 0x9FFF),
            1 => from_range(rng, 0x3041, 0x3096),
            2 => from_range(rng, 0x30A1, 0x30FA),
            _ => from_range(rng, 0x3400, 0x4DBF),
        },
        9 => match rng.below(3) {
            0 => from_range(rng, 0xAC00, 0xD7A3),
            1 => from_range(rng, 0x1100, 0x11FF),
            _ => from_range(rng, 0x3131, 0x318E),
        },
        10 => match rng.below(3) {
            0 => from_range(rng, 0x05D0, 0x05EA),
            1 => from_range(rng, 0x0627, 0x064A),
            _ => from_range(rng, 0x0710, 0x072F),
        },
        11 => *rng.choose(DECOMPOSABLE),
        12 => *rng.choose(COMPAT),
        13 => *rng.choose(CASE_ODD),
        14 => match rng.below(4) {
            0 => from_range(rng, 0xA0, 0xFF),
            1 => from_range(rng, 0x100, 0x24F),
            2 => from_range(rng, 0x370, 0x3FF),
            _ => from_range(rng, 0x400, 0x4FF),
        },
        _ => from_range(rng, 0x20, 0x7e),
    }
}

fn ascii_word(rng: &mut Rng) -> String {
    const WORDS: &[&str] = &[
        "the", "cat", "is", "in", "bed", "hello", "world", "token", "don't", "it's", "we'll", "I'm", "they've", "he'd", "you're", "Rust", "GPT", "a", "an", "of", "and", "that", "The", "123", "2024", "3.14", "x86_64",
        "foo_bar", "naïve", "café", "über", "日本語", "한국어", "שלום", "مرحبا", "Ελληνικά", "привет", "😀😀", "a\u{0301}", "e\u{0308}\u{0301}",
    ];
    if rng.chance(2, 3) {
        rng.choose(WORDS).to_string()
    } else {
        (0..rng.urange(1, 8)).map(|_| from_range(rng, 0x61, 0x7a)).collect()
    }
}

/// A random text. `max_chars` bounds the length of the ordinary shapes; the
/// "long run" shape uses up to `max_run` bytes.
pub fn rand_text(rng: &mut Rng, max_chars: usize, max_run: usize) -> (String, &'static str) {
    match rng.below(20) {
        0 => (String::new(), "empty"),
        1 => (rng.choose(SPECIAL_TEXTS).to_string(), "special_token_text"),
        2 => {
            // special token text embedded in other text
            let mut s = String::new();
            for _ in 0..rng.urange(1, 4) {
                if rng.bool() {
                    s.push_str(&ascii_word(rng));
                    s.push_str(*rng.choose(SPACES));
                }
                s.push_str(*rng.choose(SPECIAL_TEXTS));
                if rng.bool() {
                    s.push_str(*rng.choose(SPACES));
                }
            }
            (s, "special_embedded")
        }
        3 => {
            // long run of one byte / one char
            let ch = match rng.below(6) {
                0 => 'a',
                1 => ' ',
                2 => '\n',
                3 => '0',
                4 => rand_char(rng),
                _ => *rng.choose(&['é', '\u{0301}', '😀', '中', 'א']),
            };
            let n = if rng.chance(1, 4) { rng.urange(1, max_run.max(1)) } else { rng.urange(1, 300) };
            let n = (n / ch.len_utf8()).max(1);
            (std::iter::repeat_n(ch, n).collect(), "long_run")
        }
        4..=8 => {
            // words and spaces
            let n = rng.urange(1, (max_chars / 4).max(1));
            let mut s = String::new();
            if rng.chance(1, 4) {
                s.push_str(*rng.choose(SPACES));
            }
            for i in 0..n {
                if i > 0 {
                    s.push_str(*rng.choose(SPACES));
                }
                s.push_str(&ascii_word(rng));
                if rng.chance(1, 6) {
                    s.push(*rng.choose(&['.', ',', '!', '?', ';']));
                }
            }
            if rng.chance(1, 4) {
                s.push_str(*rng.choose(SPACES));
            }
            (s, "words")
        }
        9..=11 => {
            // base + combining sequences
            let n = rng.urange(1, (max_chars / 3).max(1));
            let mut s = String::new();
            for _ in 0..n {
                s.push(rand_char(rng));
                for _ in 0..rng.below(4) {
                    s.push(*rng.choose(COMBINING));
                }
            }
            (s, "combining")
        }
        _ => {
            let n = rng.urange(1, max_chars.max(1));
            let mut s = String::new();
            for _ in 0..n {
                if rng.chance(1, 7) {
                    s.push_str(*rng.choose(SPACES));
                } else {
                    s.push(rand_char(rng));
                }
            }
            (s, "mixed")
        }
    }
}

// ------------------------------------------------------------ escaping

/// ASCII-only rendering of a string for signatures (`\u{..}` escapes).
pub fn esc(s: &str) -> String {
    let mut out = String::new();
    for c in s.chars() {
        if (c.is_ascii_graphic() || c == ' ') && c != '\\' && c != '"' && c != '|' {
            out.push(c);
        } else {
            out.push_str(&format!("\\u{{{:x}}}", c as u32));
        }
    }
    out
}

/// Delta-debugging style shrink of a string by characters: repeatedly try to
/// remove blocks of characters while `fails` stays true. `budget` bounds the
/// number of calls to `fails`.
pub fn shrink_text(text: &str, budget: &mut usize, fails: &mut dyn FnMut(&str) -> bool) -> String {
    let mut cur: Vec<char> = text.chars().collect();
    let mut block = cur.len().div_ceil(2).max(1);
    loop {
        let mut i = 0;
        let mut progressed = false;
        while i < cur.len() && *budget > 0 {
            let end = (i + block).min(cur.len());
            let cand: String = cur[..i].iter().chain(cur[end..].iter()).collect();
            *budget -= 1;
            if fails(&cand) {
                cur.drain(i..end);
                progressed = true;
            } else {
                i += block;
            }
        }
        if *budget == 0 {
            break;
        }
        if block == 1 {
            if !progressed {
                break;
            }
        } else {
            block = block.div_ceil(2);
        }
    }
    // Canonical substitution: replace each remaining character by the first
    // simpler stand-in that keeps the failure.
    const STANDINS: &[char] = &['a', 'b', ' ', '\n', '0', 'A', 'é', '\u{0301}', '中', '😀'];
    for i in 0..cur.len() {
        for &st in STANDINS {
            if *budget == 0 {
                break;
            }
            if cur[i] == st {
                break;
            }
            let mut cand = cur.clone();
            cand[i] = st;
            let s: String = cand.iter().collect();
            *budget -= 1;
            if fails(&s) {
                cur = cand;
                break;
            }
        }
    }
    cur.into_iter().collect()
}

pub fn jstr(v: &Json, key: &str) -> String {
    v[key].as_str().unwrap_or_default().to_string()
}

pub fn load_witness(path: &str) -> Json {
    let w: Json = serde_json::from_str(&std::fs::read_to_string(path).expect("read replay file")).expect("parse replay file");
    if w.get("witness").is_some() { w["witness"].clone() } else { w }
}
