//! C30: offset maps of the text normalizers (public `Normalizer::normalize`)
//! and, for configurations loaded with `Tokenizer::from_json`, the token
//! offsets that `Tokenizer::encode` derives from them.
use vcommon::*;

use crate::tgen::*;
use crate::tokcfg::*;

// ------------------------------------------------------------ generators

fn rand_replace(rng: &mut Rng) -> Json {
    const REGEX: &[&str] = &[
        r"\s+", r" ", r"a", r"[aeiou]", r"\p{L}", r"\d+", r"x*", r"$", r"^", r"(?<=a)b", r".", r"\p{M}", r"é", "e\u{0301}", r"(?i)ss", r"", r"\b", r"[^\x00-\x7f]", r"\p{Han}+", r"(.)\1", r"\n", r"[A-Z]+", r"\p{Lu}",
        r"\p{Hangul}", r"(?=é)", r"\S+",
    ];
    const LIT: &[&str] = &[" ", ".", "a", "``", "é", "\n", "İ", "ﬁ", "e\u{0301}", "the", "  ", "\u{0301}", "한", "😀", "$", "(", "\\"];
    const CONTENT: &[&str] = &["", "", "x", " ", "\u{2581}", "é", "😀", "ab", "<unk>", "e\u{0301}", "\u{0301}", "İ", "ＡＢ"];
    let regex = rng.bool();
    let pattern = if regex { *rng.choose(REGEX) } else { *rng.choose(LIT) };
    json!({"t": "replace", "regex": regex, "pattern": pattern, "content": *rng.choose(CONTENT)})
}

fn rand_prim(rng: &mut Rng) -> Json {
    match rng.below(10) {
        0 | 1 | 2 => json!({"t": "bert", "lowercase": rng.bool(), "strip_accents": rng.bool()}),
        3 => json!({"t": "nfc"}),
        4 => json!({"t": "nfd"}),
        5 => json!({"t": "nfkc"}),
        6 => json!({"t": "nfkd"}),
        _ => rand_replace(rng),
    }
}

fn rand_norm(rng: &mut Rng, allow_lowercase_type: bool) -> Json {
    if rng.chance(2, 5) {
        return rand_prim(rng);
    }
    let n = if rng.chance(1, 12) { 0 } else { rng.urange(1, 4) };
    let items: Vec<Json> = (0..n)
        .map(|_| {
            if rng.chance(1, 10) {
                json!({"t": "seq", "items": (0..rng.urange(0, 2)).map(|_| rand_prim(rng)).collect::<Vec<_>>()})
            } else if allow_lowercase_type && rng.chance(1, 10) {
                json!({"t": "lowercase"})
            } else {
                rand_prim(rng)
            }
        })
        .collect();
    json!({"t": "seq", "items": items})
}

fn canonical_norms() -> Vec<Json> {
    vec![
        json!({"t": "bert", "lowercase": false, "strip_accents": false}),
        json!({"t": "bert", "lowercase": true, "strip_accents": false}),
        json!({"t": "bert", "lowercase": false, "strip_accents": true}),
        json!({"t": "bert", "lowercase": true, "strip_accents": true}),
        json!({"t": "nfc"}),
        json!({"t": "nfd"}),
        json!({"t": "nfkc"}),
        json!({"t": "nfkd"}),
        json!({"t": "replace", "regex": false, "pattern": "x", "content": ""}),
        json!({"t": "replace", "regex": false, "pattern": "x", "content": "yy"}),
        json!({"t": "seq", "items": []}),
    ]
}

/// Simpler normalizer configs derived from `cfg` (items alone, items dropped).
fn sub_norms(cfg: &Json) -> Vec<Json> {
    let mut out = Vec::new();
    if cfg["t"] == "seq" {
        let items = cfg["items"].as_array().cloned().unwrap_or_default();
        for it in &items {
            out.push(it.clone());
            out.extend(sub_norms(it));
        }
        for i in 0..items.len() {
            let mut rest = items.clone();
            rest.remove(i);
            out.push(json!({"t": "seq", "items": rest}));
        }
    }
    out
}

// ------------------------------------------------------------ the oracle

#[derive(Debug, Default)]
struct Outcome {
    normalized: String,
    n_offsets: usize,
    failure: Option<(String, String)>,
    /// Set when the failure is exactly explained by one of the two known
    /// mechanisms (used only to fold it into the pinned witness's signature).
    class: Option<&'static str>,
}

/// Known mechanism 1: text that a normalizer copies unchanged gets the
/// identity byte map, so the continuation bytes of a multi-byte character map
/// to the continuation bytes of the source character.
const CLASS_IDENTITY: &str = "identity_map_for_continuation_bytes";
/// Known mechanism 2: `Tokenizer::encode_str` computes
/// `base_offset + map[offset_in_chunk]` instead of `map[base_offset + offset_in_chunk]`.
const CLASS_BASE: &str = "chunk_base_offset_added_unmapped";

fn identity_explains(input: &str, normalized: &str, offsets: &[usize]) -> bool {
    let mut start = 0usize;
    for i in 0..offsets.len() {
        if normalized.is_char_boundary(i) {
            start = i;
        }
        if !input.is_char_boundary(offsets[i]) {
            if !(input.is_char_boundary(offsets[start]) && offsets[i] == offsets[start] + (i - start)) {
                return false;
            }
        }
    }
    true
}

/// The statement's checks on one (normalized, offsets) result.
fn check_map(input: &str, normalized: &str, offsets: &[usize]) -> Option<(String, String)> {
    if offsets.len() != normalized.len() {
        return Some(("len_mismatch".into(), format!("offsets.len()={} but normalized.len()={}", offsets.len(), normalized.len())));
    }
    for (i, &o) in offsets.iter().enumerate() {
        if o > input.len() {
            return Some(("offset_gt_len".into(), format!("offsets[{}]={} > input.len()={}", i, o, input.len())));
        }
    }
    for i in 1..offsets.len() {
        if offsets[i] < offsets[i - 1] {
            return Some(("decreasing".into(), format!("offsets[{}]={} < offsets[{}]={}", i, offsets[i], i - 1, offsets[i - 1])));
        }
    }
    // Positions that start a character of the normalized text first ...
    for (i, &o) in offsets.iter().enumerate() {
        if normalized.is_char_boundary(i) && !input.is_char_boundary(o) {
            return Some(("not_char_boundary".into(), format!("offsets[{}]={} (start of a normalized character) is not a character boundary of the input", i, o)));
        }
    }
    // ... then the continuation bytes ("every normalized byte position").
    for (i, &o) in offsets.iter().enumerate() {
        if !input.is_char_boundary(o) {
            return Some((
                "continuation_byte_not_char_boundary".into(),
                format!("offsets[{}]={} (continuation byte of a normalized character) is not a character boundary of the input", i, o),
            ));
        }
    }
    None
}

fn run_normalize(cfg: &Json, input: &str) -> Result<Outcome, String> {
    let n = build_norm(cfg)?.ok_or("null normalizer")?;
    let (normalized, offsets) = catch(|| n.normalize(input)).map_err(|p| format!("panic: {}", p))?.map_err(|e| format!("normalize error: {}", e))?;
    let failure = check_map(input, &normalized, &offsets);
    let class = match &failure {
        Some((k, _)) if k == "continuation_byte_not_char_boundary" && identity_explains(input, &normalized, &offsets) => Some(CLASS_IDENTITY),
        _ => None,
    };
    Ok(Outcome { failure, n_offsets: offsets.len(), normalized, class })
}

/// Re-compose the token offsets from the public pieces (normalizer map,
/// pre-tokenizer chunks, model offsets) in the correct way and in the way the
/// known defect does. Classification only.
fn composed_offsets(t: &rten_text::Tokenizer, cfg: &Json, input: &str) -> Option<(Vec<usize>, Vec<usize>)> {
    let norm = build_norm(&cfg["norm"]).ok()??;
    let (normalized, map) = catch(|| norm.normalize(input)).ok()?.ok()?;
    let pre_cfg = match cfg["pre"]["t"].as_str() {
        Some("bytelevel") if cfg["pre"]["use_regex"] == true => json!({"t": "gpt2"}),
        Some("bytelevel") => return None,
        _ => cfg["pre"].clone(),
    };
    let pre = build_pre(&pre_cfg).ok()?;
    let chunks: Vec<&str> = match &pre {
        Some(p) => catch(|| p.pre_tokenize(&normalized)).ok()?.ok()?,
        None => vec![normalized.as_str()],
    };
    let (mut correct, mut buggy) = (Vec::new(), Vec::new());
    let mut ok = true;
    for ch in chunks {
        let base = ch.as_ptr() as usize - normalized.as_ptr() as usize;
        let r = catch(|| {
            t.model().encode_with_offsets(ch, &mut |off, _id| {
                match (map.get(base + off), map.get(off)) {
                    (Some(c), Some(b)) => {
                        correct.push(*c);
                        buggy.push(base + *b);
                    }
                    _ => ok = false,
                }
            })
        });
        if !matches!(r, Ok(Ok(()))) {
            return None;
        }
    }
    if ok { Some((correct, buggy)) } else { None }
}

// ---- tokenizer route

fn wp_words() -> Vec<String> {
    let mut v: Vec<String> = vec!["[CLS]".into(), "[SEP]".into(), "[UNK]".into()];
    for w in ["the", "cat", "cafe", "café", "cafe\u{0301}", "naive", "naïve", "uber", "über", "i", "i\u{0307}", "a", "e", "x", "fi", "ss", "ß", "hello", "rust", "gpt", "1", "2", "한국어", "日本語", ".", ",", "!", "?"] {
        v.push(w.to_string());
    }
    v
}

fn tok_cfg(model: &str, norm: &Json, pre: &Json, merges: &[(String, String)]) -> Json {
    if model == "wordpiece" {
        json!({"model": "wordpiece", "vocab": wp_words(), "pre": pre, "norm": norm, "route": "json", "cls": "[CLS]", "sep": "[SEP]"})
    } else {
        json!({
            "model": "bpe", "merges": merges.iter().map(|(a, b)| json!([a, b])).collect::<Vec<_>>(),
            "vocab": {"kind": "default_ids"}, "extra_vocab": [], "added": [], "added_in_vocab": false,
            "ignore_merges": false, "eow_empty": false, "pre": pre, "norm": norm, "route": "json", "cls": null, "sep": null,
        })
    }
}

/// Weak invariants on the token offsets a tokenizer reports for `input`.
fn run_tokenizer(cfg: &Json, input: &str) -> Result<Outcome, String> {
    let t = catch(|| build_tokenizer(cfg)).map_err(|p| format!("panic: {}", p))??;
    let offsets: Vec<usize> = catch(|| t.encode(input, None).map(|e| e.token_offsets().to_vec())).map_err(|p| format!("panic: {}", p))?.map_err(|e| format!("encode error: {:?}", e))?;
    let mut failure = None;
    for (i, &o) in offsets.iter().enumerate() {
        if o > input.len() {
            failure = Some(("tok_offset_gt_len".to_string(), format!("token_offsets[{}]={} > input.len()={} (offsets {:?})", i, o, input.len(), offsets)));
            break;
        }
        if !input.is_char_boundary(o) {
            failure = Some(("tok_offset_not_char_boundary".to_string(), format!("token_offsets[{}]={} is not a character boundary of the input (offsets {:?})", i, o, offsets)));
            break;
        }
        if i > 0 && o < offsets[i - 1] {
            failure = Some(("tok_offset_decreasing".to_string(), format!("token_offsets[{}]={} < token_offsets[{}]={} (offsets {:?})", i, o, i - 1, offsets[i - 1], offsets)));
            break;
        }
    }
    let mut class = None;
    if failure.is_some() {
        if let Some((correct, buggy)) = composed_offsets(&t, cfg, input) {
            // Observed offsets: [CLS] content.. [SEP] for WordPiece, content.. + trailing end offset for BPE.
            let content: Option<&[usize]> = if cfg["model"] == "wordpiece" {
                if offsets.len() >= 2 { Some(&offsets[1..offsets.len() - 1]) } else { None }
            } else if !offsets.is_empty() {
                Some(&offsets[..offsets.len() - 1])
            } else {
                None
            };
            if content == Some(&buggy[..]) && buggy != correct {
                class = Some(CLASS_BASE);
            }
        }
    }
    Ok(Outcome { normalized: String::new(), n_offsets: offsets.len(), failure, class })
}

// ------------------------------------------------------------ cases

#[derive(Clone, Debug)]
struct Case {
    /// "normalize" (cfg = NORM) or "tokenizer" (cfg = tokenizer config).
    api: String,
    cfg: Json,
    input: String,
}

impl Case {
    fn run(&self) -> Result<Outcome, String> {
        if self.api == "normalize" { run_normalize(&self.cfg, &self.input) } else { run_tokenizer(&self.cfg, &self.input) }
    }
    fn fails_with(&self, kind: &str) -> bool {
        matches!(self.run(), Ok(o) if o.failure.as_ref().map(|f| f.0 == kind).unwrap_or(false))
    }
    fn to_json(&self) -> Json {
        json!({"api": self.api, "cfg": self.cfg, "input": self.input})
    }
    fn signature(&self, kind: &str) -> String {
        if self.api == "normalize" {
            format!("C30|api=normalize|norm={}|input={}|fail={}", norm_desc(&self.cfg), esc(&self.input), kind)
        } else {
            format!(
                "C30|api=from_json+encode|model={}|pre={}|norm={}|input={}|fail={}",
                self.cfg["model"].as_str().unwrap_or("?"),
                pre_desc(&self.cfg["pre"]),
                norm_desc(&self.cfg["norm"]),
                esc(&self.input),
                kind
            )
        }
    }
}

fn canonical_case(class: &str) -> Case {
    if class == CLASS_IDENTITY {
        Case { api: "normalize".into(), cfg: json!({"t": "bert", "lowercase": false, "strip_accents": false}), input: "é".into() }
    } else {
        Case { api: "tokenizer".into(), cfg: tok_cfg("wordpiece", &json!({"t": "nfd"}), &json!({"t": "bert"}), &[]), input: "é é".into() }
    }
}

#[derive(Default)]
struct Ctx {
    fired: Vec<&'static str>,
    folded_examples: Vec<Json>,
}

fn candidate_cfgs(case: &Case) -> Vec<Json> {
    if case.api == "normalize" {
        let mut v = canonical_norms();
        v.extend(sub_norms(&case.cfg));
        v
    } else {
        let mut norms = canonical_norms();
        norms.extend(sub_norms(&case.cfg["norm"]));
        norms.push(case.cfg["norm"].clone());
        let mut v = Vec::new();
        for (model, pre) in [("wordpiece", json!({"t": "bert"})), ("bpe", json!({"t": "gpt2"}))] {
            for n in &norms {
                v.push(tok_cfg(model, n, &pre, &[]));
            }
        }
        v
    }
}

fn shrink(case: &Case, kind: &str) -> Case {
    let mut cur = case.clone();
    let mut budget = 1500usize;
    for round in 0..2 {
        for cand in candidate_cfgs(&cur) {
            if budget == 0 {
                break;
            }
            budget -= 1;
            let c = Case { api: cur.api.clone(), cfg: cand, input: cur.input.clone() };
            if c.fails_with(kind) {
                cur = c;
                break;
            }
        }
        if round == 0 {
            let api = cur.api.clone();
            let cfg = cur.cfg.clone();
            let shrunk = shrink_text(&cur.input, &mut budget, &mut |t: &str| Case { api: api.clone(), cfg: cfg.clone(), input: t.to_string() }.fails_with(kind));
            cur.input = shrunk;
        }
    }
    cur
}

fn run_case(rep: &mut Report, ctx: &mut Ctx, case: &Case) {
    rep.eval();
    match case.run() {
        Ok(o) => {
            rep.add("offset_entries_checked", o.n_offsets as u64);
            if case.api == "normalize" {
                if o.normalized != case.input {
                    rep.nontrivial(&(norm_desc(&case.cfg), case.input.as_str()));
                    rep.count("normalized_differs_from_input");
                    if o.normalized.len() > case.input.len() {
                        rep.count("normalized_longer");
                    } else if o.normalized.len() < case.input.len() {
                        rep.count("normalized_shorter");
                    }
                }
                rep.add("normalized_bytes", o.normalized.len() as u64);
            } else {
                rep.count("tokenizer_route_cases");
                // Same rule: the configured normalizer changes this text.
                if let Ok(no) = run_normalize(&case.cfg["norm"], &case.input) {
                    if no.normalized != case.input {
                        rep.count("tokenizer_route_normalized_differs");
                        rep.nontrivial(&("tok", case.cfg["model"].as_str(), pre_desc(&case.cfg["pre"]), norm_desc(&case.cfg["norm"]), case.input.as_str()));
                    }
                }
            }
            if let (Some((kind, detail)), Some(class)) = (&o.failure, o.class) {
                let canon = canonical_case(class);
                let is_canon = canon.api == case.api && canon.cfg == case.cfg && canon.input == case.input;
                if is_canon {
                    rep.count(&format!("failures_raw:{}", kind));
                    if !ctx.fired.contains(&class) {
                        ctx.fired.push(class);
                    }
                    let sig = format!("{}|class={}", case.signature(kind), class);
                    let what = if case.api == "normalize" {
                        format!("{}.normalize({:?})", norm_desc(&case.cfg), case.input)
                    } else {
                        format!("Tokenizer::from_json(wordpiece model, pre-tokenizer Bert, normalizer {}).encode({:?})", norm_desc(&case.cfg["norm"]), case.input)
                    };
                    rep.violation(sig, format!("{}: {} [mechanism: {}]", what, detail, class), case.to_json());
                    return;
                }
                if ctx.fired.contains(&class) {
                    rep.count(&format!("failures_raw:{}", kind));
                    rep.count(&format!("folded_into_pinned_signature:{}", class));
                    if ctx.folded_examples.len() < 10 && case.input.len() < 40 {
                        let d = if case.api == "normalize" { norm_desc(&case.cfg) } else { format!("{}+{}+{}", jstr(&case.cfg, "model"), pre_desc(&case.cfg["pre"]), norm_desc(&case.cfg["norm"])) };
                        ctx.folded_examples.push(json!({"class": class, "config": d, "input": case.input, "kind": kind, "detail": detail}));
                    }
                    return;
                }
            }
            if let Some((kind, detail)) = &o.failure {
                rep.count(&format!("failures_raw:{}", kind));
                // Bounded work: one violation per signature is kept anyway.
                let done = *rep.counters.get("failures_shrunk").unwrap_or(&0);
                if done >= 60 || rep.n_violations() >= rep.max_violations {
                    rep.count(&format!("failures_not_shrunk:{}", kind));
                    return;
                }
                rep.count("failures_shrunk");
                let s = shrink(case, kind);
                let sdetail = s.run().ok().and_then(|o| o.failure).map(|f| f.1).unwrap_or(detail.clone());
                let summary = if s.api == "normalize" {
                    format!("{}.normalize({:?}): {}", norm_desc(&s.cfg), s.input, sdetail)
                } else {
                    format!(
                        "Tokenizer::from_json({} model, pre-tokenizer {}, normalizer {}).encode({:?}): {}",
                        s.cfg["model"].as_str().unwrap_or("?"),
                        pre_desc(&s.cfg["pre"]),
                        norm_desc(&s.cfg["norm"]),
                        s.input,
                        sdetail
                    )
                };
                rep.violation(s.signature(kind), summary, s.to_json());
            } else if case.api == "normalize" && o.normalized != case.input && case.cfg["t"] == "seq" && rep.wants_sample() {
                rep.sample(|| json!({"norm": norm_desc(&case.cfg), "input": case.input, "normalized": o.normalized, "offsets": o.n_offsets}));
            }
        }
        Err(e) => {
            rep.count(&format!("no_result:{}", panic_class(&e)));
            if e.contains("index out of bounds") && e.contains("normalizers.rs") {
                rep.count("no_result_sequence_offset_index_panic");
                if !rep.notes.contains_key("sequence_panic_example") {
                    rep.note("sequence_panic_example", json!({"norm": norm_desc(&case.cfg), "input": case.input, "panic": e}));
                }
            }
        }
    }
}

fn count_kinds(rep: &mut Report, cfg: &Json) {
    let t = cfg["t"].as_str().unwrap_or("none");
    rep.count(&format!("normalizer_kind_{}", t));
    if t == "seq" {
        let items = cfg["items"].as_array().cloned().unwrap_or_default();
        rep.count(&format!("sequence_len_{}", items.len()));
        for it in &items {
            count_kinds(rep, it);
        }
    }
}

pub fn run(args: &Args) {
    let mut rep = Report::new(
        "C30",
        "textcheck c30",
        args,
        "normalizers Bert (lowercase x strip_accents), Unicode NFC/NFD/NFKC/NFKD, Replace (literal and regex patterns incl. empty-matching ones; empty, shrinking, growing and multi-byte replacements) and Sequences of 0-4 of them (nested occasionally), built through the public constructors, on random Unicode texts (decomposable characters, Hangul syllables and jamo, ligatures and other compatibility characters, characters whose lowercase is longer, combining sequences, controls, astral characters); checks offsets.len()==normalized.len(), every offset <= input.len(), non-decreasing, every offset a character boundary of the input; plus tokenizer.json configs (WordPiece and BPE models, the JSON normalizer types incl. Lowercase) loaded with Tokenizer::from_json whose token_offsets must be <= input.len(), on character boundaries and non-decreasing; panics are counted as no result; non-trivial = normalized text differs from the input; distinct by (normalizer, input)",
    );
    if let Some(path) = &args.replay {
        let w = load_witness(path);
        let case = Case { api: jstr(&w, "api"), cfg: w["cfg"].clone(), input: jstr(&w, "input") };
        run_case(&mut rep, &mut Ctx::default(), &case);
        rep.nontrivial(&0u8);
        rep.nontrivial(&1u8);
        rep.finish();
        return;
    }

    let mut ctx = Ctx::default();
    // ---- pinned witnesses of the two known mechanisms first, then pinned
    // cases (the same in every run and shard)
    for class in [CLASS_IDENTITY, CLASS_BASE] {
        let c = canonical_case(class);
        run_case(&mut rep, &mut ctx, &c);
    }
    let pinned_inputs = ["", "a", "é", "e\u{0301}", "İ", "ﬁ", "한", "\u{1112}\u{1161}\u{11ab}", "Å\u{0323}", "😀", "\u{FDFA}", "é é", "ab é\u{0301} İx"];
    for n in canonical_norms() {
        for inp in pinned_inputs {
            run_case(&mut rep, &mut ctx, &Case { api: "normalize".into(), cfg: n.clone(), input: inp.to_string() });
        }
    }
    for model in ["wordpiece", "bpe"] {
        let pre = if model == "wordpiece" { json!({"t": "bert"}) } else { json!({"t": "gpt2"}) };
        for n in canonical_norms() {
            for inp in pinned_inputs {
                run_case(&mut rep, &mut ctx, &Case { api: "tokenizer".into(), cfg: tok_cfg(model, &n, &pre, &[]), input: inp.to_string() });
            }
        }
    }
    rep.add("pinned_cases", rep.evaluations);

    // ---- random part
    let mut rng = Rng::derive(args.seed, 0xC30_0000 + args.shard as u64);
    let n_cfg = args.budget(24_000, 1_200_000);
    for i in 0..n_cfg {
        let tokenizer_route = i % 5 == 4;
        let norm = rand_norm(&mut rng, tokenizer_route);
        count_kinds(&mut rep, &norm);
        rep.count("normalizer_configs");
        let max_chars = if rng.chance(1, 10) { 200 } else { 24 };
        for _ in 0..4 {
            let (text, shape) = rand_text(&mut rng, max_chars, 2000);
            rep.count(&format!("text_shape_{}", shape));
            rep.add("input_bytes", text.len() as u64);
            if tokenizer_route {
                let model = if rng.bool() { "wordpiece" } else { "bpe" };
                let pre = match (model, rng.below(3)) {
                    ("wordpiece", 0) => json!({"t": "split", "pattern": r"\s+", "invert": false, "isolate": true}),
                    ("wordpiece", _) => json!({"t": "bert"}),
                    (_, 0) => json!({"t": "bytelevel", "use_regex": true}),
                    (_, 1) => json!({"t": "digits", "individual": true}),
                    _ => json!({"t": "gpt2"}),
                };
                let merges = if model == "bpe" { train_bpe(&[b" the".to_vec(), b" cat".to_vec(), b" that".to_vec()], 4) } else { vec![] };
                run_case(&mut rep, &mut ctx, &Case { api: "tokenizer".into(), cfg: tok_cfg(model, &norm, &pre, &merges), input: text });
            } else {
                run_case(&mut rep, &mut ctx, &Case { api: "normalize".into(), cfg: norm.clone(), input: text });
            }
        }
    }
    if !ctx.folded_examples.is_empty() {
        rep.note("folded_examples", Json::Array(ctx.folded_examples.clone()));
    }
    rep.finish();
}
