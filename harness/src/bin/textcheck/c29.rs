//! C29: `Tokenizer::encode_chunks` vs window reconstruction from the
//! un-chunked encoding.
use rten_text::Tokenizer;
use rten_text::tokenizer::{EncodeOptions, EncoderInput};
use vcommon::*;

use crate::tgen::*;
use crate::tokcfg::*;

const CLS_ID: u32 = 100_000;
const SEP_ID: u32 = 100_001;

fn wordpiece_vocab() -> Vec<String> {
    let mut v: Vec<String> = vec!["[CLS]".into(), "[SEP]".into(), "[UNK]".into()];
    for i in 0..60 {
        v.push(format!("w{}", i));
    }
    for s in ["##ing", "##s", "##ed", "un", "##w1", ".", ",", "!", "?", "a", "b", "##a", "##b"] {
        v.push(s.to_string());
    }
    v
}

/// specials: "none" | "cls+sep" | "cls" | "sep".
fn make_cfg(tok: &str, specials: &str, merges: &[(String, String)]) -> Json {
    let cls = if specials.contains("cls") { json!("[CLS]") } else { Json::Null };
    let sep = if specials.contains("sep") { json!("[SEP]") } else { Json::Null };
    if tok == "wordpiece" {
        json!({"model": "wordpiece", "vocab": wordpiece_vocab(), "pre": {"t": "bert"}, "norm": null, "route": "direct", "cls": cls, "sep": sep})
    } else {
        json!({
            "model": "bpe",
            "merges": merges.iter().map(|(a, b)| json!([a, b])).collect::<Vec<_>>(),
            "vocab": {"kind": "default"},
            "extra_vocab": [],
            "added": [[CLS_ID, "[CLS]"], [SEP_ID, "[SEP]"]],
            "added_in_vocab": false, "ignore_merges": false, "eow_empty": false,
            "pre": {"t": "gpt2"}, "norm": null, "route": "direct", "cls": cls, "sep": sep,
        })
    }
}

fn specials_of(cfg: &Json) -> &'static str {
    match (cfg["cls"].is_string(), cfg["sep"].is_string()) {
        (true, true) => "cls+sep",
        (true, false) => "cls",
        (false, true) => "sep",
        (false, false) => "none",
    }
}

#[derive(Clone, Debug)]
struct Case {
    cfg: Json,
    first: Option<String>,
    text: String,
    limit: Option<usize>,
    overlap: usize,
}

impl Case {
    fn to_json(&self) -> Json {
        json!({"cfg": self.cfg, "first": self.first, "text": self.text, "limit": self.limit, "overlap": self.overlap})
    }
    fn from_json(w: &Json) -> Case {
        Case {
            cfg: w["cfg"].clone(),
            first: w["first"].as_str().map(|s| s.to_string()),
            text: jstr(w, "text"),
            limit: w["limit"].as_u64().map(|x| x as usize),
            overlap: w["overlap"].as_u64().unwrap_or(0) as usize,
        }
    }
    fn input(&self) -> EncoderInput<'_> {
        match &self.first {
            Some(f) => EncoderInput::Pair((f.as_str(), self.text.as_str())),
            None => EncoderInput::Item(self.text.as_str()),
        }
    }
}

#[derive(Debug, Default)]
struct Analysis {
    n_first: usize,
    n: usize,
    n_chunks: usize,
    /// (kind, detail) of the first refuting observation.
    failure: Option<(String, String)>,
    /// Things counted but not flagged.
    notes: Vec<String>,
    /// Trailing chunk offset differs from the offset of the next token.
    windows: Vec<(usize, usize)>,
}

enum NoResult {
    /// message, first-sequence tokens, (second-sequence) content tokens
    Panic(String, usize, usize),
    Error(String),
}

fn analyze(tok: &Tokenizer, case: &Case) -> Result<Analysis, NoResult> {
    let has_cls = case.cfg["cls"].is_string() as usize;
    let has_sep = case.cfg["sep"].is_string() as usize;
    let pair = case.first.is_some();
    let overhead = has_cls + has_sep * if pair { 2 } else { 1 };
    let mut a = Analysis::default();

    // The un-chunked encoding.
    let (full, first_seq) = {
        let e = catch(|| tok.encode(case.input(), None)).map_err(|p| NoResult::Panic(p, 0, 0))?.map_err(|e| NoResult::Error(format!("{:?}", e)))?;
        let fs = e.token_type_ids().filter(|t| *t == 0).count();
        (e.token_ids().to_vec(), fs)
    };
    let (f1, f2): (Vec<u32>, Vec<u32>) = if pair {
        if full.len() < overhead || first_seq < has_cls + has_sep || first_seq > full.len() - has_sep {
            return Err(NoResult::Error("un-chunked encoding could not be parsed".into()));
        }
        (full[has_cls..first_seq - has_sep].to_vec(), full[first_seq..full.len() - has_sep].to_vec())
    } else {
        if full.len() < overhead {
            return Err(NoResult::Error("un-chunked encoding could not be parsed".into()));
        }
        (vec![], full[has_cls..full.len() - has_sep].to_vec())
    };
    a.n_first = f1.len();
    a.n = f2.len();
    if pair && f1.is_empty() && f2.is_empty() {
        // Informational: the un-chunked pair encoding is empty although the
        // first sequence alone has content (second sequence empty).
        if let Some(first) = &case.first {
            if let Ok(Ok(e)) = catch(|| tok.encode(first.as_str(), None)) {
                if e.token_ids().len() > has_cls + has_sep {
                    a.notes.push("unchunked_pair_encoding_drops_first_sequence_when_second_is_empty".into());
                }
            }
        }
    }

    let opts = EncodeOptions { max_chunk_len: case.limit, overlap: case.overlap };
    let chunks = catch(|| tok.encode_chunks(case.input(), opts)).map_err(|p| NoResult::Panic(p, f1.len(), f2.len()))?.map_err(|e| NoResult::Error(format!("{:?}", e)))?;
    a.n_chunks = chunks.len();

    let fail = |a: &mut Analysis, kind: &str, detail: String| {
        if a.failure.is_none() {
            a.failure = Some((kind.to_string(), detail));
        }
    };

    if chunks.is_empty() {
        let total = f1.len() + f2.len();
        if total == 0 {
            return Ok(a);
        }
        let room = case.limit.map(|l| l.saturating_sub(overhead));
        if room == Some(0) {
            a.notes.push("no_chunks:limit_leaves_no_room_for_content".into());
        } else if pair && f2.is_empty() {
            a.notes.push("no_chunks:pair_with_empty_second_sequence_drops_first".into());
        } else if pair && room.map(|r| r <= f1.len()).unwrap_or(false) {
            a.notes.push("no_chunks:pair_first_sequence_fills_the_limit".into());
        } else {
            fail(&mut a, "no_chunks", format!("no chunk returned for {} content tokens", total));
        }
        return Ok(a);
    }

    // Parse every chunk into (prefix of first sequence, window).
    let mut windows: Vec<Vec<u32>> = Vec::new();
    let mut prefixes: Vec<Vec<u32>> = Vec::new();
    for (ci, ch) in chunks.iter().enumerate() {
        let ids = ch.token_ids();
        if let Some(l) = case.limit {
            if ids.len() > l {
                fail(&mut a, "chunk_too_long", format!("chunk {} has {} tokens, limit {}", ci, ids.len(), l));
            }
        }
        if ids.len() < overhead {
            fail(&mut a, "chunk_without_special_tokens", format!("chunk {} has {} tokens, fewer than the {} special tokens", ci, ids.len(), overhead));
            windows.push(vec![]);
            prefixes.push(vec![]);
            continue;
        }
        if pair {
            let fs = ch.token_type_ids().filter(|t| *t == 0).count();
            if fs < has_cls + has_sep || fs > ids.len() - has_sep {
                fail(&mut a, "not_a_window", format!("chunk {}: first-sequence length {} inconsistent with {} tokens", ci, fs, ids.len()));
                windows.push(vec![]);
                prefixes.push(vec![]);
                continue;
            }
            prefixes.push(ids[has_cls..fs - has_sep].to_vec());
            windows.push(ids[fs..ids.len() - has_sep].to_vec());
        } else {
            windows.push(ids[has_cls..ids.len() - has_sep].to_vec());
        }
    }
    if pair {
        for (ci, p) in prefixes.iter().enumerate() {
            if !f1.starts_with(p) {
                fail(&mut a, "pair_prefix_not_a_prefix", format!("chunk {}: first part {:?} is not a prefix of the first sequence's encoding {:?}", ci, p, f1));
            } else if *p != prefixes[0] {
                fail(&mut a, "pair_prefix_changes", format!("chunk {}: first part differs from chunk 0", ci));
            }
        }
        if prefixes[0].len() < f1.len() {
            a.notes.push("pair_first_sequence_truncated".into());
        }
    }

    // Decision: the positions are forced (p0 = 0, p(i+1) = p(i) + len(i) -
    // overlap, last window ends at the end), so a consistent assignment
    // exists iff every window matches at its forced position.
    // Classification of a failure (for the signature only): place each window
    // where it was most plausibly taken from - the forced position if it
    // matches there, for the last window the suffix position if it matches
    // there, otherwise the nearest match.
    let f = &f2;
    let n = f.len() as i64;
    let matches_at = |w: &[u32], q: i64| q >= 0 && (q as usize) + w.len() <= f.len() && f[q as usize..q as usize + w.len()] == *w;
    let find = |w: &[u32], near: i64| -> Option<i64> {
        if w.len() > f.len() {
            return None;
        }
        (0..=f.len() - w.len()).filter(|&q| f[q..q + w.len()] == *w).min_by_key(|&q| ((q as i64 - near).abs(), q)).map(|q| q as i64)
    };
    let mut prev_end: i64 = 0;
    let full_len = windows[0].len();
    for (i, w) in windows.iter().enumerate() {
        let expect: i64 = if i == 0 { 0 } else { prev_end - case.overlap as i64 };
        let last = i + 1 == windows.len();
        let suffix = n - w.len() as i64;
        let placed: Option<i64> = if last && matches_at(w, suffix) && !(matches_at(w, expect) && expect + w.len() as i64 == n) {
            Some(suffix)
        } else if matches_at(w, expect) {
            Some(expect)
        } else {
            find(w, expect)
        };
        let pos = match placed {
            None => {
                fail(&mut a, "not_a_window", format!("chunk {}: content {:?} is not a contiguous window of the full encoding", i, w));
                expect.max(0)
            }
            Some(q) if q == expect => q,
            Some(q) => {
                if i == 0 {
                    fail(&mut a, "first_window_not_at_start", format!("first window starts at token {}", q));
                } else {
                    let actual = prev_end - q;
                    let last_partial = last && w.len() < full_len;
                    if actual < 0 {
                        fail(&mut a, "gap_between_windows", format!("window {} starts at token {}, previous window ended at {}: {} tokens skipped", i, q, prev_end, -actual));
                    } else if last_partial {
                        fail(
                            &mut a,
                            "last_partial_window_overlap",
                            format!("the last (partial) window {} overlaps the previous window by {} tokens, requested overlap {}", i, actual, case.overlap),
                        );
                    } else {
                        fail(&mut a, "window_overlap", format!("window {} overlaps the previous window by {} tokens, requested overlap {}", i, actual, case.overlap));
                    }
                }
                q
            }
        };
        a.windows.push((pos as usize, w.len()));
        prev_end = pos + w.len() as i64;
    }
    if prev_end != n {
        fail(&mut a, "not_covered", format!("windows end at token {} of {}", prev_end, n));
    }

    // Informational: trailing offset of each chunk vs start of the next token.
    Ok(a)
}

fn classify_panic(msg: &str) -> String {
    if msg.contains("overlap < chunk_size") { "documented_assert_overlap_lt_chunk_size".into() } else { panic_class(msg) }
}

// ------------------------------------------------------------ canonical shrink

fn canonical_text(tok: &str, n: usize, offset: usize) -> String {
    if tok == "wordpiece" {
        (0..n).map(|i| format!("w{}", i + offset)).collect::<Vec<_>>().join(" ")
    } else {
        // BPE without merges: one token per byte.
        (0..n).map(|i| (b'a' + ((i + offset) % 26) as u8) as char).collect()
    }
}

/// Search a fixed grid, in a fixed order, for the first case showing the same
/// failure kind. Bounded by `budget` analyses.
fn canonical_witness(kind: &str, orig: &Case) -> Option<(Case, Analysis)> {
    let mut budget = 8000usize;
    let orig_pair = orig.first.is_some();
    for tok in ["wordpiece", "bpe"] {
        for specials in ["none", "cls+sep", "cls", "sep"] {
            let cfg = make_cfg(tok, specials, &[]);
            let Ok(t) = build_tokenizer(&cfg) else { continue };
            for n_first in [None, Some(1usize), Some(2)] {
                // A failure that only exists for pairs cannot shrink to a
                // single input, and vice versa; both orders are tried.
                let _ = orig_pair;
                let overhead = specials.contains("cls") as usize + specials.contains("sep") as usize * if n_first.is_some() { 2 } else { 1 };
                for n in 1..=9usize {
                    for limit in 0..=(n + overhead + n_first.unwrap_or(0) + 1) {
                        for overlap in 0..=limit {
                            if budget == 0 {
                                return None;
                            }
                            budget -= 1;
                            let case = Case {
                                cfg: cfg.clone(),
                                first: n_first.map(|m| canonical_text(tok, m, 30)),
                                text: canonical_text(tok, n, 0),
                                limit: Some(limit),
                                overlap,
                            };
                            if let Ok(a) = analyze(&t, &case) {
                                if a.failure.as_ref().map(|f| f.0 == kind).unwrap_or(false) {
                                    return Some((case, a));
                                }
                            }
                        }
                    }
                }
            }
        }
    }
    None
}

fn signature(case: &Case, a: &Analysis, kind: &str) -> String {
    format!(
        "C29|tok={}|special={}|kind={}|n={}|limit={}|overlap={}|fail={}",
        case.cfg["model"].as_str().unwrap_or("?"),
        specials_of(&case.cfg),
        match &case.first {
            Some(_) => format!("pair(first={})", a.n_first),
            None => "single".to_string(),
        },
        a.n,
        case.limit.map(|l| l.to_string()).unwrap_or("none".into()),
        case.overlap,
        kind
    )
}

thread_local! {
    static CANON: std::cell::RefCell<std::collections::HashMap<String, Option<Case>>> = Default::default();
}

/// `canonical_witness` memoised per failure kind (the search does not depend
/// on the original case).
fn canonical_cached(kind: &str, orig: &Case) -> Option<(Case, Analysis)> {
    let cached: Option<Option<Case>> = CANON.with(|c| c.borrow().get(kind).cloned());
    let case = match cached {
        Some(c) => c,
        None => {
            let found = canonical_witness(kind, orig).map(|x| x.0);
            CANON.with(|c| c.borrow_mut().insert(kind.to_string(), found.clone()));
            found
        }
    }?;
    let t = build_tokenizer(&case.cfg).ok()?;
    let a = analyze(&t, &case).ok()?;
    Some((case, a))
}

fn report_failure(rep: &mut Report, case: &Case, a: &Analysis) {
    let (kind, detail) = a.failure.clone().unwrap();
    rep.count(&format!("failures_raw:{}", kind));
    let (scase, sa, shrunk) = match canonical_cached(&kind, case) {
        Some((c, an)) => (c, an, true),
        None => (case.clone(), Analysis { n_first: a.n_first, n: a.n, n_chunks: a.n_chunks, failure: a.failure.clone(), notes: vec![], windows: a.windows.clone() }, false),
    };
    let sdetail = sa.failure.as_ref().map(|f| f.1.clone()).unwrap_or(detail);
    let sig = signature(&scase, &sa, &kind);
    let summary = format!(
        "encode_chunks({}{:?}, max_chunk_len={:?}, overlap={}) on a {} tokenizer (special tokens: {}): {} [content tokens {}, chunks {}, windows (start,len) {:?}]{}",
        scase.first.as_ref().map(|f| format!("first={:?}, ", f)).unwrap_or_default(),
        scase.text,
        scase.limit,
        scase.overlap,
        scase.cfg["model"].as_str().unwrap_or("?"),
        specials_of(&scase.cfg),
        sdetail,
        sa.n,
        sa.n_chunks,
        sa.windows,
        if shrunk { "" } else { " (not reproducible on the canonical grid; unshrunk)" }
    );
    rep.violation(sig, summary, scase.to_json());
}

fn run_case(rep: &mut Report, tok: &Tokenizer, case: &Case) {
    rep.eval();
    match analyze(tok, case) {
        Ok(a) => {
            rep.add("chunks_produced", a.n_chunks as u64);
            rep.add("content_tokens", (a.n + a.n_first) as u64);
            rep.max("max_content_tokens", a.n as u64);
            rep.max("max_chunks", a.n_chunks as u64);
            for n in &a.notes {
                rep.count(&format!("not_flagged:{}", n));
            }
            if a.n_chunks > 1 {
                rep.nontrivial(&(jstr(&case.cfg, "model"), specials_of(&case.cfg), a.n_first, case.first.is_some(), a.n, case.limit, case.overlap));
                rep.count("cases_with_several_chunks");
                if case.overlap > 0 {
                    rep.count("cases_with_several_chunks_and_overlap");
                }
                let last = a.windows.last().map(|w| w.1).unwrap_or(0);
                if last < a.windows[0].1 {
                    rep.count("cases_with_partial_last_chunk");
                }
            }
            if a.failure.is_some() {
                report_failure(rep, case, &a);
            } else if a.n_chunks >= 3 && case.overlap > 0 && rep.wants_sample() {
                rep.sample(|| json!({"tok": case.cfg["model"], "special": specials_of(&case.cfg), "pair": case.first.is_some(), "n": a.n, "limit": case.limit, "overlap": case.overlap, "windows": a.windows}));
            }
        }
        Err(NoResult::Panic(msg, n_first, n)) => {
            let class = classify_panic(&msg);
            rep.count(&format!("no_result_panic:{}", class));
            // The assert compares `overlap` with the window size, which for
            // pairs is min(len(second), room): count the requests whose
            // overlap was smaller than the room the limit leaves, i.e. sane.
            if let (Some(l), true) = (case.limit, case.first.is_some()) {
                let has_cls = case.cfg["cls"].is_string() as usize;
                let has_sep = case.cfg["sep"].is_string() as usize;
                let room = l.saturating_sub(has_cls + 2 * has_sep);
                let room2 = room - n_first.min(room);
                if case.overlap < room2 && n > 0 {
                    rep.count("no_result_panic:pair_overlap_lt_room_but_ge_len_of_second");
                }
            }
        }
        Err(NoResult::Error(e)) => rep.count(&format!("no_result_error:{}", panic_class(&e))),
    }
}

fn gen_text(rng: &mut Rng, tok: &str, n_words: usize) -> String {
    if tok == "wordpiece" {
        let mut words: Vec<String> = Vec::new();
        for _ in 0..n_words {
            words.push(match rng.below(12) {
                0 => "zzz".into(),                                  // [UNK]
                1 => format!("w{}ing", rng.below(60)),              // two pieces
                2 => format!("unw1{}", *rng.choose(&["s", "ed"])), // three pieces
                3 => rng.choose(&[".", ",", "!", "?"]).to_string(),
                _ => format!("w{}", rng.below(60)),
            });
        }
        words.join(" ")
    } else {
        let mut s = String::new();
        for i in 0..n_words {
            if i > 0 {
                s.push(' ');
            }
            for _ in 0..rng.urange(1, 4) {
                s.push(*rng.choose(&['a', 'b', 'c', 'd', 'e', 't', 'h']));
            }
        }
        s
    }
}

pub fn run(args: &Args) {
    let mut rep = Report::new(
        "C29",
        "textcheck c29",
        args,
        "WordPiece (Bert pre-tokenizer, [UNK]/sub-word pieces) and byte-level BPE (trained merges, GPT-2 split) tokenizers with no / CLS+SEP / CLS-only / SEP-only special tokens, single and paired inputs of 0-200 content tokens, max_chunk_len from 0 (below the special-token overhead) to beyond the length and None, overlap 0..=limit+1; each chunk is parsed with token_type_ids into (first-sequence prefix, window) and the windows must sit at the forced positions p0=0, p(i+1)=p(i)+len(i)-overlap in the un-chunked encoding (Tokenizer::encode(input, None)) and end at its end; documented assert(overlap < chunk_size) panics and 'no room' empty results are counted, not flagged; non-trivial = more than one chunk; distinct by (tokenizer kind, special tokens, single/pair, token counts, limit, overlap)",
    );
    if let Some(path) = &args.replay {
        let case = Case::from_json(&load_witness(path));
        match build_tokenizer(&case.cfg) {
            Ok(t) => {
                run_case(&mut rep, &t, &case);
                rep.nontrivial(&0u8);
                rep.nontrivial(&1u8);
            }
            Err(e) => rep.inconclusive = Some(format!("cannot build tokenizer: {}", e)),
        }
        rep.finish();
        return;
    }

    // ---- pinned grid: small canonical cases, the same in every run/shard.
    for tok in ["wordpiece", "bpe"] {
        for specials in ["none", "cls+sep"] {
            let cfg = make_cfg(tok, specials, &[]);
            let t = build_tokenizer(&cfg).expect("canonical tokenizer");
            for n in 0..=6usize {
                for limit in 0..=8usize {
                    for overlap in 0..=limit + 1 {
                        for first in [None, Some(canonical_text(tok, 1, 30))] {
                            let case = Case { cfg: cfg.clone(), first, text: canonical_text(tok, n, 0), limit: Some(limit), overlap };
                            run_case(&mut rep, &t, &case);
                        }
                    }
                }
            }
        }
    }
    rep.add("pinned_grid_cases", rep.evaluations);

    // ---- random part
    let mut rng = Rng::derive(args.seed, 0xC29_0000 + args.shard as u64);
    let n_cfg = args.budget(2_000, 60_000);
    for _ in 0..n_cfg {
        let tok = if rng.bool() { "wordpiece" } else { "bpe" };
        let specials = *rng.choose(&["none", "cls+sep", "cls+sep", "cls", "sep"]);
        let merges = if tok == "bpe" {
            let words: Vec<Vec<u8>> = (0..40).map(|_| format!(" {}", gen_text(&mut rng, "bpe", 1)).into_bytes()).collect();
            train_bpe(&words, rng.urange(0, 20))
        } else {
            vec![]
        };
        let cfg = make_cfg(tok, specials, &merges);
        let t = match build_tokenizer(&cfg) {
            Ok(t) => t,
            Err(e) => {
                rep.count(&format!("tokenizer_build_failed:{}", panic_class(&e)));
                continue;
            }
        };
        rep.count(&format!("tokenizer_configs_{}_{}", tok, specials));
        let n_words = match rng.below(6) {
            0 => rng.urange(0, 3),
            1 | 2 => rng.urange(0, 20),
            3 | 4 => rng.urange(0, 80),
            _ => rng.urange(80, 200),
        };
        let text = gen_text(&mut rng, tok, n_words);
        let first = if rng.chance(2, 5) {
            let m = rng.urange(0, 6);
            Some(gen_text(&mut rng, tok, m))
        } else {
            None
        };
        rep.count(if first.is_some() { "texts_pair" } else { "texts_single" });
        // Limits and overlaps for this text.
        let approx = n_words + 6;
        for _ in 0..24 {
            let limit = match rng.below(8) {
                0 => None,
                1 => Some(rng.urange(0, 4)),
                2 => Some(approx + rng.urange(0, 10)),
                _ => Some(rng.urange(0, approx)),
            };
            let overlap = match (limit, rng.below(6)) {
                (Some(l), 0) => l + 1,
                (Some(l), 1) => l,
                (Some(l), 2) => rng.urange(0, 2.min(l)),
                (Some(l), _) => rng.urange(0, l),
                (None, _) => rng.urange(0, 3),
            };
            let case = Case { cfg: cfg.clone(), first: first.clone(), text: text.clone(), limit, overlap };
            run_case(&mut rep, &t, &case);
        }
    }
    rep.finish();
}
