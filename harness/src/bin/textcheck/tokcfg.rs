//! Tokenizer configurations as JSON values (so that they can be stored in a
//! witness and replayed) and builders that turn them into real `rten_text`
//! objects, either through the public constructors ("direct") or through
//! `Tokenizer::from_json` ("json" / "json_legacy").
//!
//! Schemas
//!
//! PRE  : null | {"t":"gpt2"} | {"t":"digits","individual":bool}
//!        | {"t":"split","pattern":str,"invert":bool,"isolate":bool}
//!        | {"t":"bytelevel","use_regex":bool}      (json routes only)
//!        | {"t":"bert"} | {"t":"seq","items":[PRE..]}
//! NORM : null | {"t":"bert","lowercase":bool,"strip_accents":bool}
//!        | {"t":"lowercase"} (json routes only; direct = bert(true,false))
//!        | {"t":"nfc"|"nfd"|"nfkc"|"nfkd"}
//!        | {"t":"replace","regex":bool,"pattern":str,"content":str}
//!        | {"t":"seq","items":[NORM..]}
//! BPE  : {"model":"bpe","merges":[[a,b]..],"vocab":{"kind":"default"|"default_ids"|"shuffled","seed":n},
//!         "extra_vocab":[str..],"added":[[id,str]..],"added_in_vocab":bool,"ignore_merges":bool,
//!         "eow_empty":bool,"pre":PRE,"norm":NORM,"route":"direct"|"json"|"json_legacy","cls":str|null,"sep":str|null}
//! WP   : {"model":"wordpiece","vocab":[str..],"pre":PRE,"norm":NORM,"route":"direct"|"json","cls":..,"sep":..}
use std::borrow::Cow;
use std::collections::HashMap;

use rten_text::Tokenizer;
use rten_text::models::{Bpe, BpeOptions, WordPiece};
use rten_text::normalizers::{self, Normalizer};
use rten_text::pre_tokenizers::{self, PreTokenizer};
use rten_text::tokenizer::TokenizerOptions;
use vcommon::*;

use crate::tgen::*;

// ------------------------------------------------------------ pre-tokenizers

pub fn build_pre(cfg: &Json) -> Result<Option<Box<dyn PreTokenizer>>, String> {
    if cfg.is_null() {
        return Ok(None);
    }
    let t = cfg["t"].as_str().unwrap_or("");
    let b: Box<dyn PreTokenizer> = match t {
        "gpt2" => Box::new(pre_tokenizers::Split::gpt2()),
        "digits" => Box::new(pre_tokenizers::Digits::new(cfg["individual"].as_bool().unwrap_or(false))),
        "bert" => Box::new(pre_tokenizers::Bert::new()),
        "split" => {
            let pattern = jstr(cfg, "pattern");
            let opts = pre_tokenizers::SplitOptions {
                pattern: &pattern,
                invert: cfg["invert"].as_bool().unwrap_or(false),
                delimiter: if cfg["isolate"].as_bool().unwrap_or(false) {
                    pre_tokenizers::SplitDelimiterBehavior::Isolate
                } else {
                    pre_tokenizers::SplitDelimiterBehavior::Remove
                },
            };
            Box::new(pre_tokenizers::Split::new(opts).map_err(|e| format!("split: {}", e))?)
        }
        "seq" => {
            let mut items = Vec::new();
            for it in cfg["items"].as_array().cloned().unwrap_or_default() {
                if let Some(p) = build_pre(&it)? {
                    items.push(p);
                }
            }
            Box::new(pre_tokenizers::Sequence::from_vec(items))
        }
        "bytelevel" => return Err("bytelevel pre-tokenizer exists only in tokenizer.json".into()),
        other => return Err(format!("unknown pre-tokenizer {:?}", other)),
    };
    Ok(Some(b))
}

pub fn pre_needs_json(cfg: &Json) -> bool {
    match cfg["t"].as_str() {
        Some("bytelevel") => true,
        Some("seq") => cfg["items"].as_array().map(|a| a.iter().any(pre_needs_json)).unwrap_or(false),
        _ => false,
    }
}

/// The `tokenizer.json` form of a pre-tokenizer config.
pub fn pre_to_hf(cfg: &Json) -> Json {
    if cfg.is_null() {
        return Json::Null;
    }
    match cfg["t"].as_str().unwrap_or("") {
        "gpt2" => json!({"type": "ByteLevel", "use_regex": true, "add_prefix_space": false, "trim_offsets": true}),
        "bytelevel" => json!({"type": "ByteLevel", "use_regex": cfg["use_regex"], "add_prefix_space": false}),
        "digits" => json!({"type": "Digits", "individual_digits": cfg["individual"]}),
        "bert" => json!({"type": "BertPreTokenizer"}),
        "split" => json!({
            "type": "Split",
            "pattern": {"Regex": cfg["pattern"]},
            "behavior": if cfg["isolate"].as_bool().unwrap_or(false) { "Isolated" } else { "Removed" },
            "invert": cfg["invert"],
        }),
        "seq" => json!({"type": "Sequence", "pretokenizers": cfg["items"].as_array().cloned().unwrap_or_default().iter().map(pre_to_hf).collect::<Vec<_>>()}),
        _ => Json::Null,
    }
}

pub fn pre_desc(cfg: &Json) -> String {
    if cfg.is_null() {
        return "none".into();
    }
    match cfg["t"].as_str().unwrap_or("") {
        "gpt2" => "gpt2".into(),
        "bytelevel" => format!("ByteLevel(use_regex={})", cfg["use_regex"]),
        "digits" => format!("Digits({})", cfg["individual"]),
        "bert" => "Bert".into(),
        "split" => format!(
            "Split(/{}/,{},{})",
            esc(&jstr(cfg, "pattern")),
            if cfg["invert"].as_bool().unwrap_or(false) { "invert" } else { "plain" },
            if cfg["isolate"].as_bool().unwrap_or(false) { "isolate" } else { "remove" }
        ),
        "seq" => format!("Seq[{}]", cfg["items"].as_array().cloned().unwrap_or_default().iter().map(pre_desc).collect::<Vec<_>>().join(",")),
        o => format!("?{}", o),
    }
}

// ------------------------------------------------------------ normalizers

/// Escape a literal for use as a regex (what `Pattern::String` does in the
/// JSON loader via `fancy_regex::escape`).
pub fn regex_escape(lit: &str) -> String {
    let mut out = String::new();
    for c in lit.chars() {
        if "\\.+*?()|[]{}^$#&-~".contains(c) {
            out.push('\\');
        }
        out.push(c);
    }
    out
}

pub fn build_norm(cfg: &Json) -> Result<Option<Box<dyn Normalizer>>, String> {
    if cfg.is_null() {
        return Ok(None);
    }
    let b: Box<dyn Normalizer> = match cfg["t"].as_str().unwrap_or("") {
        "bert" => Box::new(normalizers::Bert::new(normalizers::BertOptions {
            lowercase: cfg["lowercase"].as_bool().unwrap_or(false),
            strip_accents: cfg["strip_accents"].as_bool().unwrap_or(false),
        })),
        "lowercase" => Box::new(normalizers::Bert::new(normalizers::BertOptions { lowercase: true, strip_accents: false })),
        "nfc" => Box::new(normalizers::Unicode::Nfc),
        "nfd" => Box::new(normalizers::Unicode::Nfd),
        "nfkc" => Box::new(normalizers::Unicode::Nfkc),
        "nfkd" => Box::new(normalizers::Unicode::Nfkd),
        "replace" => {
            let pat = jstr(cfg, "pattern");
            let pat = if cfg["regex"].as_bool().unwrap_or(false) { pat } else { regex_escape(&pat) };
            Box::new(normalizers::Replace::new(&pat, jstr(cfg, "content")).map_err(|e| format!("replace: {}", e))?)
        }
        "seq" => {
            let mut items = Vec::new();
            for it in cfg["items"].as_array().cloned().unwrap_or_default() {
                if let Some(n) = build_norm(&it)? {
                    items.push(n);
                }
            }
            Box::new(normalizers::Sequence::from_vec(items))
        }
        other => return Err(format!("unknown normalizer {:?}", other)),
    };
    Ok(Some(b))
}

pub fn norm_to_hf(cfg: &Json) -> Json {
    if cfg.is_null() {
        return Json::Null;
    }
    match cfg["t"].as_str().unwrap_or("") {
        "bert" => json!({"type": "BertNormalizer", "clean_text": false, "handle_chinese_chars": false, "lowercase": cfg["lowercase"], "strip_accents": cfg["strip_accents"]}),
        "lowercase" => json!({"type": "Lowercase"}),
        "nfc" => json!({"type": "NFC"}),
        "nfd" => json!({"type": "NFD"}),
        "nfkc" => json!({"type": "NFKC"}),
        "nfkd" => json!({"type": "NFKD"}),
        "replace" => {
            let key = if cfg["regex"].as_bool().unwrap_or(false) { "Regex" } else { "String" };
            json!({"type": "Replace", "pattern": {key: cfg["pattern"]}, "content": cfg["content"]})
        }
        "seq" => json!({"type": "Sequence", "normalizers": cfg["items"].as_array().cloned().unwrap_or_default().iter().map(norm_to_hf).collect::<Vec<_>>()}),
        _ => Json::Null,
    }
}

pub fn norm_desc(cfg: &Json) -> String {
    if cfg.is_null() {
        return "none".into();
    }
    match cfg["t"].as_str().unwrap_or("") {
        "bert" => format!("Bert(lowercase={},strip_accents={})", cfg["lowercase"], cfg["strip_accents"]),
        "replace" => format!(
            "Replace({} \"{}\"->\"{}\")",
            if cfg["regex"].as_bool().unwrap_or(false) { "regex" } else { "lit" },
            esc(&jstr(cfg, "pattern")),
            esc(&jstr(cfg, "content"))
        ),
        "seq" => format!("Seq[{}]", cfg["items"].as_array().cloned().unwrap_or_default().iter().map(norm_desc).collect::<Vec<_>>().join(",")),
        o => o.to_uppercase(),
    }
}

// ------------------------------------------------------------ models

pub fn cfg_merges(cfg: &Json) -> Vec<(String, String)> {
    cfg["merges"]
        .as_array()
        .cloned()
        .unwrap_or_default()
        .iter()
        .map(|p| (p[0].as_str().unwrap_or("").to_string(), p[1].as_str().unwrap_or("").to_string()))
        .collect()
}

pub fn cfg_added(cfg: &Json) -> Vec<(u32, String)> {
    cfg["added"]
        .as_array()
        .cloned()
        .unwrap_or_default()
        .iter()
        .map(|p| (p[0].as_u64().unwrap_or(0) as u32, p[1].as_str().unwrap_or("").to_string()))
        .collect()
}

/// The explicit vocabulary (token string -> id) described by a BPE config, or
/// None for `"kind":"default"` (let `Bpe::new` derive it from the merges).
pub fn bpe_vocab(cfg: &Json) -> Option<Vec<(String, u32)>> {
    let kind = cfg["vocab"]["kind"].as_str().unwrap_or("default");
    if kind == "default" {
        return None;
    }
    let merges = cfg_merges(cfg);
    let chars = byte_chars();
    let mut map: HashMap<String, u32> = HashMap::new();
    let mut order: Vec<String> = Vec::new();
    let byte_ids = default_byte_ids();
    for b in 0..256usize {
        let s = chars[b].to_string();
        map.insert(s.clone(), byte_ids[b]);
        order.push(s);
    }
    for (i, (a, b)) in merges.iter().enumerate() {
        let s = format!("{}{}", a, b);
        if !map.contains_key(&s) {
            order.push(s.clone());
        }
        // Same as build_vocab: a later rule with the same product overrides.
        map.insert(s, 256 + i as u32);
    }
    let mut next = 256 + merges.len() as u32;
    for s in cfg["extra_vocab"].as_array().cloned().unwrap_or_default() {
        let s = s.as_str().unwrap_or("").to_string();
        if !s.is_empty() && !map.contains_key(&s) {
            map.insert(s.clone(), next);
            order.push(s);
            next += 1;
        }
    }
    if cfg["added_in_vocab"].as_bool().unwrap_or(false) {
        for (id, content) in cfg_added(cfg) {
            if !map.contains_key(&content) {
                map.insert(content.clone(), id);
                order.push(content);
            }
        }
    }
    if kind == "shuffled" {
        // Injective random ids (added tokens keep theirs, which lie above).
        let mut rng = Rng::new(cfg["vocab"]["seed"].as_u64().unwrap_or(0) ^ 0x766f636162);
        let added: Vec<String> = if cfg["added_in_vocab"].as_bool().unwrap_or(false) { cfg_added(cfg).into_iter().map(|a| a.1).collect() } else { vec![] };
        let plain: Vec<String> = order.iter().filter(|s| !added.contains(s)).cloned().collect();
        let mut ids: Vec<u32> = (0..plain.len() as u32).map(|i| 1000 + 3 * i).collect();
        rng.shuffle(&mut ids);
        for (s, id) in plain.iter().zip(ids) {
            map.insert(s.clone(), id);
        }
    }
    let mut out: Vec<(String, u32)> = order.into_iter().map(|s| {
        let id = map[&s];
        (s, id)
    }).collect();
    out.sort();
    Some(out)
}

fn bpe_to_hf(cfg: &Json) -> Json {
    let merges = cfg_merges(cfg);
    let vocab = bpe_vocab(cfg).unwrap_or_else(|| {
        let mut c = cfg.clone();
        c["vocab"] = json!({"kind": "default_ids"});
        bpe_vocab(&c).unwrap()
    });
    let vocab_obj: serde_json::Map<String, Json> = vocab.into_iter().map(|(s, id)| (s, json!(id))).collect();
    let merges_json: Json = if cfg["route"] == "json_legacy" {
        let mut lines = vec![json!("#version: 0.2")];
        lines.extend(merges.iter().map(|(a, b)| json!(format!("{} {}", a, b))));
        Json::Array(lines)
    } else {
        Json::Array(merges.iter().map(|(a, b)| json!([a, b])).collect())
    };
    let added: Vec<Json> = cfg_added(cfg)
        .into_iter()
        .map(|(id, content)| json!({"id": id, "content": content, "single_word": false, "lstrip": false, "rstrip": false, "normalized": false, "special": true}))
        .collect();
    json!({
        "version": "1.0",
        "truncation": null,
        "padding": null,
        "added_tokens": added,
        "normalizer": norm_to_hf(&cfg["norm"]),
        "pre_tokenizer": pre_to_hf(&cfg["pre"]),
        "post_processor": null,
        "decoder": null,
        "model": {
            "type": "BPE",
            "dropout": null,
            "unk_token": null,
            "continuing_subword_prefix": null,
            "end_of_word_suffix": if cfg["eow_empty"].as_bool().unwrap_or(false) { json!("") } else { Json::Null },
            "fuse_unk": false,
            "byte_fallback": false,
            "ignore_merges": cfg["ignore_merges"].as_bool().unwrap_or(false),
            "vocab": vocab_obj,
            "merges": merges_json,
        }
    })
}

fn wp_to_hf(cfg: &Json) -> Json {
    let vocab_obj: serde_json::Map<String, Json> = cfg["vocab"]
        .as_array()
        .cloned()
        .unwrap_or_default()
        .iter()
        .enumerate()
        .map(|(i, s)| (s.as_str().unwrap_or("").to_string(), json!(i)))
        .collect();
    json!({
        "version": "1.0",
        "added_tokens": [],
        "normalizer": norm_to_hf(&cfg["norm"]),
        "pre_tokenizer": pre_to_hf(&cfg["pre"]),
        "model": {"type": "WordPiece", "unk_token": "[UNK]", "continuing_subword_prefix": "##", "max_input_chars_per_word": 100, "vocab": vocab_obj}
    })
}

/// Build the real tokenizer for a config. Errors are construction failures
/// ("no result").
pub fn build_tokenizer(cfg: &Json) -> Result<Tokenizer, String> {
    let route = cfg["route"].as_str().unwrap_or("direct");
    let model = cfg["model"].as_str().unwrap_or("bpe");
    if route != "direct" {
        let hf = if model == "bpe" { bpe_to_hf(cfg) } else { wp_to_hf(cfg) };
        let text = serde_json::to_string(&hf).unwrap();
        return Tokenizer::from_json(&text).map_err(|e| format!("from_json: {}", e));
    }
    let opts = TokenizerOptions { cls_token: cfg["cls"].as_str(), sep_token: cfg["sep"].as_str() };
    let mut tok = if model == "bpe" {
        let merges = cfg_merges(cfg);
        let merges_cow: Vec<(Cow<str>, Cow<str>)> = merges.iter().map(|(a, b)| (Cow::Borrowed(a.as_str()), Cow::Borrowed(b.as_str()))).collect();
        let bpe = Bpe::new(BpeOptions {
            merges: &merges_cow,
            vocab: bpe_vocab(cfg).map(|v| v.into_iter().collect()),
            added_tokens: cfg_added(cfg).into_iter().collect(),
            end_of_word_suffix: if cfg["eow_empty"].as_bool().unwrap_or(false) { Some(String::new()) } else { None },
            ignore_merges: cfg["ignore_merges"].as_bool().unwrap_or(false),
        })
        .map_err(|e| format!("Bpe::new: {}", e))?;
        Tokenizer::new(bpe, opts)
    } else {
        let vocab: HashMap<String, u32> = cfg["vocab"]
            .as_array()
            .cloned()
            .unwrap_or_default()
            .iter()
            .enumerate()
            .map(|(i, s)| (s.as_str().unwrap_or("").to_string(), i as u32))
            .collect();
        Tokenizer::new(WordPiece::from_vocab(vocab, Default::default()), opts)
    };
    if let Some(n) = build_norm(&cfg["norm"])? {
        tok = tok.with_normalizer(n);
    }
    if let Some(p) = build_pre(&cfg["pre"])? {
        tok = tok.with_pre_tokenizer(p);
    }
    Ok(tok)
}
