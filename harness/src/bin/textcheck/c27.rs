//! C27: byte-level BPE round trip and token offsets through the public
//! `Tokenizer` API.
use rten_text::Tokenizer;
use vcommon::*;

use crate::tgen::*;
use crate::tokcfg::*;

// ------------------------------------------------------------ generators

fn rand_pre(rng: &mut Rng) -> Json {
    // Patterns used with Isolate (nothing may be dropped whatever matches).
    const ISOLATE: &[&str] = &[
        r"\s+", r" ", r"[0-9]+", r"\p{L}+", r"\p{N}", r"[^\w\s]+", r"'", r"a|b", r"\n", r"(?s).", r"\p{Han}", r"\p{M}+", r"(?=[A-Z])", r"\b", r"x*", r"<\|[a-z_]+\|>", r"[\s\S]{3}", r"\s+(?!\S)|\s+",
        r"\p{Hebrew}+|\p{Arabic}+",
    ];
    // Patterns that match every character, used inverted with Remove.
    const COVERING: &[&str] = &[r"\s+|\S+", r"(?s).", r"(?s).+", r"[0-9]|[^0-9]+", r"'s|'t| ?\p{L}+| ?\p{N}+| ?[^\s\p{L}\p{N}]+|\s+", r"\p{L}+|\P{L}+"];
    match rng.below(14) {
        0 | 1 => Json::Null,
        2 | 3 | 4 => json!({"t": "gpt2"}),
        5 => json!({"t": "digits", "individual": rng.bool()}),
        6 | 7 => json!({"t": "split", "pattern": *rng.choose(ISOLATE), "invert": rng.bool(), "isolate": true}),
        8 => json!({"t": "split", "pattern": *rng.choose(COVERING), "invert": true, "isolate": false}),
        9 => json!({"t": "bytelevel", "use_regex": true}),
        10 => json!({"t": "bytelevel", "use_regex": false}),
        11 => json!({"t": "seq", "items": [{"t": "digits", "individual": rng.bool()}, if rng.bool() { json!({"t": "gpt2"}) } else { json!({"t": "bytelevel", "use_regex": rng.bool()}) }]}),
        12 => json!({"t": "seq", "items": [{"t": "split", "pattern": *rng.choose(ISOLATE), "invert": rng.bool(), "isolate": true}, {"t": "gpt2"}]}),
        _ => json!({"t": "seq", "items": [{"t": "split", "pattern": *rng.choose(ISOLATE), "invert": rng.bool(), "isolate": true}, {"t": "split", "pattern": *rng.choose(COVERING), "invert": true, "isolate": false}]}),
    }
}

/// Split a text the way corpora for byte-level BPE are usually prepared:
/// words keep their leading whitespace.
fn corpus_words(text: &str) -> Vec<Vec<u8>> {
    let mut words: Vec<Vec<u8>> = Vec::new();
    let mut cur = String::new();
    let mut in_word = false;
    for c in text.chars() {
        if c.is_whitespace() {
            if in_word {
                words.push(std::mem::take(&mut cur).into_bytes());
                in_word = false;
            }
            cur.push(c);
        } else {
            in_word = true;
            cur.push(c);
        }
    }
    if !cur.is_empty() {
        words.push(cur.into_bytes());
    }
    words
}

fn rand_cfg(rng: &mut Rng) -> Json {
    // Corpus: a handful of random texts (plus fixed English so that common
    // merges exist).
    let mut words: Vec<Vec<u8>> = corpus_words(" the cat is in the bed that they're then there 123 1234 don't it's hello hello world");
    for _ in 0..rng.urange(0, 6) {
        let (t, _) = rand_text(rng, 60, 200);
        words.extend(corpus_words(&t));
    }
    let n_merges = match rng.below(6) {
        0 => 0,
        1 => rng.urange(1, 5),
        2 | 3 => rng.urange(5, 40),
        _ => rng.urange(40, 160),
    };
    let merges = train_bpe(&words, n_merges);
    let pre = rand_pre(rng);
    let mut route = *rng.choose(&["direct", "direct", "json", "json_legacy"]);
    if pre_needs_json(&pre) && route == "direct" {
        route = "json";
    }
    let mut vocab_kind = *rng.choose(&["default", "default_ids", "shuffled"]);
    if route != "direct" && vocab_kind == "default" {
        vocab_kind = "default_ids";
    }
    let ignore_merges = rng.chance(1, 6);
    let mut extra: Vec<String> = Vec::new();
    if vocab_kind != "default" && rng.chance(1, 3) {
        for _ in 0..rng.urange(1, 8) {
            let w: &Vec<u8> = &words[rng.below(words.len())];
            extra.push(enc_bytes(w));
        }
    }
    let mut added: Vec<Json> = Vec::new();
    let n_added = if rng.bool() { 0 } else { rng.urange(1, 3) };
    for i in 0..n_added {
        let content = rng.choose(SPECIAL_TEXTS).to_string();
        if !added.iter().any(|a: &Json| a[1] == content.as_str()) {
            added.push(json!([200_000 + i as u32, content]));
        }
    }
    let norm = match rng.below(16) {
        0 => json!({"t": "bert", "lowercase": false, "strip_accents": false}),
        1 => json!({"t": "nfc"}),
        2 => json!({"t": "replace", "regex": false, "pattern": "\u{e000}\u{e001}", "content": "x"}),
        3 => json!({"t": "seq", "items": []}),
        _ => Json::Null,
    };
    json!({
        "model": "bpe",
        "merges": merges.iter().map(|(a, b)| json!([a, b])).collect::<Vec<_>>(),
        "vocab": {"kind": vocab_kind, "seed": rng.below(1 << 30)},
        "extra_vocab": extra,
        "added": added,
        "added_in_vocab": vocab_kind != "default" && rng.bool(),
        "ignore_merges": ignore_merges,
        "eow_empty": rng.chance(1, 8),
        "pre": pre,
        "norm": norm,
        "route": route,
        "cls": null, "sep": null,
    })
}

// ------------------------------------------------------------ the oracle

#[derive(Debug, Default)]
struct Outcome {
    n_tokens: usize,
    n_offsets: usize,
    empty_slices: usize,
    /// The decoded text when the round trip failed.
    decoded: Option<String>,
    failure: Option<(String, String)>,
}

fn check(tok: &Tokenizer, text: &str) -> Result<Outcome, String> {
    let enc = catch(|| tok.encode(text, None)).map_err(|p| format!("panic in encode: {}", p))?.map_err(|e| format!("encode error: {:?}", e))?;
    let ids = enc.token_ids().to_vec();
    let offsets = enc.token_offsets().to_vec();
    let mut o = Outcome { n_tokens: ids.len(), n_offsets: offsets.len(), ..Default::default() };
    let decoded = catch(|| tok.decode(&ids)).map_err(|p| format!("panic in decode: {}", p))?;
    let fail = |k: &str, d: String| Some((k.to_string(), d));
    match decoded {
        Err(e) => {
            o.failure = fail("decode_error", format!("decode(encode(t).token_ids()) failed: {:?}", e));
            return Ok(o);
        }
        Ok(d) if d != text => {
            o.failure = fail("roundtrip", format!("decode(encode(t).token_ids()) = {:?}, ids {:?}", clip(&d), clip_ids(&ids)));
            o.decoded = Some(d);
            return Ok(o);
        }
        Ok(_) => {}
    }
    for (i, &off) in offsets.iter().enumerate() {
        if off > text.len() {
            o.failure = fail("offset_gt_len", format!("token_offsets[{}]={} > t.len()={}", i, off, text.len()));
            return Ok(o);
        }
    }
    for (i, &off) in offsets.iter().enumerate() {
        if !text.is_char_boundary(off) {
            o.failure = fail("offset_not_char_boundary", format!("token_offsets[{}]={} is not a character boundary", i, off));
            return Ok(o);
        }
    }
    for i in 1..offsets.len() {
        if offsets[i] < offsets[i - 1] {
            o.failure = fail("offset_decreasing", format!("token_offsets[{}]={} < token_offsets[{}]={}", i, offsets[i], i - 1, offsets[i - 1]));
            return Ok(o);
        }
    }
    // The slices the offsets delimit, through the public accessor.
    let mut concat = String::new();
    for i in 0..ids.len() {
        match catch(|| enc.text_for_token_range(i..i + 1)).map_err(|p| format!("panic in text_for_token_range: {}", p))? {
            None => {
                o.failure = fail("slice_none", format!("text_for_token_range({}..{}) is None (offsets {:?})", i, i + 1, clip_ids(&offsets)));
                return Ok(o);
            }
            Some(s) => {
                if s.is_empty() {
                    o.empty_slices += 1;
                }
                concat.push_str(s);
            }
        }
    }
    if concat != text {
        o.failure = fail("slices_do_not_concatenate", format!("slices between consecutive offsets concatenate to {:?} (offsets {:?})", clip(&concat), clip_ids(&offsets)));
    }
    Ok(o)
}

fn clip(s: &str) -> String {
    if s.chars().count() > 60 { format!("{}...", s.chars().take(60).collect::<String>()) } else { s.to_string() }
}

fn clip_ids<T: std::fmt::Debug>(v: &[T]) -> String {
    if v.len() > 24 { format!("{:?}... ({} items)", &v[..24], v.len()) } else { format!("{:?}", v) }
}

// ------------------------------------------------------------ cases

#[derive(Clone, Debug)]
struct Case {
    cfg: Json,
    text: String,
}

impl Case {
    fn fails_with(&self, kind: &str) -> bool {
        let Ok(Ok(t)) = catch(|| build_tokenizer(&self.cfg)) else { return false };
        matches!(check(&t, &self.text), Ok(o) if o.failure.as_ref().map(|f| f.0 == kind).unwrap_or(false))
    }
    fn to_json(&self) -> Json {
        json!({"cfg": self.cfg, "text": self.text})
    }
    fn signature(&self, kind: &str) -> String {
        let merges = cfg_merges(&self.cfg);
        let merges_desc = if merges.len() <= 3 {
            format!("[{}]", merges.iter().map(|(a, b)| format!("({},{})", esc(a), esc(b))).collect::<Vec<_>>().join(","))
        } else {
            format!("{}#{:08x}", merges.len(), hash_of(&merges) as u32)
        };
        let mut opts: Vec<String> = Vec::new();
        if !self.cfg["norm"].is_null() {
            opts.push(format!("norm={}", norm_desc(&self.cfg["norm"])));
        }
        if !cfg_added(&self.cfg).is_empty() {
            opts.push(format!("added={}{}", cfg_added(&self.cfg).len(), if self.cfg["added_in_vocab"] == true { "+vocab" } else { "" }));
        }
        if self.cfg["ignore_merges"] == true {
            opts.push(format!("ignore_merges(extra={})", self.cfg["extra_vocab"].as_array().map(|a| a.len()).unwrap_or(0)));
        }
        if self.cfg["eow_empty"] == true {
            opts.push("eow=\"\"".into());
        }
        format!(
            "C27|route={}|pre={}|merges={}|vocab={}|opts={}|text={}|fail={}",
            self.cfg["route"].as_str().unwrap_or("?"),
            pre_desc(&self.cfg["pre"]),
            merges_desc,
            self.cfg["vocab"]["kind"].as_str().unwrap_or("?"),
            if opts.is_empty() { "-".to_string() } else { opts.join(",") },
            esc(&self.text),
            kind
        )
    }
}

fn simpler_cfgs(cfg: &Json) -> Vec<Json> {
    let mut out: Vec<Json> = Vec::new();
    let mut with = |key: &str, val: Json| {
        if cfg[key] != val {
            let mut c = cfg.clone();
            c[key] = val;
            out.push(c);
        }
    };
    with("norm", Json::Null);
    with("added", json!([]));
    with("added_in_vocab", json!(false));
    with("ignore_merges", json!(false));
    with("extra_vocab", json!([]));
    with("eow_empty", json!(false));
    // Monotone steps only (json_legacy -> json -> direct, shuffled ->
    // default_ids -> default) so that the greedy loop terminates.
    if cfg["route"] == "json_legacy" {
        with("route", json!("json"));
    }
    if cfg["route"] != "direct" && !pre_needs_json(&cfg["pre"]) {
        with("route", json!("direct"));
    }
    if cfg["vocab"]["kind"] == "shuffled" {
        with("vocab", json!({"kind": "default_ids", "seed": 0}));
    }
    if cfg["route"] == "direct" && cfg["vocab"]["kind"] == "default_ids" && cfg["extra_vocab"].as_array().map(|a| a.is_empty()).unwrap_or(true) && cfg["added_in_vocab"] != true {
        with("vocab", json!({"kind": "default", "seed": 0}));
    }
    with("merges", json!([]));
    let m = cfg["merges"].as_array().cloned().unwrap_or_default();
    for k in [m.len() / 8, m.len() / 4, m.len() / 2, m.len().saturating_sub(1)] {
        if k < m.len() {
            with("merges", Json::Array(m[..k].to_vec()));
        }
    }
    with("pre", Json::Null);
    if cfg["pre"]["t"] == "seq" {
        for it in cfg["pre"]["items"].as_array().cloned().unwrap_or_default() {
            with("pre", it);
        }
    }
    out
}

fn shrink(case: &Case, kind: &str) -> Case {
    let mut cur = case.clone();
    let mut budget = 1500usize;
    let shrink_text_of = |cur: &mut Case, budget: &mut usize| {
        if let Ok(Ok(t)) = catch(|| build_tokenizer(&cur.cfg)) {
            let shrunk = shrink_text(&cur.text, budget, &mut |s: &str| matches!(check(&t, s), Ok(o) if o.failure.as_ref().map(|f| f.0 == kind).unwrap_or(false)));
            cur.text = shrunk;
        }
    };
    // Text first (cheap: the tokenizer is built once), then the config, then
    // the text again under the simplified config.
    shrink_text_of(&mut cur, &mut budget);
    for round in 0..2 {
        // Greedy config simplification until nothing applies.
        let mut changed = true;
        while changed && budget > 0 {
            changed = false;
            for cand in simpler_cfgs(&cur.cfg) {
                if budget == 0 {
                    break;
                }
                budget -= 1;
                let c = Case { cfg: cand, text: cur.text.clone() };
                if c.fails_with(kind) {
                    cur = c;
                    changed = true;
                    break;
                }
            }
        }
        if round == 0 {
            shrink_text_of(&mut cur, &mut budget);
        }
    }
    cur
}

fn has_bytelevel_noregex(pre: &Json) -> bool {
    match pre["t"].as_str() {
        Some("bytelevel") => pre["use_regex"] == false,
        Some("seq") => pre["items"].as_array().map(|a| a.iter().any(has_bytelevel_noregex)).unwrap_or(false),
        _ => false,
    }
}

fn text_classes(text: &str) -> Vec<&'static str> {
    let mut v = Vec::new();
    let mut add = |s: &'static str| {
        if !v.contains(&s) {
            v.push(s);
        }
    };
    for c in text.chars() {
        let u = c as u32;
        if u >= 0x10000 {
            add("astral");
        }
        if c.is_control() {
            add("control");
        }
        if (0x0300..=0x036f).contains(&u) || (0x20d0..=0x20ff).contains(&u) || u == 0x3099 || u == 0x309a {
            add("combining");
        }
        if (0x3040..=0x9fff).contains(&u) || (0xac00..=0xd7a3).contains(&u) {
            add("cjk");
        }
        if (0x0590..=0x074f).contains(&u) || u == 0x200f || u == 0x202e {
            add("rtl");
        }
        if c.len_utf8() > 1 {
            add("multibyte");
        }
    }
    v
}

fn run_text(rep: &mut Report, tok: &Tokenizer, cfg: &Json, text: &str) {
    rep.eval();
    // "without lossy normalization": a configured normalizer must leave this
    // text unchanged, otherwise the round trip is not promised.
    if !cfg["norm"].is_null() {
        let same = build_norm(&cfg["norm"]).ok().flatten().and_then(|n| catch(|| n.normalize(text)).ok()).and_then(|r| r.ok()).map(|r| r.0 == text);
        if same != Some(true) {
            rep.count("skipped_normalizer_changes_this_text");
            return;
        }
        rep.count("texts_with_identity_normalizer");
    }
    match check(tok, text) {
        Ok(o) => {
            rep.add("tokens", o.n_tokens as u64);
            rep.add("text_bytes", text.len() as u64);
            rep.add("merges_applied_bytes_minus_tokens", (text.len().saturating_sub(o.n_tokens)) as u64);
            rep.add("tokens_with_empty_slice", o.empty_slices as u64);
            if o.n_offsets != o.n_tokens {
                rep.count("texts_where_offsets_len_differs_from_token_count");
            }
            let classes = text_classes(text);
            for c in &classes {
                rep.count(&format!("texts_with_{}", c));
            }
            if o.n_tokens < text.len() && classes.contains(&"multibyte") {
                rep.nontrivial(&(cfg.to_string(), text));
            }
            if let Some((kind, detail)) = &o.failure {
                rep.count(&format!("failures_raw:{}", kind));
                // Known mechanism (pinned witness: ByteLevel(use_regex=false)
                // on "\n"): the loader's `.*` split drops every "\n". A
                // round-trip failure that is exactly that - a ByteLevel
                // pre-tokenizer without regex is configured and the decoded
                // text is the input minus its "\n" characters - is folded
                // into the pinned signature when the pinned witness fired.
                let is_pinned = text == "\n" && cfg["pre"]["t"] == "bytelevel" && cfg_merges(cfg).is_empty();
                if kind == "roundtrip"
                    && !is_pinned
                    && rep.counters.contains_key("pinned_newline_witness_fired")
                    && has_bytelevel_noregex(&cfg["pre"])
                    && o.decoded.as_deref() == Some(text.replace('\n', "").as_str())
                {
                    rep.count("folded_into_pinned_signature:bytelevel_noregex_drops_newlines");
                    return;
                }
                if is_pinned && kind == "roundtrip" && !rep.counters.contains_key("pinned_newline_witness_fired") {
                    rep.count("pinned_newline_witness_fired");
                }
                // Bounded work: one violation per signature is kept anyway.
                let done = *rep.counters.get("failures_shrunk").unwrap_or(&0);
                if done >= 60 || rep.n_violations() >= rep.max_violations {
                    rep.count(&format!("failures_not_shrunk:{}", kind));
                    return;
                }
                rep.count("failures_shrunk");
                let s = shrink(&Case { cfg: cfg.clone(), text: text.to_string() }, kind);
                let sdetail = catch(|| build_tokenizer(&s.cfg)).ok().and_then(|t| t.ok()).and_then(|t| check(&t, &s.text).ok()).and_then(|o| o.failure).map(|f| f.1).unwrap_or(detail.clone());
                let summary = format!(
                    "byte-level BPE tokenizer (route {}, pre-tokenizer {}, {} merges, vocab {}) on text {:?}: {}",
                    s.cfg["route"].as_str().unwrap_or("?"),
                    pre_desc(&s.cfg["pre"]),
                    cfg_merges(&s.cfg).len(),
                    s.cfg["vocab"]["kind"].as_str().unwrap_or("?"),
                    clip(&s.text),
                    sdetail
                );
                rep.violation(s.signature(kind), summary, s.to_json());
            } else if o.n_tokens * 2 < text.len() && classes.len() >= 3 && rep.wants_sample() {
                rep.sample(|| json!({"pre": pre_desc(&cfg["pre"]), "route": cfg["route"], "merges": cfg_merges(cfg).len(), "text": text, "tokens": o.n_tokens, "bytes": text.len()}));
            }
        }
        Err(e) => rep.count(&format!("no_result:{}", panic_class(&e))),
    }
}

fn count_cfg(rep: &mut Report, cfg: &Json) {
    rep.count("tokenizer_configs");
    rep.count(&format!("cfg_route_{}", cfg["route"].as_str().unwrap_or("?")));
    rep.count(&format!("cfg_vocab_{}", cfg["vocab"]["kind"].as_str().unwrap_or("?")));
    rep.count(&format!("cfg_pre_{}", cfg["pre"]["t"].as_str().unwrap_or("none")));
    if cfg["pre"]["t"] == "split" {
        rep.count(if cfg["pre"]["isolate"] == true { "cfg_pre_split_isolate" } else { "cfg_pre_split_remove_covering" });
    }
    if !cfg_added(cfg).is_empty() {
        rep.count("cfg_with_added_tokens");
    }
    if cfg["ignore_merges"] == true {
        rep.count("cfg_ignore_merges");
    }
    if !cfg["norm"].is_null() {
        rep.count("cfg_with_identity_normalizer");
    }
    rep.add("merge_rules_total", cfg_merges(cfg).len() as u64);
}

pub fn run(args: &Args) {
    let mut rep = Report::new(
        "C27",
        "textcheck c27",
        args,
        "byte-level Bpe tokenizers whose merge tables come from a real BPE trainer (in the harness) run on random corpora (0-160 rules); default, default-id explicit and shuffled explicit vocabularies; built through Bpe::new+Tokenizer::new or Tokenizer::from_json (tuple and legacy merge lists); pre-tokenizers none / GPT-2 split / Digits / custom Split patterns (Isolate with arbitrary patterns incl. empty-matching ones, Remove only with patterns that match every character) / ByteLevel(use_regex) / Sequences; added tokens, ignore_merges with whole-word vocabulary entries, empty end-of-word suffix, optional normalizer that leaves the given text unchanged; texts: random Unicode (ASCII, controls, combining marks, astral, CJK, Hangul, RTL, compatibility characters), special-token text alone and embedded, empty, long runs of one character; checks decode(encode(t).token_ids())==t, every token offset <= t.len(), on a character boundary, non-decreasing, and text_for_token_range(i..i+1) slices concatenating to t; panics/regex errors are counted as no result; non-trivial = fewer tokens than bytes (a merge or whole-word lookup applied) and a multi-byte character present; distinct by (config, text)",
    );
    if let Some(path) = &args.replay {
        let w = load_witness(path);
        let cfg = w["cfg"].clone();
        match catch(|| build_tokenizer(&cfg)) {
            Ok(Ok(t)) => {
                run_text(&mut rep, &t, &cfg, &jstr(&w, "text"));
                rep.nontrivial(&0u8);
                rep.nontrivial(&1u8);
            }
            other => rep.inconclusive = Some(format!("cannot build tokenizer: {:?}", other.map(|r| r.err()))),
        }
        rep.finish();
        return;
    }

    // ---- pinned cases: every pre-tokenizer family on a fixed set of texts.
    let pinned_texts = ["\n", "", "a", "a\nb", "the cat", " the  cat\n\nis in the bed ", "é", "e\u{0301}", "😀", "中文", "שלום", "<|endoftext|>", "it's 123"];
    let pinned_merges = train_bpe(&corpus_words(" the cat is in the bed that they're then there"), 12);
    for pre in [
        json!({"t": "bytelevel", "use_regex": false}),
        Json::Null,
        json!({"t": "gpt2"}),
        json!({"t": "digits", "individual": true}),
        json!({"t": "bytelevel", "use_regex": true}),
        json!({"t": "split", "pattern": r"\s+", "invert": false, "isolate": true}),
    ] {
        for merges in [vec![], pinned_merges.clone()] {
            let route = if pre_needs_json(&pre) { "json" } else { "direct" };
            let cfg = json!({
                "model": "bpe", "merges": merges.iter().map(|(a, b)| json!([a, b])).collect::<Vec<_>>(),
                "vocab": {"kind": "default_ids", "seed": 0}, "extra_vocab": [], "added": [], "added_in_vocab": false,
                "ignore_merges": false, "eow_empty": false, "pre": pre, "norm": null, "route": route, "cls": null, "sep": null,
            });
            if let Ok(Ok(t)) = catch(|| build_tokenizer(&cfg)) {
                for text in pinned_texts {
                    run_text(&mut rep, &t, &cfg, text);
                }
            }
        }
    }
    rep.add("pinned_cases", rep.evaluations);

    // ---- random part
    let mut rng = Rng::derive(args.seed, 0xC27_0000 + args.shard as u64);
    let n_cfg = args.budget(4_000, 200_000);
    for _ in 0..n_cfg {
        let cfg = rand_cfg(&mut rng);
        let tok = match catch(|| build_tokenizer(&cfg)) {
            Ok(Ok(t)) => t,
            Ok(Err(e)) => {
                rep.count(&format!("tokenizer_build_failed:{}", panic_class(&e)));
                continue;
            }
            Err(p) => {
                rep.count(&format!("tokenizer_build_panicked:{}", panic_class(&p)));
                continue;
            }
        };
        count_cfg(&mut rep, &cfg);
        let added = cfg_added(&cfg);
        for k in 0..12 {
            let (text, shape) = if k == 0 && !added.is_empty() {
                (added[0].1.clone(), "added_token_text")
            } else {
                let max_chars = if rng.chance(1, 8) { 400 } else { 40 };
                rand_text(&mut rng, max_chars, 6000)
            };
            rep.count(&format!("text_shape_{}", shape));
            run_text(&mut rep, &tok, &cfg, &text);
        }
    }
    rep.finish();
}
