//! C28: `Bpe` merging vs the reference procedure (lowest rank, leftmost, one
//! occurrence at a time), observed through `Tokenizer::encode`.
use std::collections::HashMap;

use vcommon::*;

use crate::tgen::*;
use crate::tokcfg::*;

const UNIVERSE: [&str; 5] = ["a", "b", "ab", "ba", "aa"];

/// The pinned witness from DESIGN (evaluated first in every run).
fn canonical_rules() -> Vec<(String, String)> {
    vec![("ab".into(), "a".into()), ("a".into(), "b".into())]
}
const CANONICAL_INPUT: &str = "abab";

fn rules_sig(rules: &[(String, String)]) -> String {
    let items: Vec<String> = rules.iter().map(|(a, b)| format!("({},{})>{}{}", esc(a), esc(b), esc(a), esc(b))).collect();
    format!("[{}]", items.join(","))
}

fn cfg_for(rules: &[(String, String)], vocab_kind: &str) -> Json {
    // Explicit vocabularies contain every operand (as "extra" entries) so
    // that the constructor accepts any table over the universe.
    let mut extra: Vec<String> = Vec::new();
    for (a, b) in rules {
        for s in [a, b] {
            if s.chars().count() > 1 && !extra.contains(s) {
                extra.push(s.clone());
            }
        }
    }
    json!({
        "model": "bpe",
        "merges": rules.iter().map(|(a, b)| json!([a, b])).collect::<Vec<_>>(),
        "vocab": {"kind": vocab_kind, "seed": 28},
        "extra_vocab": if vocab_kind == "default" { vec![] } else { extra },
        "added": [], "added_in_vocab": false, "ignore_merges": false, "eow_empty": false,
        "pre": null, "norm": null, "route": "direct", "cls": null, "sep": null,
    })
}

/// A tokenizer plus what is needed to map reference pieces to ids.
struct Built {
    tok: rten_text::Tokenizer,
    /// piece string -> id for explicit vocabularies (None: compare strings).
    vocab: Option<HashMap<String, u32>>,
}

fn build(rules: &[(String, String)], vocab_kind: &str) -> Result<Built, String> {
    let cfg = cfg_for(rules, vocab_kind);
    let tok = catch(|| build_tokenizer(&cfg)).map_err(|p| format!("panic: {}", p))??;
    Ok(Built { tok, vocab: bpe_vocab(&cfg).map(|v| v.into_iter().collect()) })
}

#[derive(Debug)]
struct Outcome {
    expected: Vec<String>,
    got: Vec<String>,
    got_ids: Vec<u32>,
    applied: usize,
    /// Some(description) when the implementation disagrees with the reference.
    disagreement: Option<String>,
}

/// Run one (table, input). `input` is text whose bytes are the base symbols.
fn run_one(b: &Built, rules: &[(String, String)], input: &str) -> Result<Outcome, String> {
    let syms: Vec<String> = input.as_bytes().iter().map(|x| byte_chars()[*x as usize].to_string()).collect();
    let (expected, applied) = ref_bpe(&syms, rules);
    let got_ids: Vec<u32> = catch(|| b.tok.encode(input, None).map(|e| e.token_ids().to_vec()).map_err(|e| format!("{:?}", e))).map_err(|p| format!("panic: {}", p))??;
    let got: Vec<String> = b.tok.model().get_tokens(&got_ids).map_err(|e| format!("get_tokens: {:?}", e))?;
    let mut disagreement = None;
    match &b.vocab {
        Some(v) => {
            // "then maps pieces through the vocabulary": compare ids.
            let exp_ids: Option<Vec<u32>> = expected.iter().map(|p| v.get(p).copied()).collect();
            match exp_ids {
                Some(ids) => {
                    if ids != got_ids {
                        disagreement = Some(format!("expected ids {:?} (pieces {:?}), got ids {:?} (pieces {:?})", ids, expected, got_ids, got));
                    }
                }
                None => return Err("reference piece missing from the harness vocabulary".into()),
            }
        }
        None => {
            if expected != got {
                disagreement = Some(format!("expected pieces {:?}, got pieces {:?} (ids {:?})", expected, got, got_ids));
            }
        }
    }
    Ok(Outcome { expected, got, got_ids, applied, disagreement })
}

/// Remove rules and input symbols while the disagreement persists.
fn shrink(rules: &[(String, String)], input: &str, vocab_kind: &str) -> (Vec<(String, String)>, String) {
    let mut rules = rules.to_vec();
    let mut input = input.to_string();
    let mut budget = 400usize;
    let still = |r: &[(String, String)], t: &str, budget: &mut usize| -> bool {
        if *budget == 0 {
            return false;
        }
        *budget -= 1;
        match build(r, vocab_kind) {
            Ok(b) => matches!(run_one(&b, r, t), Ok(o) if o.disagreement.is_some()),
            Err(_) => false,
        }
    };
    loop {
        let mut progressed = false;
        let mut i = 0;
        while i < rules.len() {
            let mut cand = rules.clone();
            cand.remove(i);
            if still(&cand, &input, &mut budget) {
                rules = cand;
                progressed = true;
            } else {
                i += 1;
            }
        }
        let mut i = 0;
        while i < input.len() {
            if !input.is_char_boundary(i) {
                i += 1;
                continue;
            }
            let ch_len = input[i..].chars().next().unwrap().len_utf8();
            let cand = format!("{}{}", &input[..i], &input[i + ch_len..]);
            if still(&rules, &cand, &mut budget) {
                input = cand;
                progressed = true;
            } else {
                i += ch_len;
            }
        }
        if !progressed || budget == 0 {
            break;
        }
    }
    (rules, input)
}

struct Ctx {
    /// Whether the pinned canonical case disagreed in this run.
    canonical_fired: bool,
    folded_examples: Vec<Json>,
}

fn witness(rules: &[(String, String)], input: &str, vocab_kind: &str, o: &Outcome) -> Json {
    json!({
        "rules": rules.iter().map(|(a, b)| json!([a, b])).collect::<Vec<_>>(),
        "input": input,
        "vocab": vocab_kind,
        "expected_pieces": o.expected,
        "got_pieces": o.got,
        "got_ids": o.got_ids,
        "properly_ordered": properly_ordered(rules),
    })
}

fn report_disagreement(rep: &mut Report, ctx: &mut Ctx, rules: &[(String, String)], input: &str, vocab_kind: &str, got: &[String]) {
    rep.count("disagreements_raw");
    // Known mechanism, decided on the unshrunk case: the output is exactly
    // what "merge all occurrences of the best pair per sweep" gives and the
    // table is not in an order a trainer can emit. Folded into the pinned
    // witness's signature without shrinking.
    let is_pinned = rules == canonical_rules().as_slice() && input == CANONICAL_INPUT && vocab_kind != "default";
    if ctx.canonical_fired && !is_pinned && !properly_ordered(rules) {
        let syms: Vec<String> = input.as_bytes().iter().map(|x| byte_chars()[*x as usize].to_string()).collect();
        if sweep_bpe(&syms, rules) == got {
            rep.count("disagreement_class:sweep_vs_single|order=improper");
            rep.count("folded_into_pinned_signature");
            if ctx.folded_examples.len() < 12 && rules.len() <= 3 {
                let (expected, _) = ref_bpe(&syms, rules);
                ctx.folded_examples.push(json!({"rules": rules_sig(rules), "input": input, "expected": expected, "got": got}));
            }
            return;
        }
    }
    let done = *rep.counters.get("disagreements_shrunk").unwrap_or(&0);
    if done >= 80 || rep.n_violations() >= rep.max_violations {
        rep.count("disagreements_not_shrunk");
        return;
    }
    rep.count("disagreements_shrunk");
    let (srules, sinput) = shrink(rules, input, vocab_kind);
    let Ok(b) = build(&srules, vocab_kind) else { return };
    let Ok(o) = run_one(&b, &srules, &sinput) else { return };
    let Some(detail) = o.disagreement.clone() else { return };
    let proper = properly_ordered(&srules);
    let syms: Vec<String> = sinput.as_bytes().iter().map(|x| byte_chars()[*x as usize].to_string()).collect();
    let explained_by_sweep = sweep_bpe(&syms, &srules) == o.got;
    let class = if !proper && explained_by_sweep { "sweep_vs_single|order=improper" } else if explained_by_sweep { "sweep_vs_single|order=proper" } else { "other" };
    rep.count(&format!("disagreement_class:{}", class));
    let is_canonical = srules == canonical_rules() && sinput == CANONICAL_INPUT && vocab_kind != "default";
    if class == "sweep_vs_single|order=improper" && ctx.canonical_fired && !is_canonical {
        // Same mechanism as the pinned witness and only reachable with a
        // table no trainer can emit: folded into the pinned signature.
        rep.count("folded_into_pinned_signature");
        if ctx.folded_examples.len() < 12 {
            let ex = json!({"rules": rules_sig(&srules), "input": sinput, "expected": o.expected, "got": o.got});
            if !ctx.folded_examples.contains(&ex) {
                ctx.folded_examples.push(ex);
            }
        }
        return;
    }
    let sig = if class == "other" {
        format!("C28|rules={}|input={}", rules_sig(&srules), esc(&sinput))
    } else {
        format!("C28|class={}|rules={}|input={}", class, rules_sig(&srules), esc(&sinput))
    };
    let summary = format!(
        "Bpe with merge table {} encodes {:?} differently from the reference procedure (lowest rank, leftmost, one occurrence at a time): {}. Table properly ordered (every multi-symbol operand produced by an earlier rule, i.e. a trainer could emit it): {}. Output equals the GPT-2 'merge all occurrences of the best pair per sweep' procedure: {}.",
        rules_sig(&srules), sinput, detail, proper, explained_by_sweep
    );
    rep.violation(sig, summary, witness(&srules, &sinput, vocab_kind, &o));
}

fn check_table(rep: &mut Report, ctx: &mut Ctx, rules: &[(String, String)], inputs: &[String], vocab_kind: &str, origin: &str) {
    rep.count(&format!("tables_{}_{}", origin, vocab_kind));
    let b = match build(rules, vocab_kind) {
        Ok(b) => b,
        Err(e) => {
            rep.count(&format!("tables_rejected_{}", vocab_kind));
            rep.count(&format!("reject_reason:{}", panic_class(e.split('"').next().unwrap_or(""))));
            return;
        }
    };
    rep.count(&format!("tables_accepted_{}", vocab_kind));
    if properly_ordered(rules) {
        rep.count("tables_properly_ordered");
    }
    for input in inputs {
        rep.eval();
        match run_one(&b, rules, input) {
            Ok(o) => {
                rep.add("reference_merges_applied", o.applied as u64);
                rep.add("tokens_compared", o.got_ids.len() as u64);
                if o.applied > 0 {
                    rep.nontrivial(&(rules, input.as_str(), vocab_kind));
                    rep.max("max_merges_in_one_input", o.applied as u64);
                }
                if o.disagreement.is_some() {
                    report_disagreement(rep, ctx, rules, input, vocab_kind, &o.got);
                } else if o.applied >= 3 && rep.wants_sample() {
                    rep.sample(|| json!({"rules": rules_sig(rules), "input": input, "pieces": o.got, "ids": o.got_ids, "merges_applied": o.applied, "vocab": vocab_kind}));
                }
            }
            Err(e) => rep.count(&format!("no_result:{}", panic_class(&e))),
        }
    }
}

fn all_inputs(max_len: usize) -> Vec<String> {
    let mut out = vec![String::new()];
    for len in 1..=max_len {
        for bits in 0..(1u32 << len) {
            out.push((0..len).map(|i| if bits >> i & 1 == 0 { 'a' } else { 'b' }).collect());
        }
    }
    out
}

fn all_tables(max_rules: usize) -> Vec<Vec<(String, String)>> {
    let pairs: Vec<(String, String)> = UNIVERSE.iter().flat_map(|a| UNIVERSE.iter().map(move |b| (a.to_string(), b.to_string()))).collect();
    let mut out: Vec<Vec<(String, String)>> = vec![vec![]];
    let mut frontier: Vec<Vec<usize>> = vec![vec![]];
    for _ in 0..max_rules {
        let mut next = Vec::new();
        for t in &frontier {
            for p in 0..pairs.len() {
                if !t.contains(&p) {
                    let mut n = t.clone();
                    n.push(p);
                    out.push(n.iter().map(|&i| pairs[i].clone()).collect());
                    next.push(n);
                }
            }
        }
        frontier = next;
    }
    out
}

/// Random table over a larger byte alphabet. `trained`: from the trainer on a
/// random corpus; otherwise rules over random previously known symbols, in a
/// shuffled (possibly untrainable) order, possibly with several derivations of
/// the same product.
fn random_table(rng: &mut Rng) -> (Vec<(String, String)>, Vec<u8>, &'static str) {
    let pool: &[u8] = b"abcdexyz01 \n\xc3\xa9\xe4\xb8\xad";
    let k = rng.urange(2, 6);
    let mut alpha: Vec<u8> = Vec::new();
    while alpha.len() < k {
        let c = *rng.choose(pool);
        if !alpha.contains(&c) {
            alpha.push(c);
        }
    }
    if rng.chance(2, 5) {
        let words: Vec<Vec<u8>> = (0..rng.urange(3, 30)).map(|_| (0..rng.urange(1, 10)).map(|_| *rng.choose(&alpha)).collect()).collect();
        (train_bpe(&words, rng.urange(1, 12)), alpha, "trained")
    } else {
        let mut syms: Vec<String> = alpha.iter().map(|b| enc_bytes(&[*b])).collect();
        let mut rules: Vec<(String, String)> = Vec::new();
        for _ in 0..rng.urange(1, 8) {
            let a = rng.choose(&syms).clone();
            let b = rng.choose(&syms).clone();
            if rules.iter().any(|r| r.0 == a && r.1 == b) {
                continue;
            }
            let m = format!("{}{}", a, b);
            if m.chars().count() <= 6 && !syms.contains(&m) {
                syms.push(m);
            }
            rules.push((a, b));
        }
        let kind = if rng.bool() {
            rng.shuffle(&mut rules);
            "random_shuffled"
        } else {
            "random_creation_order"
        };
        (rules, alpha, kind)
    }
}

fn replay(rep: &mut Report, w: &Json) {
    let rules: Vec<(String, String)> = cfg_merges(&json!({"merges": w["rules"]}));
    let input = jstr(w, "input");
    let vocab_kind = w["vocab"].as_str().unwrap_or("default_ids").to_string();
    let mut ctx = Ctx { canonical_fired: false, folded_examples: vec![] };
    rep.eval();
    match build(&rules, &vocab_kind).and_then(|b| run_one(&b, &rules, &input)) {
        Ok(o) => {
            rep.note("replay_outcome", json!({"expected": o.expected, "got": o.got, "got_ids": o.got_ids, "disagreement": o.disagreement}));
            if o.applied > 0 {
                rep.nontrivial(&(&rules, input.as_str()));
            }
            if o.disagreement.is_some() {
                report_disagreement(rep, &mut ctx, &rules, &input, &vocab_kind, &o.got);
            }
        }
        Err(e) => rep.inconclusive = Some(format!("replayed case gave no result: {}", e)),
    }
}

pub fn run(args: &Args) {
    let mut rep = Report::new(
        "C28",
        "textcheck c28",
        args,
        "every merge table of up to R rules (distinct pairs) over operands {a,b,ab,ba,aa} with an explicit vocabulary containing all operands and products (and again with the default vocabulary, where the constructor rejects tables whose operands are not producible: counted), times every input over {a,b} up to length L (quick R=2 L=6, thorough R=3 L=7, --max-rules/--max-len to go deeper), plus random tables over larger byte alphabets (trainer-produced, random in creation order, random shuffled); each input encoded with Tokenizer::encode (no pre-tokenizer) and compared by id with a 20-line string-level reference (lowest rank, leftmost, one occurrence at a time, then vocabulary lookup); non-trivial = the reference applied at least one merge; distinct by (table, input, vocabulary kind)",
    );
    if let Some(path) = &args.replay {
        replay(&mut rep, &load_witness(path));
        rep.finish();
        return;
    }
    let mut ctx = Ctx { canonical_fired: false, folded_examples: vec![] };

    // ---- pinned canonical case first (every shard).
    {
        let rules = canonical_rules();
        if let Ok(b) = build(&rules, "default_ids") {
            if let Ok(o) = run_one(&b, &rules, CANONICAL_INPUT) {
                rep.eval();
                rep.nontrivial(&(&rules, CANONICAL_INPUT, "default_ids"));
                if o.disagreement.is_some() {
                    ctx.canonical_fired = true;
                    report_disagreement(&mut rep, &mut ctx, &rules, CANONICAL_INPUT, "default_ids", &o.got);
                }
                rep.note("pinned_case", json!({"rules": rules_sig(&rules), "input": CANONICAL_INPUT, "expected": o.expected, "got": o.got, "disagrees": o.disagreement.is_some()}));
            }
        }
    }

    // ---- bounded exhaustive part
    let max_rules = args.get_u64("max-rules", if args.thorough { 3 } else { 2 }) as usize;
    let max_len = args.get_u64("max-len", if args.thorough { 7 } else { 6 }) as usize;
    let inputs = all_inputs(max_len);
    let tables = all_tables(max_rules);
    rep.note("exhaustive_space", json!({"operands": UNIVERSE, "max_rules": max_rules, "tables": tables.len(), "max_input_len": max_len, "inputs": inputs.len(), "shards": args.shards}));
    for (i, t) in tables.iter().enumerate() {
        if i % args.shards != args.shard {
            continue;
        }
        check_table(&mut rep, &mut ctx, t, &inputs, "shuffled", "exhaustive");
        if t.len() <= 3 {
            check_table(&mut rep, &mut ctx, t, &inputs, "default", "exhaustive");
        }
    }
    // Every shard enumerates its slice (tables i % shards == shard) completely.
    rep.exhaustive = true;

    // ---- random larger alphabets
    let n_rand = args.budget(40_000, 1_000_000);
    let mut rng = Rng::derive(args.seed, 0xC28_0000 + args.shard as u64);
    for _ in 0..n_rand {
        let (rules, alpha, kind) = random_table(&mut rng);
        let inputs: Vec<String> = (0..8)
            .filter_map(|_| {
                let bytes: Vec<u8> = (0..rng.urange(0, 14)).map(|_| *rng.choose(&alpha)).collect();
                String::from_utf8(bytes).ok()
            })
            .collect();
        rep.count(&format!("random_tables_{}", kind));
        let vk = *rng.choose(&["default_ids", "shuffled", "default"]);
        check_table(&mut rep, &mut ctx, &rules, &inputs, vk, "random");
    }

    if !ctx.folded_examples.is_empty() {
        rep.note("folded_examples", Json::Array(ctx.folded_examples.clone()));
    }
    rep.finish();
}
