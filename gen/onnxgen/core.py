"""Graph builder that evaluates with numpy as it builds.

Every value has a concrete array for the *primary* input binding, so later
operators can be given compatible shapes; `evaluate` re-runs the recorded
reference functions for other input bindings.
"""
import numpy as np

from . import pb


class Invalid(Exception):
    """The operator maker could not produce a valid node here; try another."""


class Val:
    __slots__ = ("name", "dt", "arr", "kind", "decl", "noshape")

    def __init__(self, name, dt, arr, kind, decl=None):
        self.noshape = False  # graph input declared with an element type but no shape
        self.name = name
        self.dt = dt          # 'f32' 'i32' 'i64' 'bool' 'u8' 'i8' 'f64'
        self.arr = arr        # numpy array (primary binding)
        self.kind = kind      # 'input' 'init' 'node'
        self.decl = decl      # declared shape for inputs (ints / symbols)

    @property
    def shape(self):
        return tuple(self.arr.shape)

    @property
    def rank(self):
        return self.arr.ndim


# dtype a value has when it is fed to / returned by rten
RTEN_DT = {"f32": "f32", "f64": "f32", "f16": "f32", "i32": "i32", "i64": "i32", "bool": "i32", "u8": "u8", "i8": "i8"}
NP_OF_RTEN = {"f32": np.float32, "i32": np.int32, "u8": np.uint8, "i8": np.int8}


def to_rten(arr, dt):
    """Convert a numpy value of model dtype `dt` to what rten holds, or None if
    it is not representable (integers outside i32)."""
    r = RTEN_DT[dt]
    a = np.asarray(arr)
    if r == "i32":
        a64 = a.astype(np.int64)
        if a64.size and (a64.max() > 2**31 - 1 or a64.min() < -(2**31)):
            return None
        return a64.astype(np.int32)
    return a.astype(NP_OF_RTEN[r])


class Rng:
    """Thin wrapper around numpy Generator with helpers."""

    def __init__(self, seed):
        self.g = np.random.default_rng(seed)

    def below(self, n):
        return int(self.g.integers(0, n))

    def range(self, lo, hi):
        return int(self.g.integers(lo, hi + 1))

    def chance(self, num, den):
        return self.g.integers(0, den) < num

    def bool(self):
        return bool(self.g.integers(0, 2))

    def choose(self, xs):
        return xs[int(self.g.integers(0, len(xs)))]

    def shuffle(self, xs):
        xs = list(xs)
        self.g.shuffle(xs)
        return xs

    def shape(self, rank=None, max_rank=4, max_dim=4, allow_zero=False, min_rank=0):
        if rank is None:
            rank = self.range(min_rank, max_rank)
        return tuple((0 if (allow_zero and self.chance(1, 25)) else self.range(1, max_dim)) for _ in range(rank))

    def array(self, dt, shape, special=False, lo=None, hi=None, nonzero=False, positive=False):
        n = int(np.prod(shape)) if len(shape) else 1
        if dt in ("f32", "f64"):
            # multiples of 1/8 keep many operations exact
            a = self.g.integers(-32, 33, size=n).astype(np.float64) / 8.0
            if lo is not None or hi is not None:
                lo_ = -4.0 if lo is None else lo
                hi_ = 4.0 if hi is None else hi
                a = lo_ + (hi_ - lo_) * self.g.random(n)
                a = np.round(a * 64) / 64
            if positive:
                a = np.abs(a) + 0.125
            if nonzero:
                a = np.where(a == 0, 0.5, a)
            if special and n > 0:
                k = max(1, n // 4)
                idx = self.g.integers(0, n, size=k)
                pool = [np.inf, -np.inf, -0.0, 0.0] if special == "nonan" else [np.nan, np.inf, -np.inf, -0.0, 0.0]
                vals = self.g.choice(pool, size=k)
                a[idx] = vals
            return a.astype(np.float32 if dt == "f32" else np.float64).reshape(shape)
        if dt in ("i32", "i64"):
            lo_ = -9 if lo is None else lo
            hi_ = 9 if hi is None else hi
            a = self.g.integers(lo_, hi_ + 1, size=n)
            if positive:
                a = np.abs(a) + 1
            if nonzero:
                a = np.where(a == 0, 1, a)
            return a.astype(np.int32 if dt == "i32" else np.int64).reshape(shape)
        if dt == "bool":
            return (self.g.integers(0, 2, size=n) == 1).reshape(shape)
        if dt == "u8":
            return self.g.integers(0 if lo is None else lo, (255 if hi is None else hi) + 1, size=n).astype(np.uint8).reshape(shape)
        if dt == "i8":
            return self.g.integers(-128 if lo is None else lo, (127 if hi is None else hi) + 1, size=n).astype(np.int8).reshape(shape)
        raise ValueError(dt)


class GraphBuilder:
    def __init__(self, rng, opset=17, mode="dag", name="g", reuse_prob=(3, 4)):
        self.rng = rng
        self.opset = opset
        self.mode = mode              # 'single' | 'dag'
        self.name = name
        self.vals = {}                # name -> Val
        self.order = []               # value names in creation order
        self.inputs = []              # graph input names
        self.inits = []               # initializer names
        self.nodes = []               # dicts: op, domain, name, inputs, outputs, attrs, ref
        self.outputs = []
        self.counter = 0
        self.reuse_prob = reuse_prob
        self.symbols = {}             # symbol name -> primary size
        self.typed_inits = set()      # initializers written with typed fields
        self.random_roots = []        # outputs of random operators

    # ------------------------------------------------------------ naming
    def fresh(self, prefix):
        self.counter += 1
        return f"{prefix}{self.counter}"

    # ------------------------------------------------------------ values
    def add_input(self, dt, arr, decl=None, name=None):
        name = name or self.fresh("in")
        arr = np.asarray(arr, dtype=pb.DT2NP[dt])
        if decl is None:
            decl = list(arr.shape)
        v = Val(name, dt, arr, "input", list(decl))
        self.vals[name] = v
        self.order.append(name)
        self.inputs.append(name)
        return v

    def add_init(self, dt, arr, name=None, typed=False):
        name = name or self.fresh("c")
        arr = np.asarray(arr, dtype=pb.DT2NP[dt])
        v = Val(name, dt, arr, "init")
        self.vals[name] = v
        self.order.append(name)
        self.inits.append(name)
        if typed:
            self.typed_inits.add(name)
        return v

    def const(self, dt, arr):
        """Shorthand for a parameter-like initializer."""
        return self.add_init(dt, np.asarray(arr, dtype=pb.DT2NP[dt]), typed=self.rng.chance(1, 5))

    def new_data(self, dt, shape=None, as_const=None, **kw):
        """A fresh data value: graph input (usually) or initializer."""
        if shape is None:
            shape = self.rng.shape()
        arr = self.rng.array(dt, shape, **kw)
        if as_const is None:
            as_const = self.mode == "dag" and self.rng.chance(1, 4)
        if as_const:
            return self.add_init(dt, arr)
        decl = self.declare(shape)
        v = self.add_input(dt, arr, decl)
        # Some inputs carry no shape metadata at all (allowed by ONNX).
        if self.mode == "dag" and all(not isinstance(d, str) for d in decl) and self.rng.chance(1, 10):
            v.noshape = True
        return v

    def declare(self, shape):
        """Declared input shape: some dims symbolic."""
        decl = []
        for d in shape:
            if (self.mode == "dag" or getattr(self, "symbolic_inputs", False)) and self.rng.chance(1, 3):
                # Reuse a symbol of the same size or make a new one.
                same = [s for s, n in self.symbols.items() if n == d]
                if same and self.rng.bool():
                    decl.append(self.rng.choose(same))
                else:
                    s = f"s{len(self.symbols)}"
                    self.symbols[s] = d
                    decl.append(s)
            else:
                decl.append(int(d))
        return decl

    def pick(self, dt=None, shape=None, rank=None, pred=None, fresh=False, **kw):
        """An existing value matching the constraints, or a fresh one.

        dt: dtype string or tuple of acceptable dtypes. shape: exact shape.
        pred: extra predicate on Val.
        """
        dts = (dt,) if isinstance(dt, str) else dt
        if self.mode == "dag" and not fresh and self.rng.chance(*self.reuse_prob):
            cands = []
            for n in self.order:
                v = self.vals[n]
                if dts is not None and v.dt not in dts:
                    continue
                if shape is not None and v.shape != tuple(shape):
                    continue
                if rank is not None and v.rank != rank:
                    continue
                if pred is not None and not pred(v):
                    continue
                if v.arr.size > 4096:
                    continue
                cands.append(v)
            if cands:
                # Prefer recent values so that graphs are deep rather than wide.
                k = min(len(cands), 4)
                return self.rng.choose(cands[-k:]) if self.rng.chance(2, 3) else self.rng.choose(cands)
        d = self.rng.choose(list(dts)) if dts else "f32"
        if shape is None:
            if getattr(self, "big", False) and (rank is None or 1 <= rank <= 3):
                # Tensors beyond the kernels' work-splitting thresholds (a few
                # thousand elements), with axis lengths that are not powers of two.
                rk = rank if rank is not None else self.rng.range(1, 3)
                dims = {1: [(2500,), (1030,), (4099,)], 2: [(50, 30), (3, 700), (30, 50), (70, 33), (1, 2049)], 3: [(2, 50, 30), (5, 7, 61), (33, 3, 21)]}[rk]
                shape = self.rng.choose(dims)
            else:
                shape = self.rng.shape(rank=rank)
        v = self.new_data(d, tuple(shape), **kw)
        if pred is not None and not pred(v):
            raise Invalid("fresh value does not satisfy predicate")
        return v

    # ------------------------------------------------------------ nodes
    def node(self, op, inputs, ref, attrs=None, n_out=1, domain="", out_dts=None, name=None, random=False, captures=()):
        """Add a node. `inputs`: list of Val or None (omitted optional input).
        `ref(*arrays)` -> array or tuple of arrays (numpy reference).
        `captures`: values read by the node's subgraphs from this scope; their
        arrays are passed to `ref` after the inputs but they are not ONNX inputs."""
        arrays = [None if v is None else v.arr for v in inputs] + [v.arr for v in captures]
        try:
            with np.errstate(all="ignore"):
                res = ref(*arrays)
        except Invalid:
            raise
        except Exception as e:  # reference rejects these inputs
            raise Invalid(f"{op}: {type(e).__name__}: {e}")
        if not isinstance(res, (tuple, list)):
            res = (res,)
        if len(res) != n_out:
            raise Invalid(f"{op}: reference returned {len(res)} outputs, expected {n_out}")
        outs = []
        nname = name or self.fresh(op.lower() + "_")
        for i, r in enumerate(res):
            if r is None:
                outs.append(None)
                continue
            r = np.asarray(r)
            if out_dts is not None and out_dts[i] is not None:
                dt = out_dts[i]
            else:
                dt = np_to_dt(r.dtype)
            r = r.astype(pb.DT2NP[dt])
            if r.size > 20000:
                raise Invalid("output too large")
            v = Val(self.fresh("v"), dt, r, "node")
            self.vals[v.name] = v
            self.order.append(v.name)
            outs.append(v)
        # Trailing omitted inputs are dropped, inner ones become "".
        in_names = ["" if v is None else v.name for v in inputs]
        while in_names and in_names[-1] == "":
            in_names.pop()
        self.nodes.append(dict(op=op, domain=domain, name=nname, inputs=in_names,
                               outputs=["" if o is None else o.name for o in outs],
                               attrs=dict(attrs or {}), ref=ref, n_out=n_out, out_dts=out_dts, random=random,
                               captures=[v.name for v in captures], n_in=len(inputs)))
        if random:
            self.random_roots.extend(o.name for o in outs if o is not None)
        return outs[0] if n_out == 1 else outs

    # ------------------------------------------------------------ evaluation
    def evaluate(self, feeds):
        """Re-run the reference for another binding of the inputs.
        feeds: name -> array. Returns name -> array for every value, or raises."""
        env = {}
        for n in self.inits:
            env[n] = self.vals[n].arr
        for n in self.inputs:
            env[n] = np.asarray(feeds[n], dtype=pb.DT2NP[self.vals[n].dt])
        for nd in self.nodes:
            arrays = [None if i == "" else env[i] for i in nd["inputs"]]
            if nd.get("captures"):
                while len(arrays) < nd["n_in"]:
                    arrays.append(None)
                arrays += [env[c] for c in nd["captures"]]
            else:
                # Pad omitted trailing optional inputs.
                import inspect
                import types
                # Only python functions declare their optional inputs; numpy ufuncs passed
                # directly as references (np.abs, np.isnan) report unrelated parameters.
                if isinstance(nd["ref"], (types.FunctionType, types.MethodType)):
                    try:
                        nparams = len([p for p in inspect.signature(nd["ref"]).parameters.values() if p.kind in (p.POSITIONAL_ONLY, p.POSITIONAL_OR_KEYWORD)])
                        while len(arrays) < nparams:
                            arrays.append(None)
                    except (TypeError, ValueError):
                        pass
            with np.errstate(all="ignore"):
                res = nd["ref"](*arrays)
            if not isinstance(res, (tuple, list)):
                res = (res,)
            for oname, r in zip(nd["outputs"], res):
                if oname:
                    env[oname] = np.asarray(r).astype(pb.DT2NP[self.vals[oname].dt])
        return env

    # ------------------------------------------------------------ emission
    def to_onnx(self, outputs=None, value_info=False, declare_output_types=True):
        outputs = outputs or self.outputs
        nodes = [pb.node(nd["op"], nd["inputs"], nd["outputs"], nd["attrs"], nd["name"], nd["domain"]) for nd in self.nodes]
        inits = [pb.tensor(n, self.vals[n].arr, typed=(n in self.typed_inits)) for n in self.inits]
        ins = [pb.value_info(n, pb.DT2ONNX[self.vals[n].dt], None if self.vals[n].noshape else self.vals[n].decl) for n in self.inputs]
        outs = []
        for n in outputs:
            v = self.vals[n]
            if declare_output_types:
                outs.append(pb.value_info(n, pb.DT2ONNX[v.dt], None))
            else:
                outs.append(pb.f_str(1, n))
        vis = []
        if value_info:
            for n in self.order:
                v = self.vals[n]
                if v.kind == "node":
                    # Concrete sizes are only true facts about the model if no
                    # input dim is symbolic; otherwise declare the rank only.
                    shape = list(v.shape) if not self.symbols else [None] * v.rank
                    vis.append(pb.value_info(n, pb.DT2ONNX[v.dt], shape))
        g = pb.graph(self.name, nodes, inits, ins, outs, vis)
        return pb.model(g, self.opset)

    def to_subgraph(self, inputs, outputs, captured):
        """GraphProto bytes for use as a subgraph attribute. `inputs`: names of
        the subgraph's formal inputs (in order); `captured`: names that refer to
        the enclosing scope and are therefore not declared here."""
        nodes = [pb.node(nd["op"], nd["inputs"], nd["outputs"], nd["attrs"], nd["name"], nd["domain"]) for nd in self.nodes]
        inits = [pb.tensor(n, self.vals[n].arr) for n in self.inits]
        ins = [pb.value_info(n, pb.DT2ONNX[self.vals[n].dt], [None] * self.vals[n].rank) for n in inputs]
        outs = [pb.value_info(n, pb.DT2ONNX[self.vals[n].dt], None) for n in outputs]
        assert all(c in self.vals for c in captured)
        return pb.graph(self.name, nodes, inits, ins, outs)

    def topo(self):
        return [[nd["name"], list(nd["inputs"]) + list(nd.get("captures", [])), nd["outputs"], nd["op"]] for nd in self.nodes]

    def downstream_of(self, roots):
        """Names of values reachable from `roots` through nodes."""
        tainted = set(roots)
        for nd in self.nodes:
            # Shape and Size depend on the shape of their input only, which is
            # not random: shape inference may legitimately fold them.
            if nd["op"] in ("Shape", "Size"):
                continue
            if any(i in tainted for i in nd["inputs"]):
                tainted.update(o for o in nd["outputs"] if o)
        return sorted(tainted)


def np_to_dt(dtype):
    dtype = np.dtype(dtype)
    if dtype == np.float32:
        return "f32"
    if dtype == np.float64:
        return "f64"
    if dtype == np.int64:
        return "i64"
    if dtype == np.int32:
        return "i32"
    if dtype == np.bool_:
        return "bool"
    if dtype == np.uint8:
        return "u8"
    if dtype == np.int8:
        return "i8"
    if dtype == np.float16:
        return "f16"
    raise Invalid(f"unsupported numpy dtype {dtype}")


def hexs(b):
    return bytes(b).hex()


def tensor_json(name, dt, arr):
    """Pack entry for a tensor in rten's representation. None if not representable."""
    r = to_rten(arr, dt)
    if r is None:
        return None
    rdt = RTEN_DT[dt]
    return {"name": name, "dtype": rdt, "model_dtype": dt, "shape": [int(d) for d in r.shape],
            "data": np.ascontiguousarray(r).astype(r.dtype.newbyteorder("<")).tobytes().hex()}
