"""If / Loop models together with their inlined equivalents (C24; also fed to
C02/C04/C22/C25/C26).

A body is a python function that adds nodes to whichever builder it is given,
so the same body can be emitted as a subgraph (capturing parent values by name)
or inlined into the parent graph.
"""
import numpy as np

from . import emit, pb
from .core import GraphBuilder, Invalid, Rng, Val


def _add(b, x, y):
    return b.node("Add", [x, y], lambda p, q: p + q)


def _sub(b, x, y):
    return b.node("Sub", [x, y], lambda p, q: p - q)


def _mul(b, x, y):
    return b.node("Mul", [x, y], lambda p, q: p * q)


def _relu(b, x):
    return b.node("Relu", [x], lambda p: np.maximum(p, 0))


def _neg(b, x):
    return b.node("Neg", [x], lambda p: -p)


def _tanh(b, x):
    return b.node("Tanh", [x], lambda p: np.tanh(p.astype(np.float64)).astype(np.float32))


def _sigmoid(b, x):
    return b.node("Sigmoid", [x], lambda p: (1.0 / (1.0 + np.exp(-p.astype(np.float64)))).astype(np.float32))


def _matmul(b, x, y):
    return b.node("MatMul", [x, y], lambda p, q: (p.astype(np.float64) @ q.astype(np.float64)).astype(np.float32))


# Key of the body being built ("if-then-1", "loop", ...): subgraph-local constants
# are derived from it, so that the subgraph form and the inlined form of the same
# body hold the same weights while the two branches of an If hold different ones.
CUR_KEY = ["body"]


def _local_weight(b, shape):
    import zlib
    rs = np.random.RandomState(zlib.crc32(CUR_KEY[0].encode()) & 0x7FFFFFFF)
    w = np.round(rs.uniform(-2, 2, size=shape) * 8) / 8
    return b.add_init("f32", w.astype(np.float32))


BODY_OPS = {
    # name -> fn(b, a, c1, c2): `a` is the primary value (carried value or first
    # capture), c1/c2 captured parent values. The first consumer of a capture is
    # an in-place capable operator.
    "add_relu": lambda b, a, c1, c2: _relu(b, _add(b, a, c1)),
    "cap_first_inplace": lambda b, a, c1, c2: _add(b, _relu(b, c1), a),
    "mul_sub": lambda b, a, c1, c2: _sub(b, _mul(b, c1, c2), a),
    "neg_cap": lambda b, a, c1, c2: _add(b, _neg(b, c2), a),
    "tanh_chain": lambda b, a, c1, c2: _tanh(b, _add(b, _mul(b, a, c1), c2)),
    "twice": lambda b, a, c1, c2: _mul(b, _add(b, c1, c1), a),
    # Constants that live inside the subgraph: a MatMul weight (pre-packed per
    # subgraph when weight pre-packing is on) and an elementwise constant.
    "matmul_local_weight": lambda b, a, c1, c2: _add(b, _matmul(b, a, _local_weight(b, (3, 3))), c1),
    "local_const_scale": lambda b, a, c1, c2: _sub(b, _mul(b, a, _local_weight(b, (3,))), c2),
}


def sub_builder(parent, name, captured):
    """A builder for a subgraph; captured parent values are visible by name."""
    sb = GraphBuilder(parent.rng, opset=parent.opset, mode="dag", name=name, reuse_prob=(0, 1))
    sb.counter = parent.counter + 1000 * (1 + len(name))
    for v in captured:
        sb.vals[v.name] = Val(v.name, v.dt, v.arr, "input", None)
        sb.order.append(v.name)
        sb.inputs.append(v.name)
    return sb


def build_if(g, rng, spec, x, caps, inline, depth=1):
    """spec: dict(cond=bool, then=op name, else=op name, nested=bool). Returns output Val."""
    c1, c2 = caps
    chosen = spec["then"] if spec["cond"] else spec["else"]
    if inline:
        CUR_KEY[0] = f"if-{'then' if spec['cond'] else 'else'}-{depth}"
        y = BODY_OPS[chosen](g, x, c1, c2)
        if spec.get("nested") and depth > 0:
            y = build_if(g, rng, dict(spec, nested=False, then=spec["else"], **{"else": spec["then"]}), y, caps, True, depth - 1)
        return y
    cond = spec["cond_val"]
    branches = {}
    for which, opname in (("then", spec["then"]), ("else", spec["else"])):
        sb = sub_builder(g, f"{which}_branch_d{depth}", [x, c1, c2])
        CUR_KEY[0] = f"if-{which}-{depth}"
        y = BODY_OPS[opname](sb, sb.vals[x.name], sb.vals[c1.name], sb.vals[c2.name])
        if spec.get("nested") and depth > 0:
            # A nested If inside the branch, with the same condition value (captured from the top scope).
            sbc = Val(cond.name, cond.dt, cond.arr, "input", None)
            sb.vals[cond.name] = sbc
            sb.order.append(cond.name)
            sb.inputs.append(cond.name)
            inner_spec = dict(spec, nested=False, then=spec["else"], **{"else": spec["then"]})
            y = build_if(sb, rng, inner_spec, y, (sb.vals[c1.name], sb.vals[c2.name]), False, depth - 1)
        branches[which] = (sb, y)
    g.counter = max(g.counter, max(sb.counter for sb, _ in branches.values())) + 1

    def ref(cond_arr, xa, c1a, c2a):
        sb, y = branches["then" if bool(cond_arr) else "else"]
        feeds = {x.name: xa, c1.name: c1a, c2.name: c2a}
        if cond.name in sb.vals:
            feeds[cond.name] = cond_arr
        return sb.evaluate(feeds)[y.name]
    attrs = {
        "then_branch": branches["then"][0].to_subgraph([], [branches["then"][1].name], [x.name, c1.name, c2.name]),
        "else_branch": branches["else"][0].to_subgraph([], [branches["else"][1].name], [x.name, c1.name, c2.name]),
    }
    return g.node("If", [cond], ref, attrs, captures=[x, c1, c2])


def build_loop(g, rng, spec, x, caps, inline):
    """spec: dict(trip=int, stop_at=int|None, op=name, scan=bool). Returns (final carried, scan or None, executed)."""
    c1, c2 = caps
    trip, stop_at = spec["trip"], spec.get("stop_at")
    executed = trip if stop_at is None else min(trip, stop_at + 1)
    if inline:
        carried = x
        scans = []
        for _ in range(executed):
            CUR_KEY[0] = "loop"
            carried = BODY_OPS[spec["op"]](g, carried, c1, c2)
            if spec.get("scan"):
                scans.append(g.node("Unsqueeze", [_neg(g, carried), g.const("i64", np.array([0], dtype=np.int64))], lambda v, a: np.expand_dims(v, 0)))
        scan = None
        if spec.get("scan") and scans:
            scan = g.node("Concat", scans, lambda *vs: np.concatenate(vs, axis=0), {"axis": 0})
        return carried, scan, executed
    # Subgraph form.
    sb = sub_builder(g, "loop_body", [c1, c2])
    it = sb.add_input("i64", np.array(0, dtype=np.int64), [], name=sb.fresh("iter"))
    cin = sb.add_input("bool", np.array(True), [], name=sb.fresh("cond_in"))
    car = sb.add_input(x.dt, x.arr, [None] * x.rank, name=sb.fresh("carried"))
    CUR_KEY[0] = "loop"
    new = BODY_OPS[spec["op"]](sb, car, sb.vals[c1.name], sb.vals[c2.name])
    if stop_at is None:
        cout = sb.node("Identity", [cin], lambda v: v)
    else:
        cout = sb.node("Less", [it, sb.const("i64", np.array(stop_at, dtype=np.int64))], lambda a, b: a < b)
    outs = [cout.name, new.name]
    scan_v = None
    if spec.get("scan"):
        scan_v = _neg(sb, new)
        outs.append(scan_v.name)
    g.counter = max(g.counter, sb.counter) + 1
    body = sb.to_subgraph([it.name, cin.name, car.name], outs, [c1.name, c2.name])

    def ref(m, cond0, v0, c1a, c2a):
        carried, scans, c = v0, [], True if cond0 is None else bool(cond0)
        n = int(m)
        i = 0
        while i < n and c:
            env = sb.evaluate({it.name: np.array(i, dtype=np.int64), cin.name: np.array(c), car.name: carried, c1.name: c1a, c2.name: c2a})
            c = bool(env[cout.name])
            carried = env[new.name]
            if scan_v is not None:
                scans.append(env[scan_v.name])
            i += 1
        res = [carried]
        if scan_v is not None:
            res.append(np.stack(scans, axis=0) if scans else np.zeros((0,) + carried.shape, dtype=carried.dtype))
        return tuple(res)
    m = g.const("i64", np.array(trip, dtype=np.int64))
    cond0 = g.const("bool", np.array(True)) if rng.bool() else None
    n_out = 2 if spec.get("scan") else 1
    res = g.node("Loop", [m, cond0, x], ref, {"body": body}, n_out=n_out, captures=[c1, c2])
    if n_out == 1:
        return res, None, executed
    return res[0], res[1], executed


def gen_case(seed, idx):
    rng = Rng(seed * 65537 + idx)
    kind = rng.choose(["if", "if", "loop", "loop", "if_nested", "loop_in_if_parent"])
    ops = sorted(BODY_OPS)
    spec = dict(
        cond=rng.bool(), then=rng.choose(ops), **{"else": rng.choose(ops)}, nested=(kind == "if_nested"),
        trip=rng.choose([0, 1, 3]), stop_at=rng.choose([None, None, 0, 1]), op=rng.choose(ops), scan=rng.bool(),
    )
    if rng.chance(1, 4):
        # Structurally identical branches holding different local weights (node ids
        # then coincide between the two branch graphs).
        same = rng.choose(["matmul_local_weight", "matmul_local_weight", "local_const_scale"])
        spec["then"] = same
        spec["else"] = same
    if spec["trip"] == 0:
        # The shape of a scan output after zero iterations is not defined by the
        # loop body's execution; rten reports an error for it. Not generated.
        spec["scan"] = False
    reuse_after = rng.bool()          # captured value used again after the control-flow op (by-ref vs by-value capture)
    # "fused_mid": the captured value is an intermediate of a pattern the optimiser
    # fuses in the parent graph (x * sigmoid(x) -> Silu captures sigmoid(x)).
    cap_kinds = (rng.choose(["input", "node", "const", "fused_mid"]), rng.choose(["input", "node", "const", "fused_mid"]))
    sym = rng.bool()
    models = []
    for inline in (False, True):
        r2 = Rng(seed * 65537 + idx + 7)   # identical data in both variants
        g = GraphBuilder(r2, opset=17, mode="dag", name="main", reuse_prob=(0, 1))
        shape = (2, 3)
        decl = ["s0", 3] if sym else [2, 3]
        if sym:
            g.symbols["s0"] = 2
        xin = g.add_input("f32", r2.array("f32", shape), decl, name="x_in")
        x = _relu(g, xin) if r2.bool() else xin
        caps = []
        fused_outs = []
        for ci, ck in enumerate(cap_kinds):
            if ck == "input":
                caps.append(g.add_input("f32", r2.array("f32", shape), decl, name=f"cap_in{ci}"))
            elif ck == "const":
                caps.append(g.add_init("f32", r2.array("f32", shape), name=f"cap_c{ci}"))
            elif ck == "fused_mid":
                src = g.add_input("f32", r2.array("f32", shape), decl, name=f"cap_src{ci}")
                mid = _sigmoid(g, src)
                caps.append(mid)
                fused_outs.append(_mul(g, src, mid))
            else:
                src = g.add_input("f32", r2.array("f32", shape), decl, name=f"cap_src{ci}")
                caps.append(_tanh(g, src))
        outs = []
        try:
            if kind.startswith("if"):
                if not inline:
                    spec["cond_val"] = g.add_input("bool", np.array(spec["cond"]), [], name="cond")
                else:
                    g.add_input("bool", np.array(spec["cond"]), [], name="cond")   # keep the same interface
                y = build_if(g, r2, spec, x, tuple(caps), inline, depth=1 if spec["nested"] else 0)
                outs.append(y)
            elif kind == "loop":
                fin, scan, executed = build_loop(g, r2, spec, x, tuple(caps), inline)
                outs.append(fin)
                if scan is not None and executed > 0:
                    outs.append(scan)
            else:
                # a Loop whose result feeds an If in the parent
                fin, scan, executed = build_loop(g, r2, dict(spec, scan=False), x, tuple(caps), inline)
                if not inline:
                    spec["cond_val"] = g.add_input("bool", np.array(spec["cond"]), [], name="cond")
                else:
                    g.add_input("bool", np.array(spec["cond"]), [], name="cond")
                outs.append(build_if(g, r2, spec, fin, tuple(caps), inline, depth=0))
        except Invalid:
            return None
        outs.extend(fused_outs)
        if reuse_after:
            outs.append(_neg(g, caps[0]))
            if caps[1].kind == "node":
                outs.append(caps[1])   # captured parent value requested as an output
        g.outputs = [o.name for o in outs]
        models.append(g)
    cf, inl = models
    if len(cf.outputs) != len(inl.outputs):
        return None
    # Input sets: same names in both variants. The condition keeps its value.
    feeds_list = []
    for k in range(3):
        feeds = {}
        for n in cf.inputs:
            v = cf.vals[n]
            if n == "cond":
                feeds[n] = v.arr
            else:
                shp = v.shape if (k == 0 or not sym) else (rng.choose([1, 2, 4]),) + tuple(v.shape[1:])
                feeds[n] = rng.array(v.dt, shp, special=(k == 2))
        if sym and k > 0:
            b = rng.choose([1, 2, 4])
            for n in feeds:
                if n != "cond":
                    feeds[n] = rng.array("f32", (b, 3), special=(k == 2))
        feeds_list.append(feeds)
    variant = {k: v for k, v in spec.items() if k != "cond_val"}
    variant.update(kind=kind, reuse_after=reuse_after, caps=list(cap_kinds), sym=sym)
    rec = emit.record(cf, f"cf-{seed}-{idx}", "cflow", variant, cf.outputs, feeds_list, tol="model")
    if rec is None:
        return None
    inl_feeds = [{n: f[n] for n in inl.inputs} for f in feeds_list]
    alt = emit.record(inl, f"cf-{seed}-{idx}-inl", "cflow_inlined", variant, inl.outputs, inl_feeds, tol="model")
    if alt is None or len(alt["input_sets"]) != len(rec["input_sets"]):
        return None
    rec["alt_model"] = alt["model"]
    rec["alt_outputs"] = alt["outputs"]
    return rec


def gen_cflow(seed, n):
    recs = []
    idx = 0
    while len(recs) < n and idx < n * 4:
        idx += 1
        try:
            r = gen_case(seed, idx)
        except Invalid:
            r = None
        if r is not None:
            recs.append(r)
    return recs
