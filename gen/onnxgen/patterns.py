"""Fusion-pattern families for C01: for each graph rewrite in rten's optimiser
the exact pattern and a grid of near-misses, plus shape-arithmetic chains.

Every variant is an ordinary valid ONNX model; the oracle is differential
(un-optimised vs optimised), so nothing here has to know what rten fuses.
"""
import itertools
import math

import numpy as np

from . import emit
from .core import GraphBuilder, Invalid, Rng
from .ops import _conv_ref, _erf

F32 = np.float32


# ------------------------------------------------------------------ tiny DSL

def f32(x):
    return np.asarray(x, dtype=np.float32)


def add(g, a, b):
    return g.node("Add", [a, b], lambda x, y: x + y)


def _maybe_swap(g, a, b):
    """Near-miss for every family: now and then the operands of a non-commutative
    operator are exchanged (x - c -> c - x, x / c -> c / x, x ** c -> c ** x)."""
    prob = getattr(g, "swap_prob", 0)
    if prob and g.rng.chance(1, prob):
        g.swapped = getattr(g, "swapped", 0) + 1
        return b, a
    return a, b


def sub(g, a, b):
    a, b = _maybe_swap(g, a, b)
    return g.node("Sub", [a, b], lambda x, y: x - y)


def mul(g, a, b):
    return g.node("Mul", [a, b], lambda x, y: x * y)


def div(g, a, b):
    def ref(x, y):
        if np.issubdtype(x.dtype, np.integer):
            if np.any(y == 0):
                raise Invalid("div by zero")
            q = np.abs(x.astype(np.int64)) // np.abs(y.astype(np.int64))
            return (q * np.sign(x.astype(np.int64)) * np.sign(y.astype(np.int64))).astype(x.dtype)
        with np.errstate(all="ignore"):
            return (x / y).astype(x.dtype)
    a, b = _maybe_swap(g, a, b)
    return g.node("Div", [a, b], ref)


def unary(g, op, x, fn, attrs=None):
    return g.node(op, [x], lambda v: fn(v.astype(np.float64)).astype(np.float32), attrs)


def powc(g, x, c):
    x, c = _maybe_swap(g, x, c)

    def ref(a, b):
        with np.errstate(all="ignore"):
            return np.power(a.astype(np.float64), b.astype(np.float64)).astype(np.float32)
    return g.node("Pow", [x, c], ref)


def reduce_mean(g, x, axes, keepdims=1, as_input=None):
    as_input = g.opset >= 18 if as_input is None else as_input

    def ref(v, a=None):
        ax = tuple(i % v.ndim for i in axes) if axes else tuple(range(v.ndim))
        return v.astype(np.float64).mean(axis=ax, keepdims=bool(keepdims)).astype(np.float32)
    attrs = {"keepdims": keepdims}
    if as_input:
        return g.node("ReduceMean", [x, g.const("i64", np.array(axes, dtype=np.int64))], ref, attrs)
    attrs["axes"] = list(axes)
    return g.node("ReduceMean", [x], ref, attrs)


def matmul(g, a, b):
    return g.node("MatMul", [a, b], lambda x, y: np.matmul(x.astype(np.float64), y.astype(np.float64)).astype(np.float32))


def transpose(g, x, perm):
    return g.node("Transpose", [x], lambda v: np.transpose(v, perm), {"perm": list(perm)})


def softmax(g, x, axis=-1):
    def ref(v):
        z = v.astype(np.float64)
        z = z - z.max(axis=axis, keepdims=True)
        e = np.exp(z)
        return (e / e.sum(axis=axis, keepdims=True)).astype(np.float32)
    return g.node("Softmax", [x], ref, {"axis": axis})


def shape_of(g, x):
    return g.node("Shape", [x], lambda v: np.array(v.shape, dtype=np.int64))


def gather0(g, x, idx):
    iv = g.const("i64", np.array(idx, dtype=np.int64))
    return g.node("Gather", [x, iv], lambda v, i: np.take(v, i, axis=0))


def concat(g, xs, axis=0):
    return g.node("Concat", xs, lambda *vs: np.concatenate(vs, axis=axis), {"axis": axis})


def reshape(g, x, shape_val):
    def ref(v, s):
        tgt = [int(t) for t in s]
        tgt = [v.shape[i] if t == 0 else t for i, t in enumerate(tgt)]
        return v.reshape(tgt)
    return g.node("Reshape", [x, shape_val], ref)


def expand(g, x, shape_val):
    return g.node("Expand", [x, shape_val], lambda v, s: v * np.ones([int(t) for t in s], dtype=v.dtype))


def unsqueeze(g, x, axes):
    def ref(v, a):
        y = v
        for ax in sorted(int(t) % (v.ndim + len(axes)) for t in axes):
            y = np.expand_dims(y, ax)
        return y
    return g.node("Unsqueeze", [x, g.const("i64", np.array(axes, dtype=np.int64))], ref)


def cast(g, x, to):
    from . import pb
    return g.node("Cast", [x], lambda v: v.astype(pb.DT2NP[to]) if to != "bool" else v != 0, {"to": pb.DT2ONNX[to]}, out_dts=[to])


def new_builder(rng, opset=17):
    g = GraphBuilder(rng, opset=opset, mode="dag", reuse_prob=(0, 1))
    # In a third of the graphs each non-commutative operator has a 1-in-6 chance
    # of getting its operands exchanged.
    g.swap_prob = 6 if rng.chance(1, 3) else 0
    return g


def data_input(g, rng, shape, dt="f32", symbolic=None, **kw):
    """A graph input with optionally symbolic dims. symbolic: list of bools."""
    arr = rng.array(dt, shape, **kw)
    decl = []
    for i, d in enumerate(shape):
        if symbolic and symbolic[i]:
            s = f"s{len(g.symbols)}"
            g.symbols[s] = d
            decl.append(s)
        else:
            decl.append(int(d))
    return g.add_input(dt, arr, decl)


CONST_SHAPES = [(), (1,), (1, 1), (1, 1, 1, 1)]


def finish(g, rng, case_id, family, variant, outs, n_sets=3):
    g.outputs = [o.name for o in outs]
    feeds = emit.alt_bindings(g, rng, n_sets)
    return emit.record(g, case_id, family, variant, g.outputs, feeds, tol="model")


# ------------------------------------------------------------------ families

def fam_identity_arith(rng):
    """x+0, x-0, x*1, x/1 and near-misses."""
    for op, cval, cshape, side, dt, delta, extra_use, sym in itertools.product(
            ["Add", "Sub", "Mul", "Div"], ["identity"], CONST_SHAPES + ["same"], ["right", "left"],
            ["f32", "i32"], [0.0, 1e-2], [False, True], [False, True]):
        if dt == "i32" and delta:
            continue
        if rng.chance(1, 2) and (delta or extra_use or sym):
            continue  # thin the grid
        g = new_builder(rng)
        xshape = rng.choose([(3,), (2, 3), (2, 1, 3)])
        x = data_input(g, rng, xshape, dt, symbolic=[sym] * len(xshape), nonzero=True)
        if rng.bool():
            x = g.node("Neg", [x], lambda v: -v)
        ident = 0 if op in ("Add", "Sub") else 1
        val = ident + delta
        cs = xshape if cshape == "same" else cshape
        c = g.add_init(dt, np.full(cs, val, dtype=np.float32 if dt == "f32" else np.int32))
        ins = [x, c] if side == "right" else [c, x]
        try:
            y = {"Add": add, "Sub": sub, "Mul": mul, "Div": div}[op](g, *ins)
        except Invalid:
            continue
        outs = [g.node("Relu", [y], lambda v: np.maximum(v, 0)) if dt == "f32" and rng.bool() else y]
        if extra_use:
            outs.append(g.node("Abs", [x], np.abs))
        yield g, {"op": op, "const_shape": list(cs) if cshape != "same" else "same", "side": side, "dt": dt, "delta": delta,
                  "extra_use": extra_use, "sym": sym, "x_rank": len(xshape)}, outs


def fam_identity_cast(rng):
    for kind, depth, out_is_graph_output in itertools.product(["Identity", "Cast_same", "Cast_bool_from_int", "Cast_i64_from_i32"], [1, 2], [True, False]):
        g = new_builder(rng)
        dt = "f32" if kind in ("Identity", "Cast_same") else "i32"
        x = data_input(g, rng, (2, 3), dt, symbolic=[rng.bool(), False])
        y = x
        for _ in range(depth):
            if kind == "Identity":
                y = g.node("Identity", [y], lambda v: v)
            elif kind == "Cast_same":
                y = cast(g, y, "f32")
            elif kind == "Cast_bool_from_int":
                # values restricted to 0/1 so that rten's i32 representation of bool is exact
                y = cast(g, g.node("Abs", [g.node("Sign", [y], np.sign)], np.abs), "bool")
            else:
                y = cast(g, y, "i64")
        outs = [y] if out_is_graph_output else [g.node("Neg", [cast(g, y, "f32")], lambda v: -v)]
        if rng.bool():
            outs.append(x)
        yield g, {"kind": kind, "depth": depth, "direct_output": out_is_graph_output}, outs


def fam_reciprocal(rng):
    for cshape, num, dt in itertools.product(CONST_SHAPES + ["same"], [1.0, 1.0 + 1e-2, 2.0], ["f32"]):
        g = new_builder(rng)
        xshape = (2, 3)
        x = data_input(g, rng, xshape, dt, nonzero=True, symbolic=[rng.bool(), False])
        cs = xshape if cshape == "same" else cshape
        c = g.add_init(dt, np.full(cs, num, dtype=np.float32))
        yield g, {"const_shape": list(cs) if cshape != "same" else "same", "numerator": num}, [div(g, c, x)]


def fam_reduce_mean_axes(rng):
    for axes, keep, noop, opset in itertools.product([[-1], [1], [0, 1], [], [-2, -1]], [0, 1], [0, 1], [18]):
        g = new_builder(rng, opset=opset)
        x = data_input(g, rng, (2, 3, 2), symbolic=[rng.bool(), False, False])

        def ref(v, a=None, axes=axes, keep=keep, noop=noop):
            if not axes:
                if noop:
                    return v
                ax = tuple(range(v.ndim))
            else:
                ax = tuple(i % v.ndim for i in axes)
            return v.astype(np.float64).mean(axis=ax, keepdims=bool(keep)).astype(np.float32)
        attrs = {"keepdims": keep}
        if noop:
            attrs["noop_with_empty_axes"] = 1
        y = g.node("ReduceMean", [x, g.const("i64", np.array(axes, dtype=np.int64))], ref, attrs)
        yield g, {"axes": axes, "keepdims": keep, "noop": noop}, [y]


SQRT2 = math.sqrt(2.0)


def fam_gelu(rng):
    for form, half, one, order in itertools.product(["div_sqrt2", "mul_inv_sqrt2"], [0.5, 0.5 + 1e-2], [1.0, 1.0 + 1e-2], [0, 1, 2]):
        g = new_builder(rng)
        x = data_input(g, rng, (2, 4), symbolic=[rng.bool(), False])
        if form == "div_sqrt2":
            xs = div(g, x, g.add_init("f32", f32(SQRT2)))
        else:
            xs = mul(g, x, g.add_init("f32", f32(1.0 / SQRT2)))
        e = unary(g, "Erf", xs, _erf)
        e1 = add(g, e, g.add_init("f32", f32(one)))
        if order == 0:
            y = mul(g, mul(g, x, e1), g.add_init("f32", f32(half)))
        elif order == 1:
            y = mul(g, mul(g, x, g.add_init("f32", f32(half))), e1)
        else:
            y = mul(g, g.add_init("f32", f32(half)), mul(g, e1, x))
        yield g, {"form": form, "half": half, "one": one, "order": order}, [y]


def fam_approx_gelu(rng):
    for c1, c3, order in itertools.product([0.044715, 0.05], [3.0, 2.0], [0, 1]):
        g = new_builder(rng)
        x = data_input(g, rng, (2, 4), symbolic=[rng.bool(), False])
        x3 = powc(g, x, g.add_init("f32", f32(c3)))
        inner = add(g, x, mul(g, x3, g.add_init("f32", f32(c1))))
        t = unary(g, "Tanh", mul(g, g.add_init("f32", f32(math.sqrt(2.0 / math.pi))), inner) if order == 0 else
                  mul(g, inner, g.add_init("f32", f32(math.sqrt(2.0 / math.pi)))), np.tanh)
        y = mul(g, mul(g, x, g.add_init("f32", f32(0.5))), add(g, t, g.add_init("f32", f32(1.0))))
        if rng.bool():
            y = mul(g, g.add_init("f32", f32(0.5)), mul(g, x, add(g, g.add_init("f32", f32(1.0)), t)))
        yield g, {"c1": c1, "c3": c3, "order": order}, [y]


def fam_silu_swish(rng):
    sig = lambda v: 1.0 / (1.0 + np.exp(-v))
    for kind, same_input, ashape, alpha, extra_use in itertools.product(["silu", "swish"], [True, False], CONST_SHAPES, [1.0, 1.5], [False, True]):
        if kind == "silu" and (ashape != () or alpha != 1.0):
            continue
        g = new_builder(rng)
        x = data_input(g, rng, (2, 3), symbolic=[rng.bool(), False])
        z = x if same_input else data_input(g, rng, (2, 3))
        if kind == "swish":
            z = mul(g, g.add_init("f32", np.full(ashape, alpha, dtype=np.float32)), z)
        s = unary(g, "Sigmoid", z, sig)
        y = mul(g, x, s) if rng.bool() else mul(g, s, x)
        outs = [y]
        if extra_use:
            outs.append(s)  # the intermediate is also a graph output
        yield g, {"kind": kind, "same_input": same_input, "alpha_shape": list(ashape), "alpha": alpha, "sigmoid_is_output": extra_use}, outs


def fam_layernorm(rng):
    for axis, keep, sq, eps_shape, bias, rms, opset in itertools.product([-1, 1, 2, 0], [1], ["pow", "mul"], [(), (1,)], [True, False], [False, True], [17, 18]):
        if rng.chance(1, 2):
            continue
        g = new_builder(rng, opset=opset)
        x = data_input(g, rng, (2, 3, 4), symbolic=[rng.bool(), False, False])
        eps = g.add_init("f32", np.full(eps_shape, 1e-5, dtype=np.float32))
        scale = g.add_init("f32", rng.array("f32", (4,) if axis in (-1, 2) else (3, 1) if axis == 1 else (2, 1, 1)))
        if rms:
            sqv = powc(g, x, g.add_init("f32", f32(2.0))) if sq == "pow" else mul(g, x, x)
            ms = reduce_mean(g, sqv, [axis], keep)
            denom = unary(g, "Sqrt", add(g, ms, eps), np.sqrt)
            inv = div(g, g.add_init("f32", f32(1.0)), denom)
            y = mul(g, mul(g, x, inv), scale)
        else:
            mean = reduce_mean(g, x, [axis], keep)
            cen = sub(g, x, mean)
            sqv = powc(g, cen, g.add_init("f32", f32(2.0))) if sq == "pow" else mul(g, cen, cen)
            var = reduce_mean(g, sqv, [axis], keep)
            y = div(g, cen, unary(g, "Sqrt", add(g, var, eps), np.sqrt))
            y = mul(g, y, scale)
            if bias:
                y = add(g, y, g.add_init("f32", rng.array("f32", scale.shape)))
        yield g, {"axis": axis, "square": sq, "eps_shape": list(eps_shape), "bias": bias, "rms": rms, "opset": opset}, [y]


def fam_matmul_add_scale(rng):
    m, k, n = 2, 3, 4
    for bias_shape, scale_pos, scale_op, sshape, sval, side in itertools.product(
            [(n,), (1, n), (m, n), (m, 1), (), None], ["none", "lhs", "rhs", "out", "lhs+out"], ["Mul", "Div"], CONST_SHAPES, [0.5, 1.0, 2.0], ["right", "left"]):
        if rng.chance(5, 6):
            continue
        g = new_builder(rng)
        a = data_input(g, rng, (m, k), symbolic=[rng.bool(), False])
        b = data_input(g, rng, (k, n)) if rng.bool() else g.add_init("f32", rng.array("f32", (k, n)))
        sc = lambda: g.add_init("f32", np.full(sshape, sval, dtype=np.float32))
        sop0 = mul if scale_op == "Mul" else div
        sop = sop0 if side == "right" else (lambda g, v, c: sop0(g, c, v))
        aa, bb = a, b
        if "lhs" in scale_pos:
            aa = sop(g, a, sc())
        if "rhs" in scale_pos:
            bb = sop(g, b, sc())
        y = matmul(g, aa, bb)
        if "out" in scale_pos:
            y = sop(g, y, sc())
        if bias_shape is not None:
            bias = g.add_init("f32", rng.array("f32", bias_shape))
            y = add(g, y, bias) if rng.bool() else add(g, bias, y)
        yield g, {"bias_shape": None if bias_shape is None else list(bias_shape), "scale_pos": scale_pos, "scale_op": scale_op,
                  "scale_shape": list(sshape), "scale": sval, "scale_side": side}, [y]


def fam_matmul_integer_float(rng):
    for azp, bzp, scale_shape, order in itertools.product([False, True], [False, True], [(), (4,), (1, 4), (2, 1)], [0, 1]):
        g = new_builder(rng)
        a = g.add_input("u8", rng.array("u8", (2, 3)), [2, 3])
        b = g.add_init("i8", rng.array("i8", (3, 4)))
        az = g.add_init("u8", rng.array("u8", (), lo=0, hi=9)) if azp else None
        bz = g.add_init("i8", rng.array("i8", (), lo=-5, hi=5)) if bzp else None

        def ref(a, b, az=None, bz=None):
            aa = a.astype(np.int64) - (0 if az is None else int(az))
            bb = b.astype(np.int64) - (0 if bz is None else int(bz))
            return (aa @ bb).astype(np.int32)
        mi = g.node("MatMulInteger", [a, b, az, bz], ref)
        fl = cast(g, mi, "f32")
        s = g.add_init("f32", np.abs(rng.array("f32", scale_shape)) + F32(0.125))
        y = mul(g, fl, s) if order == 0 else mul(g, s, fl)
        yield g, {"a_zero": azp, "b_zero": bzp, "scale_shape": list(scale_shape), "order": order}, [y]


def fam_conv_add(rng):
    for bias_shape, order in itertools.product([(1, 2, 1, 1), (2, 1, 1), (1, 2, 3, 3), (1, 1, 1, 1), ()], [0, 1]):
        g = new_builder(rng)
        x = data_input(g, rng, (1, 2, 4, 4), symbolic=[rng.bool(), False, False, False])
        w = g.add_init("f32", rng.array("f32", (2, 2, 2, 2)))
        y = g.node("Conv", [x, w], lambda x, w: _conv_ref(x, w, None, [1, 1], (0, 0, 0, 0), [1, 1], 1).astype(np.float32), {"kernel_shape": [2, 2]})
        bias = g.add_init("f32", rng.array("f32", bias_shape))
        y = add(g, y, bias) if order == 0 else add(g, bias, y)
        yield g, {"bias_shape": list(bias_shape), "order": order}, [y]


def fam_add_softmax(rng):
    for axis, mask_shape, safe, masked in itertools.product([-1, 2, 1, 0], [(2, 3, 4), (1, 1, 4), (3, 1), ()], [False, True], [False, True]):
        g = new_builder(rng)
        qk = data_input(g, rng, (2, 3, 4), symbolic=[rng.bool(), False, False])
        if masked:
            # An attention mask that blanks out whole lanes (every entry -inf): softmax
            # yields NaN there, which the "safe softmax" tail turns into 0.
            if len(mask_shape) == 0:
                continue
            m = rng.array("f32", mask_shape)
            m = m.copy()
            m[(0,) * (len(mask_shape) - 1)] = -np.inf      # first lane along the last axis
            if mask_shape == (3, 1):
                m[1, 0] = -np.inf
            mask = g.add_init("f32", m)
        else:
            mask = data_input(g, rng, mask_shape) if rng.bool() else g.add_init("f32", rng.array("f32", mask_shape))
        y = softmax(g, add(g, qk, mask), axis)
        if safe:
            isn = g.node("IsNaN", [y], np.isnan)
            y = g.node("Where", [isn, g.add_init("f32", f32(0.0)), y], lambda c, a, b: np.where(c, a, b))
        yield g, {"axis": axis, "mask_shape": list(mask_shape), "safe": safe, "masked_lanes": masked}, [y]


def fam_transpose_consumers(rng):
    for consumer, perm, side in itertools.product(["MatMul", "Concat", "Expand", "Slice", "Split", "Add"], [(1, 0), (0, 2, 1), (2, 0, 1)], [0, 1]):
        g = new_builder(rng)
        shape = (2, 3) if len(perm) == 2 else (2, 3, 4)
        x = data_input(g, rng, shape, symbolic=[rng.bool()] + [False] * (len(shape) - 1))
        t = transpose(g, x, perm)
        tshape = t.shape
        try:
            if consumer == "MatMul":
                other = data_input(g, rng, (tshape[-1], 2)) if side == 0 else data_input(g, rng, (2, tshape[-2]))
                y = matmul(g, t, other) if side == 0 else matmul(g, other, t)
            elif consumer == "Concat":
                other = data_input(g, rng, tshape)
                y = concat(g, [t, other] if side == 0 else [other, t], axis=len(tshape) - 1)
            elif consumer == "Expand":
                y = expand(g, t, g.const("i64", np.array((2,) + tuple(tshape), dtype=np.int64)))
            elif consumer == "Slice":
                y = g.node("Slice", [t, g.const("i64", np.array([1])), g.const("i64", np.array([2**31 - 1])), g.const("i64", np.array([len(tshape) - 1 if side else 0]))],
                           lambda v, s, e, a: v[(slice(None),) * int(a[0]) + (slice(1, None),)])
            elif consumer == "Split":
                ax = 0
                n = tshape[0]
                if n < 2:
                    continue
                outs = g.node("Split", [t, g.const("i64", np.array([1, n - 1]))], lambda v, s: tuple(np.split(v, [1], axis=0)), {"axis": ax}, n_out=2)
                yield g, {"consumer": consumer, "perm": list(perm)}, list(outs)
                continue
            else:
                y = add(g, t, data_input(g, rng, tshape))
        except Invalid:
            continue
        outs = [y]
        if rng.chance(1, 3):
            outs.append(t)  # transposed value also a graph output
        yield g, {"consumer": consumer, "perm": list(perm), "side": side, "t_is_output": len(outs) == 2}, outs


def fam_shape_slice(rng):
    for sym_mask, start, end, fmt in itertools.product([(0, 0, 0), (1, 0, 0), (0, 1, 0), (1, 1, 1)], [0, 1, -2, -5], [1, 2, 3, 2**31 - 1, -1], ["slice", "shape_attrs"]):
        if rng.chance(1, 2):
            continue
        g = new_builder(rng, opset=17)
        x = data_input(g, rng, (2, 3, 4), symbolic=[bool(b) for b in sym_mask])
        if fmt == "slice":
            sh = shape_of(g, x)
            y = g.node("Slice", [sh, g.const("i64", np.array([start])), g.const("i64", np.array([end]))], lambda v, s, e: v[slice(int(s[0]), int(e[0]))])
        else:
            def ref(v, s=start, e=end):
                r = v.ndim
                s2 = max(0, min(r, s + r if s < 0 else s))
                e2 = max(0, min(r, e + r if e < 0 else e))
                return np.array(v.shape[s2:e2] if e2 > s2 else [], dtype=np.int64)
            y = g.node("Shape", [x], ref, {"start": start, "end": end})
        z = g.node("ReduceSum", [cast(g, y, "f32")], lambda v: np.sum(v.astype(np.float64), keepdims=True).astype(np.float32), {"keepdims": 1})
        yield g, {"symbolic": list(sym_mask), "start": start, "end": end, "fmt": fmt}, [y, z]


def fam_repeat_interleave(rng):
    """Unsqueeze -> Expand -> Reshape: interleave (new axis after) vs tile (new axis before)."""
    for axis, where, reps, sym_batch, use_shape_ops in itertools.product([1, 2], ["after", "before"], [2, 3], [False, True], [False, True]):
        g = new_builder(rng)
        shape = (2, 3, 2, 2)
        x = data_input(g, rng, shape, symbolic=[sym_batch, False, False, False])
        new_axis = axis + 1 if where == "after" else axis
        u = unsqueeze(g, x, [new_axis])
        tmp = list(u.shape)
        tmp[new_axis] = reps
        if use_shape_ops and sym_batch:
            # batch dim taken from Shape(x): keeps the graph valid for other batch sizes
            bdim = gather0(g, shape_of(g, x), [0])
            eshape = concat(g, [bdim, g.const("i64", np.array(tmp[1:], dtype=np.int64))])
            out_shape = list(shape)
            out_shape[axis] *= reps
            rshape = concat(g, [bdim, g.const("i64", np.array(out_shape[1:], dtype=np.int64))])
        else:
            tmp_decl = [1 if (i == 0 and sym_batch) else t for i, t in enumerate(tmp)]   # 1 keeps the input dim in Expand
            eshape = g.const("i64", np.array(tmp_decl, dtype=np.int64))
            out_shape = list(shape)
            out_shape[axis] *= reps
            out_decl = [0 if (i == 0 and sym_batch) else t for i, t in enumerate(out_shape)]  # 0 copies the input dim in Reshape
            rshape = g.const("i64", np.array(out_decl, dtype=np.int64))
        e = expand(g, u, eshape)
        y = reshape(g, e, rshape)
        yield g, {"axis": axis, "new_axis": where, "reps": reps, "sym_batch": sym_batch, "shape_ops": use_shape_ops}, [y]


def fam_gqa_matmul(rng):
    """MatMul(Q, RepeatInterleave(K)) as in grouped-query attention."""
    for where, transpose_k in itertools.product(["after", "before"], [False, True]):
        g = new_builder(rng)
        q = data_input(g, rng, (1, 4, 3, 2), symbolic=[False, False, True, False])
        kv = data_input(g, rng, (1, 2, 5, 2), symbolic=[False, False, True, False])
        na = 2 if where == "after" else 1
        u = unsqueeze(g, kv, [na])
        tmp = list(u.shape)
        tmp[na] = 2
        tmp_decl = list(tmp)
        tmp_decl[3] = 1  # keep the (symbolic) sequence dim
        e = expand(g, u, g.const("i64", np.array(tmp_decl, dtype=np.int64)))
        r = reshape(g, e, g.const("i64", np.array([1, 4, -1, 2], dtype=np.int64)))
        if transpose_k:
            kt = transpose(g, r, (0, 1, 3, 2))
            y = matmul(g, q, kt)
        else:
            w = data_input(g, rng, (1, 4, 3, 5), symbolic=[False, False, False, False])
            y = matmul(g, w, r)
        yield g, {"new_axis": where, "qk": transpose_k}, [y]


def fam_shape_arith(rng):
    """Shape -> Gather/Slice -> arithmetic with negative and zero constants ->
    Equal/Where -> Reshape/Expand/ConstantOfShape/Range."""
    consumers = ["Reshape", "Expand", "ConstantOfShape", "Range", "Equal_Where", "Tile"]
    for consumer, arith, cst, sym in itertools.product(consumers, ["none", "Add", "Sub", "Mul", "Div", "Neg", "Mul_Neg"], [-2, -1, 0, 1, 2, 3], [(1, 0), (1, 1), (0, 0)]):
        if rng.chance(3, 4):
            continue
        g = new_builder(rng)
        x = data_input(g, rng, (2, 6), symbolic=[bool(s) for s in sym])
        sh = shape_of(g, x)
        d0 = gather0(g, sh, [0])   # [2]
        d1 = gather0(g, sh, [1])   # [6]
        c = g.const("i64", np.array([cst], dtype=np.int64))
        try:
            if arith == "none":
                e = d1
            elif arith == "Add":
                e = add(g, d1, c)
            elif arith == "Sub":
                e = sub(g, d1, c) if rng.bool() else sub(g, c, d1)
            elif arith == "Mul":
                e = mul(g, d1, c)
            elif arith == "Div":
                e = div(g, d1, c)
            elif arith == "Neg":
                e = g.node("Neg", [d1], lambda v: -v)
            else:
                e = g.node("Neg", [mul(g, d1, c)], lambda v: -v)
        except Invalid:
            continue
        outs = [e]
        try:
            if consumer == "Reshape":
                # x has d0*d1 elements: reshape to [-1, k] where k = |e| if it divides
                k = abs(int(e.arr[0]))
                if k == 0 or (x.arr.size % k) != 0:
                    continue
                ae = g.node("Abs", [e], np.abs)
                tgt = concat(g, [g.const("i64", np.array([-1], dtype=np.int64)), ae])
                outs.append(reshape(g, x, tgt))
            elif consumer == "Expand":
                k = int(e.arr[0])
                if not (1 <= k <= 12):
                    continue
                tgt = concat(g, [e, g.const("i64", np.array([1, 1], dtype=np.int64))])
                outs.append(expand(g, x, tgt))
            elif consumer == "ConstantOfShape":
                k = int(e.arr[0])
                if not (0 <= k <= 12):
                    continue
                outs.append(g.node("ConstantOfShape", [concat(g, [d0, e])], lambda s: np.zeros([int(t) for t in s], dtype=np.float32)))
            elif consumer == "Range":
                k = int(e.arr[0])
                if abs(k) > 12:
                    continue
                sq = g.node("Squeeze", [e], lambda v: v.reshape(()))
                outs.append(g.node("Range", [g.const("i64", np.array(0)), sq, g.const("i64", np.array(1))],
                                   lambda s, l, d: np.arange(int(s), int(l), int(d), dtype=np.int64)))
            elif consumer == "Equal_Where":
                eq = g.node("Equal", [e, g.const("i64", np.array([cst if arith != "none" else 6], dtype=np.int64))], lambda a, b: a == b)
                ge = g.node("Greater", [e, g.const("i64", np.array([0], dtype=np.int64))], lambda a, b: a > b)
                w = g.node("Where", [eq, d0, e], lambda c_, a, b: np.where(c_, a, b))
                w2 = g.node("Where", [ge, e, g.const("i64", np.array([1], dtype=np.int64))], lambda c_, a, b: np.where(c_, a, b))
                outs.extend([eq, ge, w, w2])
            else:
                k = int(e.arr[0])
                if not (0 <= k <= 4):
                    continue
                outs.append(g.node("Tile", [x, concat(g, [g.const("i64", np.array([1], dtype=np.int64)), e])], lambda v, r: np.tile(v, [int(t) for t in r])))
        except Invalid:
            continue
        yield g, {"consumer": consumer, "arith": arith, "const": cst, "symbolic": list(sym)}, outs


def fam_const_arith(rng):
    """Arithmetic between two constants (float with integral or fractional values,
    or integer), which shape inference may fold at load time, feeding a dynamic
    consumer. Float and integer semantics differ for division and large values."""
    pairs = [(3.0, 2.0), (1.0, 2.0), (7.0, -2.0), (-7.0, 2.0), (6.0, 3.0), (0.0, 0.0), (1.0, 0.0), (0.0, 5.0), (2.5, 0.5),
             (16777216.0, 1.0), (-1.0, 3.0), (2.0, 0.5), (100.0, 7.0)]
    for op, (a, b), dt, shape_a, shape_b in itertools.product(["Div", "Add", "Sub", "Mul", "Pow", "Mod"], pairs, ["f32", "i32"], [(), (1,), (2,)], [(), (1,)]):
        if dt == "i32" and (a != int(a) or b != int(b)):
            continue
        if op in ("Pow", "Mod") and rng.chance(1, 2):
            continue
        if rng.chance(2, 3):
            continue
        g = new_builder(rng)
        g.swap_prob = 0
        npdt = np.float32 if dt == "f32" else np.int32
        c1 = g.add_init(dt, np.full(shape_a, a, dtype=npdt))
        c2 = g.add_init(dt, np.full(shape_b, b, dtype=npdt))
        try:
            if op == "Div":
                q = div(g, c1, c2)
            elif op == "Add":
                q = add(g, c1, c2)
            elif op == "Sub":
                q = sub(g, c1, c2)
            elif op == "Mul":
                q = mul(g, c1, c2)
            elif op == "Pow":
                if dt == "i32" and b < 0:
                    continue
                q = g.node("Pow", [c1, c2], lambda x, y: np.power(x.astype(np.float64), y.astype(np.float64)).astype(x.dtype))
            else:
                if b == 0:
                    continue
                attrs = {"fmod": 1} if dt == "f32" else {}
                q = g.node("Mod", [c1, c2], lambda x, y: (np.fmod(x, y) if dt == "f32" else np.mod(x, y)).astype(x.dtype), attrs)
        except Invalid:
            continue
        x = data_input(g, rng, (2, 2), dt, symbolic=[rng.bool(), False])
        y = mul(g, x, q) if rng.bool() else add(g, q, x)
        outs = [y, q] if rng.bool() else [y]
        yield g, {"op": op, "a": a, "b": b, "dt": dt, "shape_a": list(shape_a), "shape_b": list(shape_b)}, outs


FAMILIES = [
    ("const_arith", fam_const_arith),
    ("identity_arith", fam_identity_arith), ("identity_cast", fam_identity_cast), ("reciprocal", fam_reciprocal),
    ("reduce_mean_axes", fam_reduce_mean_axes), ("gelu", fam_gelu), ("approx_gelu", fam_approx_gelu), ("silu_swish", fam_silu_swish),
    ("layernorm", fam_layernorm), ("matmul_add_scale", fam_matmul_add_scale), ("matmul_integer_float", fam_matmul_integer_float),
    ("conv_add", fam_conv_add), ("add_softmax", fam_add_softmax), ("transpose_consumers", fam_transpose_consumers),
    ("shape_slice", fam_shape_slice), ("repeat_interleave", fam_repeat_interleave), ("gqa_matmul", fam_gqa_matmul), ("shape_arith", fam_shape_arith),
]


def gen_patterns(seed, rounds):
    """`rounds` passes over every family grid (each pass thins / randomises differently)."""
    recs = []
    for r in range(rounds):
        for fi, (name, fam) in enumerate(FAMILIES):
            rng = Rng(seed * 9176 + r * 131 + fi)
            k = 0
            try:
                for g, variant, outs in fam(rng):
                    k += 1
                    if getattr(g, "swapped", 0):
                        variant = dict(variant, operands_swapped=g.swapped)
                    try:
                        rec = finish(g, rng, f"pat-{name}-{seed}-{r}-{k}", name, variant, outs)
                    except Invalid:
                        continue
                    if rec is not None:
                        recs.append(rec)
            except Invalid:
                continue
    return recs
