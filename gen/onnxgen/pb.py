"""Minimal protobuf wire-format writer and the ONNX messages rten reads.

The `onnx` python package is not available in this sandbox; this writes the
same bytes. Field numbers are from onnx.proto.
"""
import struct

import numpy as np


def varint(v):
    v &= (1 << 64) - 1
    out = bytearray()
    while True:
        b = v & 0x7F
        v >>= 7
        if v:
            out.append(b | 0x80)
        else:
            out.append(b)
            return bytes(out)


def key(field, wire):
    return varint((field << 3) | wire)


def f_int(field, v):
    return key(field, 0) + varint(v)


def f_bytes(field, b):
    return key(field, 2) + varint(len(b)) + bytes(b)


def f_str(field, s):
    return f_bytes(field, s.encode("utf-8"))


def f_f32(field, v):
    return key(field, 5) + struct.pack("<f", v)


# ONNX TensorProto.DataType
FLOAT, UINT8, INT8, UINT16, INT16, INT32, INT64, STRING, BOOL, FLOAT16, DOUBLE = 1, 2, 3, 4, 5, 6, 7, 8, 9, 10, 11

NP2ONNX = {
    np.dtype("float32"): FLOAT,
    np.dtype("uint8"): UINT8,
    np.dtype("int8"): INT8,
    np.dtype("int32"): INT32,
    np.dtype("int64"): INT64,
    np.dtype("bool"): BOOL,
    np.dtype("float64"): DOUBLE,
    np.dtype("float16"): FLOAT16,
}

DT2ONNX = {"f32": FLOAT, "u8": UINT8, "i8": INT8, "i32": INT32, "i64": INT64, "bool": BOOL, "f64": DOUBLE, "f16": FLOAT16}
DT2NP = {"f32": np.float32, "u8": np.uint8, "i8": np.int8, "i32": np.int32, "i64": np.int64, "bool": np.bool_, "f64": np.float64, "f16": np.float16}


def tensor(name, arr, typed=False):
    """TensorProto. raw_data by default; typed=True uses float_data/int32_data/int64_data."""
    arr = np.asarray(arr)
    dt = NP2ONNX[arr.dtype]
    out = b"".join(f_int(1, int(d)) for d in arr.shape)
    out += f_int(2, dt)
    if name:
        out += f_str(8, name)
    flat = np.ascontiguousarray(arr).reshape(-1)
    if typed and dt == FLOAT:
        out += f_bytes(4, flat.astype("<f4").tobytes())          # float_data packed
    elif typed and dt in (INT32, INT8, UINT8, BOOL):
        out += f_bytes(5, b"".join(varint(int(v)) for v in flat))  # int32_data packed
    elif typed and dt == INT64:
        out += f_bytes(7, b"".join(varint(int(v)) for v in flat))  # int64_data packed
    elif typed and dt == DOUBLE:
        out += f_bytes(10, flat.astype("<f8").tobytes())         # double_data packed
    else:
        out += f_bytes(9, flat.astype(arr.dtype.newbyteorder("<")).tobytes())
    return out


def tensor_external(name, dtype_code, shape, location, offset, length):
    out = b"".join(f_int(1, int(d)) for d in shape)
    out += f_int(2, dtype_code) + f_str(8, name)
    for k, v in (("location", location), ("offset", str(offset)), ("length", str(length))):
        if v is not None:
            out += f_bytes(13, f_str(1, k) + f_str(2, v))
    out += f_int(14, 1)  # data_location = EXTERNAL
    return out


def value_info(name, dt_code, shape):
    """shape: None (no shape) or list of int | str (symbol) | None (unknown dim)."""
    tt = f_int(1, dt_code)
    if shape is not None:
        sh = b""
        for d in shape:
            if isinstance(d, str):
                dim = f_str(2, d)
            elif d is None:
                dim = b""
            else:
                dim = f_int(1, int(d))
            sh += f_bytes(1, dim)
        tt += f_bytes(2, sh)
    ty = f_bytes(1, tt)
    return f_str(1, name) + f_bytes(2, ty)


def value_info_seq(name, dt_code):
    """Sequence-of-tensor type: TypeProto.sequence_type = 4 { elem_type = 1 }."""
    tt = f_int(1, dt_code)
    elem = f_bytes(1, tt)
    seq = f_bytes(1, elem)
    ty = f_bytes(4, seq)
    return f_str(1, name) + f_bytes(2, ty)


class Graph(bytes):
    """Marker type: bytes of a GraphProto used as an attribute."""


def attribute(name, v):
    out = f_str(1, name)
    if isinstance(v, Graph):
        out += f_bytes(6, v) + f_int(20, 5)
    elif isinstance(v, bool):
        out += f_int(3, int(v)) + f_int(20, 2)
    elif isinstance(v, (int, np.integer)):
        out += f_int(3, int(v)) + f_int(20, 2)
    elif isinstance(v, (float, np.floating)):
        out += f_f32(2, float(v)) + f_int(20, 1)
    elif isinstance(v, str):
        out += f_bytes(4, v.encode()) + f_int(20, 3)
    elif isinstance(v, np.ndarray):
        out += f_bytes(5, tensor("", v)) + f_int(20, 4)
    elif isinstance(v, (list, tuple)):
        if len(v) > 0 and all(isinstance(x, (float, np.floating)) for x in v):
            out += b"".join(f_f32(7, float(x)) for x in v) + f_int(20, 6)
        elif len(v) > 0 and all(isinstance(x, str) for x in v):
            out += b"".join(f_bytes(9, x.encode()) for x in v) + f_int(20, 8)
        else:
            out += b"".join(f_int(8, int(x)) for x in v) + f_int(20, 7)
    else:
        raise TypeError(f"attribute {name}: {type(v)}")
    return out


def node(op_type, inputs, outputs, attrs=None, name="", domain=""):
    out = b"".join(f_str(1, i) for i in inputs)
    out += b"".join(f_str(2, o) for o in outputs)
    out += f_str(3, name) + f_str(4, op_type)
    for k, v in (attrs or {}).items():
        out += f_bytes(5, attribute(k, v))
    if domain:
        out += f_str(7, domain)
    return out


def graph(name, nodes, initializers, inputs, outputs, value_infos=()):
    out = b"".join(f_bytes(1, n) for n in nodes)
    out += f_str(2, name)
    out += b"".join(f_bytes(5, t) for t in initializers)
    out += b"".join(f_bytes(11, i) for i in inputs)
    out += b"".join(f_bytes(12, o) for o in outputs)
    out += b"".join(f_bytes(13, v) for v in value_infos)
    return Graph(out)


def model(graph_bytes, opset=17, ms_opset=True):
    out = f_int(1, 8) + f_str(2, "verif-gen")
    out += f_bytes(7, graph_bytes)
    out += f_bytes(8, f_str(1, "") + f_int(2, opset))
    if ms_opset:
        out += f_bytes(8, f_str(1, "com.microsoft") + f_int(2, 1))
    return out
