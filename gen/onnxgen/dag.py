"""Random DAG generator biased towards what the executor's bookkeeping cares
about (in-place capable ops, values consumed twice, many consumers, outputs
that are also intermediates)."""
import numpy as np

from .core import GraphBuilder, Invalid
from .ops import OPS

INPLACE_FRIENDLY = ["Add", "Sub", "Mul", "Div", "Relu", "Neg", "Abs", "Sigmoid", "Tanh", "Clip", "Reshape", "Squeeze", "Unsqueeze",
                    "Identity", "Cast", "Concat", "Slice", "Softmax", "LayerNormalization", "Exp", "Sqrt", "Where", "Flatten", "Transpose",
                    "LeakyRelu", "Erf", "Floor", "Ceil", "Max", "Min", "Pow", "BatchNormalization", "InstanceNormalization", "LogSoftmax"]


def weighted_ops(rng, names=None, bias_inplace=True):
    names = names or [n for n, o in OPS.items() if o.get("weight", 1) > 0]
    w = []
    for n in names:
        base = OPS[n].get("weight", 1)
        if bias_inplace and n in INPLACE_FRIENDLY:
            base *= 3
        w.append(base)
    w = np.array(w, dtype=np.float64)
    return names, w / w.sum()


def build_dag(rng, n_ops, opset=17, names=None, allow_random=False, bias_inplace=True):
    g = GraphBuilder(rng, opset=opset, mode="dag")
    names_, probs = weighted_ops(rng, names, bias_inplace)
    if allow_random:
        names_ = names_ + ["RandomUniform", "RandomNormalLike"]
        probs = np.concatenate([probs * 0.9, [0.05, 0.05]])
    tries = 0
    while len(g.nodes) < n_ops and tries < n_ops * 12:
        tries += 1
        name = names_[int(rng.g.choice(len(names_), p=probs))]
        snapshot = (dict(g.vals), list(g.order), list(g.inputs), list(g.inits), list(g.nodes), g.counter, dict(g.symbols), set(g.typed_inits), list(g.random_roots))
        try:
            OPS[name]["make"](g)
        except Invalid:
            g.vals, g.order, g.inputs, g.inits, g.nodes, g.counter, g.symbols, g.typed_inits, g.random_roots = snapshot
            continue
        except Exception:
            g.vals, g.order, g.inputs, g.inits, g.nodes, g.counter, g.symbols, g.typed_inits, g.random_roots = snapshot
            continue
        # Special structures the executor must get right.
        if rng.chance(1, 6) and g.nodes:
            last = g.vals[[o for o in g.nodes[-1]["outputs"] if o][0]]
            try:
                if last.dt in ("f32", "i32", "i64") and rng.bool():
                    g.node("Mul", [last, last], lambda a, b: a * b)          # same value twice
                elif last.rank >= 1:
                    g.node("Concat", [last, last], lambda a, b: np.concatenate([a, b], axis=0), {"axis": 0})
            except Invalid:
                pass
    if not g.nodes:
        return None
    # Outputs: leaves, plus sometimes an intermediate that is also consumed,
    # an input, or a constant.
    consumed = {i for nd in g.nodes for i in nd["inputs"] if i}
    produced = [o for nd in g.nodes for o in nd["outputs"] if o]
    leaves = [o for o in produced if o not in consumed]
    outs = list(leaves)
    inter = [o for o in produced if o in consumed]
    if inter and rng.chance(1, 3):
        outs.append(rng.choose(inter))
    if g.inputs and rng.chance(1, 8):
        outs.append(rng.choose(g.inputs))
    if g.inits and rng.chance(1, 8):
        outs.append(rng.choose(g.inits))
    outs = rng.shuffle(list(dict.fromkeys(outs)))
    g.outputs = outs
    return g
