"""Case-pack records (one JSON object per line)."""
import json

import numpy as np

from . import pb
from .core import RTEN_DT, hexs, tensor_json, to_rten


def alt_bindings(g, rng, n_sets, special=True):
    """Additional input bindings: other sizes for symbolic dims (incl. 0 and 1),
    other values (incl. NaN/inf)."""
    sets = []
    for k in range(n_sets):
        sym = {}
        for s, n in g.symbols.items():
            sym[s] = n if k == 0 else rng.choose([n, n, 1, 0, rng.range(1, 5)])
        feeds = {}
        for name in g.inputs:
            v = g.vals[name]
            shape = tuple(sym[d] if isinstance(d, str) else d for d in v.decl)
            if v.dt in ("i64", "i32") and v.arr.size and (np.abs(v.arr).max() <= 16) and v.rank <= 2 and k > 0 and shape == v.shape:
                # index-like inputs: keep values (they were generated to be in range)
                feeds[name] = v.arr
            elif v.dt in ("i64", "i32"):
                feeds[name] = v.arr if shape == v.shape else rng.array(v.dt, shape)
            else:
                feeds[name] = rng.array(v.dt, shape, special=(special and rng.chance(1, 3)))
        sets.append(feeds)
    return sets


def record(g, case_id, family, variant, outputs, feeds_list, tol="model", extra=None):
    """Build the pack record. feeds_list[0] should be the primary binding."""
    tensors = []
    input_sets = []
    expected = []
    for feeds in feeds_list:
        try:
            env = g.evaluate(feeds)
        except Exception:
            continue
        idxs = []
        ok = True
        for name in g.inputs:
            t = tensor_json(name, g.vals[name].dt, feeds[name])
            if t is None:
                ok = False
                break
            tensors.append(t)
            idxs.append(len(tensors) - 1)
        if not ok:
            continue
        exp = {}
        for name in g.order:
            if name in env:
                exp[name] = tensor_json(name, g.vals[name].dt, env[name])
        input_sets.append(idxs)
        expected.append(exp)
    if not input_sets:
        return None
    tainted = set(g.downstream_of(g.random_roots)) if g.random_roots else set()
    rec = {
        "id": case_id,
        "family": family,
        "variant": variant,
        "opset": g.opset,
        "model": hexs(g.to_onnx(outputs)),
        "model_vi": hexs(g.to_onnx(outputs, value_info=True)),
        "inputs": tensors,
        "input_names": list(g.inputs),
        "input_decl": {n: (None if g.vals[n].noshape else g.vals[n].decl) for n in g.inputs},
        "input_sets": input_sets,
        "outputs": list(outputs),
        "internals": [n for n in g.order if g.vals[n].kind == "node"],
        "topo": g.topo(),
        "initializers": list(g.inits),
        "random_downstream": sorted(tainted),
        # expected[k][name]: numpy result for input set k, None if not representable
        "expected": [{n: e[n] for n in e if (g.vals[n].kind != "input")} for e in expected],
        "tol": tol,
        "dtypes": {n: RTEN_DT[g.vals[n].dt] for n in g.order},
    }
    if extra:
        rec.update(extra)
    return rec


def write_jsonl(path, records):
    with open(path, "w") as f:
        for r in records:
            f.write(json.dumps(r, separators=(",", ":")))
            f.write("\n")
