"""Operator catalogue: for each ONNX operator a maker that adds one node to a
GraphBuilder with sampled attributes/inputs, and a deliberately naive numpy
reference transcribed from the ONNX operator specification.

tol classes (see harness): 'exact' | 'math' (elementwise transcendental) |
'accum' (sums of products / reductions).
"""
import math

import numpy as np

from .core import Invalid

OPS = {}  # name -> dict(make=fn, tol=..., c15=bool, inplace=bool)


def op(name, tol="exact", c15=True, weight=1, cases=1):
    def deco(fn):
        OPS[name] = dict(make=fn, tol=tol, c15=c15, weight=weight, name=name, cases=cases)
        return fn
    return deco


F = ("f32",)
I = ("i32", "i64")
NUM = ("f32", "i32", "i64")


def i64(*xs):
    return np.array(xs, dtype=np.int64)


def bshape(g, shape):
    """A shape that broadcasts with `shape` (numpy rules), possibly lower rank."""
    r = g.rng
    shape = list(shape)
    k = r.range(0, len(shape))
    sub = shape[len(shape) - k:]
    sub = [1 if r.chance(1, 3) else d for d in sub]
    if r.chance(1, 6):
        sub = [r.range(1, 3)] + sub if len(sub) < 5 else sub
        # the extra leading dim must broadcast: fine for any size since other side lacks it
    return tuple(sub)


# ------------------------------------------------------------------ unary float

def _unary(name, fn, dts=F, tol="math", domain_lo=None, domain_hi=None, positive=False, attrs_fn=None, c15=True, special_ok=True):
    def make(g):
        kw = {}
        if domain_lo is not None or domain_hi is not None:
            kw.update(lo=domain_lo, hi=domain_hi)
        if positive:
            kw.update(positive=True)
        x = g.pick(dt=dts, **kw)
        if (domain_lo is not None or positive) and x.kind == "node":
            # reused values may be outside the domain: still fine (NaN results compare as NaN)
            pass
        attrs = attrs_fn(g) if attrs_fn else {}
        f = fn(attrs) if attrs_fn else fn
        return g.node(name, [x], f, attrs)
    OPS[name] = dict(make=make, tol=tol, c15=c15, weight=1, name=name)


def f32fn(f):
    """Evaluate in float64 and round to float32 (closest to correctly rounded)."""
    def w(x):
        if x.dtype == np.float32:
            return f(x.astype(np.float64)).astype(np.float32)
        return f(x)
    return w


_unary("Abs", lambda x: np.abs(x), dts=NUM, tol="exact")
_unary("Neg", lambda x: -x, dts=NUM, tol="exact")
_unary("Sign", lambda x: np.sign(x), dts=NUM, tol="exact")
_unary("Ceil", lambda x: np.ceil(x), tol="exact")
_unary("Floor", lambda x: np.floor(x), tol="exact")
_unary("Round", lambda x: np.round(x), tol="exact")  # numpy rounds half to even, as ONNX
_unary("Relu", lambda x: np.maximum(x, 0), dts=NUM, tol="exact")
_unary("Reciprocal", f32fn(lambda x: 1.0 / x), tol="math")
_unary("Sqrt", f32fn(np.sqrt), tol="math")
_unary("Exp", f32fn(np.exp), tol="math")
_unary("Log", f32fn(np.log), tol="math")
_unary("Sin", f32fn(np.sin), tol="math")
_unary("Cos", f32fn(np.cos), tol="math")
_unary("Tan", f32fn(np.tan), tol="math", domain_lo=-1.4, domain_hi=1.4)
_unary("Asin", f32fn(np.arcsin), tol="math", domain_lo=-1.0, domain_hi=1.0)
_unary("Acos", f32fn(np.arccos), tol="math", domain_lo=-1.0, domain_hi=1.0)
_unary("Atan", f32fn(np.arctan), tol="math")
_unary("Sinh", f32fn(np.sinh), tol="math")
_unary("Cosh", f32fn(np.cosh), tol="math")
_unary("Tanh", f32fn(np.tanh), tol="math")
_unary("Asinh", f32fn(np.arcsinh), tol="math")
_unary("Acosh", f32fn(np.arccosh), tol="math", domain_lo=1.0, domain_hi=6.0)
_unary("Atanh", f32fn(np.arctanh), tol="math", domain_lo=-0.95, domain_hi=0.95)
_unary("Sigmoid", f32fn(lambda x: 1.0 / (1.0 + np.exp(-x))), tol="math")
_unary("Softplus", f32fn(lambda x: np.log1p(np.exp(-np.abs(x))) + np.maximum(x, 0)), tol="math")
_unary("HardSwish", f32fn(lambda x: x * np.maximum(0, np.minimum(1, x / 6.0 + 0.5))), tol="math")


def _erf(x):
    return np.vectorize(math.erf, otypes=[np.float64])(x)


_unary("Erf", f32fn(_erf), tol="math")
_unary("Not", lambda x: np.logical_not(x), dts=("bool",), tol="exact")
_unary("IsNaN", lambda x: np.isnan(x), tol="exact")
_unary("Identity", lambda x: x, dts=NUM + ("bool", "u8", "i8"), tol="exact")


def _isinf_attrs(g):
    a = {}
    if g.rng.bool():
        a["detect_negative"] = int(g.rng.bool())
    if g.rng.bool():
        a["detect_positive"] = int(g.rng.bool())
    return a


_unary("IsInf", lambda a: (lambda x: (np.isposinf(x) & bool(a.get("detect_positive", 1))) | (np.isneginf(x) & bool(a.get("detect_negative", 1)))),
       tol="exact", attrs_fn=_isinf_attrs)
_unary("Elu", lambda a: f32fn(lambda x: np.where(x < 0, a.get("alpha", 1.0) * (np.exp(x) - 1.0), x)), tol="math",
       attrs_fn=lambda g: ({"alpha": float(g.rng.choose([0.5, 1.0, 2.0]))} if g.rng.bool() else {}))
_unary("LeakyRelu", lambda a: f32fn(lambda x: np.where(x < 0, np.float32(a.get("alpha", 0.01)).astype(np.float64) * x, x)), tol="math",
       attrs_fn=lambda g: ({"alpha": float(g.rng.choose([0.1, 0.25, 0.5]))} if g.rng.bool() else {}))
_unary("HardSigmoid", lambda a: f32fn(lambda x: np.maximum(0, np.minimum(1, np.float32(a.get("alpha", 0.2)).astype(np.float64) * x + np.float32(a.get("beta", 0.5)).astype(np.float64)))), tol="math",
       attrs_fn=lambda g: ({"alpha": float(g.rng.choose([0.2, 0.25])), "beta": float(g.rng.choose([0.5, 0.25]))} if g.rng.bool() else {}))


def _gelu(a):
    def f(x):
        if a.get("approximate", "none") == "tanh":
            return 0.5 * x * (1.0 + np.tanh(np.sqrt(2.0 / np.pi) * (x + 0.044715 * x ** 3)))
        return 0.5 * x * (1.0 + _erf(x / np.sqrt(2.0)))
    return f32fn(f)


def _mk_gelu(g):
    x = g.pick(dt=F)
    a = {"approximate": "tanh"} if g.rng.bool() else {}
    if g.opset < 20:
        raise Invalid("Gelu needs opset 20")
    return g.node("Gelu", [x], _gelu(a), a)


OPS["Gelu"] = dict(make=_mk_gelu, tol="math", c15=True, weight=1, name="Gelu")


@op("Clip", tol="exact")
def mk_clip(g):
    x = g.pick(dt=("f32", "i32"))
    lo = hi = None
    if g.rng.chance(2, 3):
        lo = g.const(x.dt, g.rng.array(x.dt, ()))
    if g.rng.chance(2, 3):
        hi = g.const(x.dt, g.rng.array(x.dt, ()))

    def ref(x, lo=None, hi=None):
        # The specification gives the omitted bounds the defaults
        # numeric_limits::lowest() / max(), so infinities are clipped to them.
        info = np.finfo(x.dtype) if np.issubdtype(x.dtype, np.floating) else np.iinfo(x.dtype)
        y = np.maximum(x, lo if lo is not None else info.min)
        y = np.minimum(y, hi if hi is not None else info.max)
        return y.astype(x.dtype)
    return g.node("Clip", [x, lo, hi], ref)


@op("PRelu", tol="exact")
def mk_prelu(g):
    x = g.pick(dt=F)
    # slope must be unidirectionally broadcastable to x
    sshape = tuple(1 if g.rng.chance(1, 3) else d for d in x.shape[max(0, x.rank - g.rng.range(0, x.rank)):])
    slope = g.pick(dt=F, shape=sshape)
    return g.node("PRelu", [x, slope], lambda x, s: np.where(x < 0, x * s, x).astype(np.float32))


# ------------------------------------------------------------------ binary

def _binary(name, fn, dts, tol="exact", out_bool=False, nonzero_b=False, c15=True):
    def make(g):
        a = g.pick(dt=dts)
        kw = {"nonzero": True} if nonzero_b else {}
        if g.rng.chance(1, 6):
            # single-element operands of assorted ranks, in both positions
            a = g.pick(dt=a.dt, shape=g.rng.choose([(), (1,), (1, 1), (2,)]), fresh=True, **kw)
            b = g.pick(dt=a.dt, shape=g.rng.choose([(), (1,), (1, 1), (1, 1, 1)]), fresh=True, **kw)
        elif g.rng.chance(1, 3):
            b = g.pick(dt=a.dt, shape=a.shape, **kw)
        else:
            b = g.pick(dt=a.dt, shape=bshape(g, a.shape), **kw)
        if g.rng.bool():
            pass
        ins = [a, b] if g.rng.bool() or name in ("Sub", "Div", "Pow", "Mod", "Less", "Greater", "LessOrEqual", "GreaterOrEqual") else [b, a]
        return g.node(name, ins, fn)
    OPS[name] = dict(make=make, tol=tol, c15=c15, weight=2, name=name)


def _int_div(a, b):
    if np.issubdtype(a.dtype, np.integer):
        if np.any(b == 0):
            raise Invalid("integer division by zero")
        q = np.abs(a.astype(np.int64)) // np.abs(b.astype(np.int64))
        return (q * np.sign(a.astype(np.int64)) * np.sign(b.astype(np.int64))).astype(a.dtype)
    return (a / b).astype(a.dtype)


_binary("Add", lambda a, b: a + b, NUM)
_binary("Sub", lambda a, b: a - b, NUM)
_binary("Mul", lambda a, b: a * b, NUM)
_binary("Div", _int_div, NUM, tol="math", nonzero_b=True)
_binary("Equal", lambda a, b: a == b, NUM + ("bool",), out_bool=True)
_binary("Greater", lambda a, b: a > b, NUM)
_binary("GreaterOrEqual", lambda a, b: a >= b, NUM)
_binary("Less", lambda a, b: a < b, NUM)
_binary("LessOrEqual", lambda a, b: a <= b, NUM)
_binary("And", lambda a, b: a & b, ("bool",))
_binary("Or", lambda a, b: a | b, ("bool",))
_binary("Xor", lambda a, b: a ^ b, ("bool",))


@op("Pow", tol="math")
def mk_pow(g):
    a = g.pick(dt=("f32", "i32"), positive=True)
    if a.dt == "i32" and g.rng.chance(1, 3):
        # Mixed types: the result has the type of the base (small integral
        # exponents keep the reference exact).
        b = g.const("f32", g.rng.array("i32", bshape(g, a.shape), lo=0, hi=3).astype(np.float32))
        return g.node("Pow", [a, b], lambda a, b: np.power(a.astype(np.float64), b.astype(np.float64)).astype(np.int32), out_dts=["i32"])
    if a.dt == "i32":
        b = g.const("i32", g.rng.array("i32", bshape(g, a.shape), lo=0, hi=3))
        return g.node("Pow", [a, b], lambda a, b: np.power(a.astype(np.int64), b.astype(np.int64)).astype(np.int32))
    b = g.pick(dt=F, shape=bshape(g, a.shape), lo=-2.0, hi=3.0)
    return g.node("Pow", [a, b], lambda a, b: np.power(a.astype(np.float64), b.astype(np.float64)).astype(np.float32))


@op("Mod", tol="exact")
def mk_mod(g):
    fmod = int(g.rng.bool())
    dt = g.rng.choose(["i32", "i64"] if not fmod else ["f32", "i32"])
    a = g.pick(dt=dt)
    b = g.pick(dt=dt, shape=bshape(g, a.shape), nonzero=True)

    def ref(a, b):
        if np.issubdtype(a.dtype, np.integer) and np.any(b == 0):
            raise Invalid("mod by zero")
        return (np.fmod(a, b) if fmod else np.mod(a, b)).astype(a.dtype)
    return g.node("Mod", [a, b], ref, {"fmod": fmod} if fmod or g.rng.bool() else {})


@op("Where", tol="exact")
def mk_where(g):
    x = g.pick(dt=NUM)
    y = g.pick(dt=x.dt, shape=bshape(g, x.shape))
    cshape = bshape(g, x.shape)
    c = g.pick(dt=("bool",), shape=cshape)
    return g.node("Where", [c, x, y], lambda c, x, y: np.where(c, x, y))


def _variadic(name, fn, dts, tol="exact"):
    def make(g):
        a = g.pick(dt=dts)
        n = g.rng.range(1, 3)
        ins = [a] + [g.pick(dt=a.dt, shape=bshape(g, a.shape)) for _ in range(n - 1)]
        ins = g.rng.shuffle(ins)

        def ref(*xs):
            acc = xs[0]
            for x in xs[1:]:
                acc = fn(acc, x)
            return (acc / np.float32(len(xs))).astype(np.float32) if name == "Mean" else acc
        return g.node(name, ins, ref)
    OPS[name] = dict(make=make, tol=tol, c15=True, weight=1, name=name)


_variadic("Max", np.maximum, ("f32", "i32"))
_variadic("Min", np.minimum, ("f32", "i32"))
_variadic("Sum", lambda a, b: a + b, ("f32",), tol="accum")
_variadic("Mean", lambda a, b: a + b, ("f32",), tol="accum")


# ------------------------------------------------------------------ reductions

def _axes(g, rank, allow_empty=True):
    r = g.rng
    if rank == 0:
        return []
    k = r.range(0 if allow_empty else 1, rank)
    axes = r.shuffle(list(range(rank)))[:k]
    return [a - rank if r.chance(1, 3) else a for a in axes]


def _reduce(name, fn, dts=("f32",), tol="accum", int_ok=False, positive=False):
    def make(g):
        kw = {"positive": True} if positive else {}
        x = g.pick(dt=dts if not int_ok else dts + ("i32",), **kw)
        axes = _axes(g, x.rank)
        keep = int(g.rng.bool())
        # With noop_with_empty_axes the specification's wording changed between
        # versions for reductions that apply an elementwise pre/post step
        # (L1, L2, SumSquare, LogSum, LogSumExp): only use it where "no
        # reduction" and "identity" coincide.
        noop = int(g.rng.chance(1, 4)) if name in ("ReduceSum", "ReduceMean", "ReduceMax", "ReduceMin", "ReduceProd") else 0
        axes_as_input = name == "ReduceSum" or g.opset >= 18
        attrs = {}
        if keep == 0 or g.rng.bool():
            attrs["keepdims"] = keep

        def ref(x, ax_in=None):
            ax = axes
            if len(ax) == 0:
                if noop and axes_as_input:
                    return x
                ax_t = tuple(range(x.ndim))
            else:
                ax_t = tuple(a % x.ndim for a in ax)
            if x.ndim == 0:
                ax_t = ()
            y = fn(x.astype(np.float64) if x.dtype == np.float32 else x.astype(np.int64), ax_t, bool(keep))
            return np.asarray(y).astype(x.dtype)
        if axes_as_input:
            if noop:
                attrs["noop_with_empty_axes"] = 1
            if len(axes) == 0 and g.rng.bool() and not noop:
                ins = [x]
            else:
                ins = [x, g.const("i64", i64(*axes))]
        else:
            if len(axes):
                attrs["axes"] = list(axes)
            ins = [x]
        return g.node(name, ins, ref, attrs)
    OPS[name] = dict(make=make, tol=tol, c15=True, weight=1, name=name)


_reduce("ReduceSum", lambda x, ax, k: np.sum(x, axis=ax, keepdims=k), int_ok=True)
_reduce("ReduceMean", lambda x, ax, k: np.mean(x, axis=ax, keepdims=k))
_reduce("ReduceMax", lambda x, ax, k: np.max(x, axis=ax, keepdims=k), tol="exact", int_ok=True)
_reduce("ReduceMin", lambda x, ax, k: np.min(x, axis=ax, keepdims=k), tol="exact", int_ok=True)
_reduce("ReduceProd", lambda x, ax, k: np.prod(x, axis=ax, keepdims=k), int_ok=False)
_reduce("ReduceL1", lambda x, ax, k: np.sum(np.abs(x), axis=ax, keepdims=k))
_reduce("ReduceL2", lambda x, ax, k: np.sqrt(np.sum(x * x, axis=ax, keepdims=k)))
_reduce("ReduceSumSquare", lambda x, ax, k: np.sum(x * x, axis=ax, keepdims=k))
_reduce("ReduceLogSum", lambda x, ax, k: np.log(np.sum(x, axis=ax, keepdims=k)), positive=True)
_reduce("ReduceLogSumExp", lambda x, ax, k: np.log(np.sum(np.exp(x), axis=ax, keepdims=k)))


def _arg(name, fn):
    def make(g):
        x = g.pick(dt=("f32", "i32"), pred=lambda v: v.rank >= 1 and v.arr.size > 0)
        axis = g.rng.range(-x.rank, x.rank - 1)
        keep = int(g.rng.bool())
        last = int(g.rng.chance(1, 3))
        attrs = {"axis": axis}
        if keep == 0 or g.rng.bool():
            attrs["keepdims"] = keep
        if last:
            attrs["select_last_index"] = 1

        def ref(x):
            ax = axis % x.ndim
            if x.dtype == np.float32 and np.isnan(x).any():
                raise Invalid("NaN ordering in ArgMax/ArgMin is not specified")
            if last:
                xr = np.flip(x, axis=ax)
                r = x.shape[ax] - 1 - fn(xr, axis=ax)
            else:
                r = fn(x, axis=ax)
            if keep:
                r = np.expand_dims(r, ax)
            return r.astype(np.int64)
        return g.node(name, [x], ref, attrs)
    OPS[name] = dict(make=make, tol="exact", c15=True, weight=1, name=name)


_arg("ArgMax", np.argmax)
_arg("ArgMin", np.argmin)


@op("CumSum", tol="accum")
def mk_cumsum(g):
    x = g.pick(dt=("f32", "i32"), pred=lambda v: v.rank >= 1)
    axis = g.rng.range(-x.rank, x.rank - 1)
    excl = int(g.rng.chance(1, 3))
    rev = int(g.rng.chance(1, 3))
    attrs = {}
    if excl:
        attrs["exclusive"] = 1
    if rev:
        attrs["reverse"] = 1

    def ref(x, ax_in):
        ax = axis % x.ndim
        y = np.flip(x, ax) if rev else x
        c = np.cumsum(y.astype(np.float64 if x.dtype == np.float32 else np.int64), axis=ax)
        if excl:
            c = c - y
        c = np.flip(c, ax) if rev else c
        return c.astype(x.dtype)
    return g.node("CumSum", [x, g.const(g.rng.choose(["i32", "i64"]), np.array(axis))], ref, attrs)


@op("TopK", tol="exact")
def mk_topk(g):
    x = g.pick(dt=("f32", "i32"), pred=lambda v: v.rank >= 1 and v.arr.size > 0)
    axis = g.rng.range(-x.rank, x.rank - 1)
    n = x.shape[axis % x.rank]
    k = g.rng.range(0 if g.rng.chance(1, 8) else 1, n)
    largest = int(g.rng.chance(2, 3))
    attrs = {"axis": axis}
    if not largest:
        attrs["largest"] = 0

    def ref(x, kk):
        ax = axis % x.ndim
        if x.dtype == np.float32 and np.isnan(x).any():
            raise Invalid("NaN ordering unspecified")
        # Stable: ties broken by lower index first (ONNX).
        key = -x.astype(np.float64) if largest else x.astype(np.float64)
        idx = np.argsort(key, axis=ax, kind="stable")
        idx = np.take(idx, np.arange(k), axis=ax)
        vals = np.take_along_axis(x, idx, axis=ax)
        return vals, idx.astype(np.int64)
    return g.node("TopK", [x, g.const("i64", i64(k))], ref, attrs, n_out=2)


@op("NonZero", tol="exact")
def mk_nonzero(g):
    x = g.pick(dt=("f32", "i32", "bool"))
    return g.node("NonZero", [x], lambda x: np.array(np.nonzero(x), dtype=np.int64).reshape(x.ndim, -1))


# ------------------------------------------------------------------ shape / layout

@op("Shape", tol="exact", weight=2)
def mk_shape(g):
    x = g.pick(dt=NUM + ("bool",))
    attrs = {}
    start, end = 0, x.rank
    if g.opset >= 15 and g.rng.chance(1, 3):
        start = g.rng.range(-x.rank - 1, x.rank + 1)
        attrs["start"] = start
        if g.rng.bool():
            end = g.rng.range(-x.rank - 1, x.rank + 1)
            attrs["end"] = end

    def ref(x):
        r = x.ndim
        s = attrs.get("start", 0)
        e = attrs.get("end", r)
        s = max(0, min(r, s + r if s < 0 else s))
        e = max(0, min(r, e + r if e < 0 else e))
        return np.array(x.shape[s:e] if e > s else [], dtype=np.int64)
    return g.node("Shape", [x], ref, attrs)


@op("Size", tol="exact")
def mk_size(g):
    x = g.pick(dt=NUM + ("bool",))
    return g.node("Size", [x], lambda x: np.array(x.size, dtype=np.int64))


@op("Reshape", tol="exact", weight=2)
def mk_reshape(g):
    x = g.pick(dt=NUM + ("bool",))
    n = x.arr.size
    target = _factor(g, n) if n > 0 else [0] + [g.rng.range(1, 3) for _ in range(g.rng.range(0, 2))]
    allowzero = 0
    spec = list(target)
    if n > 0:
        if g.rng.chance(1, 3) and spec:
            spec[g.rng.below(len(spec))] = -1
        # 0 = copy input dim (only valid where index < rank)
        for i in range(min(len(spec), x.rank)):
            if spec[i] != -1 and spec[i] == x.shape[i] and g.rng.chance(1, 4):
                spec[i] = 0
    else:
        allowzero = 1
    attrs = {"allowzero": 1} if allowzero else {}
    return g.node("Reshape", [x, g.const("i64", i64(*spec))], lambda x, s: x.reshape(target), attrs)


def _factor(g, n):
    r = g.rng
    rest, out = n, []
    for p in (2, 3, 5, 7):
        while rest % p == 0 and r.bool():
            out.append(p)
            rest //= p
    out.append(rest)
    for _ in range(r.range(0, 1)):
        out.insert(r.below(len(out) + 1), 1)
    out = r.shuffle(out)
    if r.chance(1, 6):
        out = [n]
    return out[:5] if len(out) <= 5 else [int(np.prod(out[:len(out) - 4]))] + out[len(out) - 4:]


@op("Flatten", tol="exact")
def mk_flatten(g):
    x = g.pick(dt=NUM)
    axis = g.rng.range(-x.rank, x.rank)
    attrs = {"axis": axis} if axis != 1 or g.rng.bool() else {}

    def ref(x):
        ax = axis + x.ndim if axis < 0 else axis
        a = int(np.prod(x.shape[:ax])) if ax > 0 else 1
        return x.reshape(a, -1) if x.size else x.reshape(a, int(np.prod(x.shape[ax:])))
    return g.node("Flatten", [x], ref, attrs)


@op("Squeeze", tol="exact")
def mk_squeeze(g):
    x = g.pick(dt=NUM, pred=lambda v: 1 in v.shape)
    ones = [i for i, d in enumerate(x.shape) if d == 1]
    if g.rng.chance(1, 4):
        return g.node("Squeeze", [x], lambda x, a=None: np.squeeze(x))
    k = g.rng.range(1, len(ones))
    axes = g.rng.shuffle(ones)[:k]
    axes_s = [a - x.rank if g.rng.chance(1, 3) else a for a in axes]
    return g.node("Squeeze", [x, g.const("i64", i64(*axes_s))], lambda x, a: np.squeeze(x, axis=tuple(axes)))


@op("Unsqueeze", tol="exact", weight=2)
def mk_unsqueeze(g):
    x = g.pick(dt=NUM + ("bool",), pred=lambda v: v.rank <= 3)
    k = g.rng.range(1, 2)
    out_rank = x.rank + k
    axes = sorted(g.rng.shuffle(list(range(out_rank)))[:k])
    axes_s = [a - out_rank if g.rng.chance(1, 3) else a for a in axes]
    axes_s = g.rng.shuffle(axes_s)

    def ref(x, a):
        y = x
        for ax in axes:
            y = np.expand_dims(y, ax)
        return y
    return g.node("Unsqueeze", [x, g.const("i64", i64(*axes_s))], ref)


@op("Transpose", tol="exact", weight=2)
def mk_transpose(g):
    x = g.pick(dt=NUM + ("bool",))
    if g.rng.chance(1, 4):
        return g.node("Transpose", [x], lambda x: np.transpose(x))
    perm = g.rng.shuffle(list(range(x.rank)))
    return g.node("Transpose", [x], lambda x: np.transpose(x, perm), {"perm": perm})


@op("Expand", tol="exact")
def mk_expand(g):
    x = g.pick(dt=NUM)
    shape = list(x.shape)
    for i, d in enumerate(shape):
        if d == 1 and g.rng.bool():
            shape[i] = g.rng.range(1, 3)
        elif g.rng.chance(1, 4):
            shape[i] = 1  # 1 in the target keeps the input dim
    for _ in range(g.rng.range(0, 2)):
        if len(shape) < 5:
            shape.insert(0, g.rng.range(1, 3))
    if g.rng.chance(1, 5) and len(shape) > 0:
        shape = shape[g.rng.range(0, len(shape)):]  # lower-rank target

    def ref(x, s):
        return x * np.ones(shape, dtype=x.dtype) if x.dtype != np.bool_ else np.broadcast_to(x, np.broadcast_shapes(x.shape, tuple(shape))).copy()
    return g.node("Expand", [x, g.const("i64", i64(*shape))], ref)


@op("Tile", tol="exact")
def mk_tile(g):
    x = g.pick(dt=NUM, pred=lambda v: v.arr.size <= 64)
    reps = [g.rng.range(0 if g.rng.chance(1, 12) else 1, 3) for _ in range(x.rank)]
    return g.node("Tile", [x, g.const("i64", i64(*reps))], lambda x, r: np.tile(x, reps))


@op("Concat", tol="exact", weight=2)
def mk_concat(g):
    x = g.pick(dt=NUM, pred=lambda v: v.rank >= 1)
    axis = g.rng.range(-x.rank, x.rank - 1)
    ax = axis % x.rank
    n = g.rng.range(1, 3)
    ins = [x]
    for _ in range(n - 1):
        if g.rng.chance(1, 4):
            ins.append(x)  # same value twice
        else:
            s = list(x.shape)
            s[ax] = g.rng.range(0 if g.rng.chance(1, 8) else 1, 3)
            ins.append(g.pick(dt=x.dt, shape=tuple(s)))
    ins = g.rng.shuffle(ins)
    return g.node("Concat", ins, lambda *xs: np.concatenate(xs, axis=ax), {"axis": axis})


@op("Split", tol="exact")
def mk_split(g):
    x = g.pick(dt=NUM, pred=lambda v: v.rank >= 1 and max(v.shape) >= 2)
    cands = [i for i, d in enumerate(x.shape) if d >= 2]
    ax = g.rng.choose(cands)
    axis = ax - x.rank if g.rng.bool() else ax
    n = x.shape[ax]
    k = g.rng.range(2, min(3, n))
    cuts = sorted(g.rng.shuffle(list(range(1, n)))[:k - 1])
    sizes = [b - a for a, b in zip([0] + cuts, cuts + [n])]
    attrs = {"axis": axis}
    equal = all(s == sizes[0] for s in sizes)
    if equal and g.rng.bool():
        ins = [x]
        if g.opset >= 18:
            attrs["num_outputs"] = k
    else:
        ins = [x, g.const("i64", i64(*sizes))]
    return g.node("Split", ins, lambda x, s=None: tuple(np.split(x, np.cumsum(sizes)[:-1], axis=ax)), attrs, n_out=k)


@op("Slice", tol="exact", weight=3)
def mk_slice(g):
    x = g.pick(dt=NUM, pred=lambda v: v.rank >= 1)
    k = g.rng.range(1, x.rank)
    axes = g.rng.shuffle(list(range(x.rank)))[:k]
    starts, ends, steps, sl = [], [], [], [slice(None)] * x.rank
    for a in axes:
        d = x.shape[a]
        step = g.rng.choose([1, 1, 1, 2, 3, -1, -2])
        s = g.rng.range(-d - 2, d + 2)
        e = g.rng.choose([g.rng.range(-d - 2, d + 2), 2**31 - 1, -(2**31), 2**62, -(2**62)])
        starts.append(s)
        ends.append(e)
        steps.append(step)
        sl[a] = slice(s, e, step)
    axes_s = [a - x.rank if g.rng.chance(1, 3) else a for a in axes]
    idt = g.rng.choose(["i64", "i32"]) if all(abs(e) < 2**31 for e in ends) else "i64"
    ins = [x, g.const(idt, np.array(starts)), g.const(idt, np.array(ends))]
    form = g.rng.below(3)
    if form == 0 and sorted(axes) == list(range(k)) and axes == sorted(axes) and all(s == 1 for s in steps):
        pass  # axes and steps omitted
    elif form == 1 and all(s == 1 for s in steps):
        ins.append(g.const(idt, np.array(axes_s)))
    else:
        ins.append(g.const(idt, np.array(axes_s)))
        ins.append(g.const(idt, np.array(steps)))
    if len(ins) == 3 and not (axes == list(range(k))):
        ins.append(g.const(idt, np.array(axes_s)))
    return g.node("Slice", ins, lambda x, *_: x[tuple(sl)])


@op("Gather", tol="exact", weight=2)
def mk_gather(g):
    x = g.pick(dt=NUM, pred=lambda v: v.rank >= 1 and min(v.shape) >= 1)
    axis = g.rng.range(-x.rank, x.rank - 1)
    d = x.shape[axis % x.rank]
    ishape = g.rng.shape(max_rank=2, max_dim=3)
    idx = g.rng.g.integers(-d, d, size=ishape)
    idt = g.rng.choose(["i64", "i32"])
    iv = g.const(idt, idx) if g.rng.bool() else g.add_input(idt, idx)
    return g.node("Gather", [x, iv], lambda x, i: np.take(x, np.where(i < 0, i + d, i), axis=axis % x.ndim), {"axis": axis} if axis != 0 or g.rng.bool() else {})


@op("GatherElements", tol="exact")
def mk_gather_elements(g):
    x = g.pick(dt=NUM, pred=lambda v: v.rank >= 1 and min(v.shape) >= 1)
    axis = g.rng.range(-x.rank, x.rank - 1)
    ax = axis % x.rank
    ishape = list(x.shape)
    ishape[ax] = g.rng.range(1, 3)
    for i in range(x.rank):
        if i != ax and g.rng.chance(1, 3):
            ishape[i] = g.rng.range(1, x.shape[i])
    d = x.shape[ax]
    idx = g.rng.g.integers(-d, d, size=ishape)
    iv = g.add_input("i64", idx) if g.rng.bool() else g.const("i64", idx)

    def ref(x, i):
        ii = np.where(i < 0, i + d, i)
        xs = x[tuple(slice(0, s) if k != ax else slice(None) for k, s in enumerate(ii.shape))]
        return np.take_along_axis(xs, ii, axis=ax)
    return g.node("GatherElements", [x, iv], ref, {"axis": axis})


@op("GatherND", tol="exact")
def mk_gathernd(g):
    x = g.pick(dt=NUM, pred=lambda v: v.rank >= 1 and min(v.shape) >= 1)
    bd = g.rng.range(0, min(1, x.rank - 1)) if g.rng.chance(1, 3) else 0
    k = g.rng.range(1, x.rank - bd)
    batch = list(x.shape[:bd])
    mid = g.rng.shape(max_rank=1, max_dim=3)
    ishape = batch + list(mid) + [k]
    idx = np.zeros(ishape, dtype=np.int64)
    for j in range(k):
        d = x.shape[bd + j]
        idx[..., j] = g.rng.g.integers(-d, d, size=ishape[:-1])

    def ref(x, idx):
        out_shape = list(idx.shape[:-1]) + list(x.shape[bd + k:])
        out = np.zeros(out_shape, dtype=x.dtype)
        for pos in np.ndindex(*idx.shape[:-1]):
            b = pos[:bd]
            ind = tuple(int(v) + (x.shape[bd + j] if v < 0 else 0) for j, v in enumerate(idx[pos]))
            out[pos] = x[b + ind]
        return out
    return g.node("GatherND", [x, g.const("i64", idx)], ref, {"batch_dims": bd} if bd or g.rng.bool() else {})


def _scatter_reduce(red, a, b):
    if red == "add":
        return a + b
    if red == "mul":
        return a * b
    if red == "max":
        return max(a, b)
    if red == "min":
        return min(a, b)
    return b


@op("ScatterElements", tol="exact")
def mk_scatter_elements(g):
    x = g.pick(dt=("f32", "i32"), pred=lambda v: v.rank >= 1 and min(v.shape) >= 1)
    axis = g.rng.range(-x.rank, x.rank - 1)
    ax = axis % x.rank
    ishape = [g.rng.range(1, d) for d in x.shape]
    d = x.shape[ax]
    red = g.rng.choose(["none", "none", "add", "mul", "max", "min"])
    if g.opset < 18 and red in ("max", "min"):
        red = "add"
    if g.opset < 16:
        red = "none"
    if red == "none":
        # duplicate indices make the result order-dependent: use distinct indices per line
        idx = np.zeros(ishape, dtype=np.int64)
        it = np.nditer(np.zeros([s for i, s in enumerate(ishape) if i != ax] or [1]), flags=["multi_index"])
        for _ in it:
            mi = list(it.multi_index) if x.rank > 1 else []
            perm = g.rng.g.permutation(d)[:ishape[ax]]
            sl = tuple(mi[:ax] + [slice(None)] + mi[ax:]) if x.rank > 1 else (slice(None),)
            idx[sl] = perm
    else:
        idx = g.rng.g.integers(0, d, size=ishape)
    neg = g.rng.g.integers(0, 4, size=ishape) == 0
    idx_s = np.where(neg, idx - d, idx)
    upd = g.pick(dt=x.dt, shape=tuple(ishape))

    def ref(x, i, u):
        y = x.copy()
        for pos in np.ndindex(*i.shape):
            t = list(pos)
            t[ax] = int(i[pos]) % d
            y[tuple(t)] = _scatter_reduce(red, y[tuple(t)], u[pos])
        return y
    attrs = {"axis": axis}
    if red != "none":
        attrs["reduction"] = red
    return g.node("ScatterElements", [x, g.const("i64", idx_s), upd], ref, attrs)


@op("ScatterND", tol="exact")
def mk_scatternd(g):
    x = g.pick(dt=("f32", "i32"), pred=lambda v: v.rank >= 1 and min(v.shape) >= 1)
    k = g.rng.range(1, x.rank)
    red = g.rng.choose(["none", "none", "add", "mul"]) if g.opset >= 16 else "none"
    n_upd = g.rng.range(1, 3)
    # distinct index tuples for 'none'
    all_idx = list(np.ndindex(*x.shape[:k]))
    chosen = [all_idx[i] for i in g.rng.g.permutation(len(all_idx))[:n_upd]] if red == "none" else [g.rng.choose(all_idx) for _ in range(n_upd)]
    idx = np.array(chosen, dtype=np.int64).reshape(len(chosen), k)
    upd = g.pick(dt=x.dt, shape=(len(chosen),) + tuple(x.shape[k:]))

    def ref(x, i, u):
        y = x.copy()
        for j in range(i.shape[0]):
            t = tuple(int(v) for v in i[j])
            if red == "none":
                y[t] = u[j]
            elif red == "add":
                y[t] = y[t] + u[j]
            else:
                y[t] = y[t] * u[j]
        return y
    return g.node("ScatterND", [x, g.const("i64", idx), upd], ref, {"reduction": red} if red != "none" else {})


@op("Pad", tol="exact")
def mk_pad(g):
    mode = g.rng.choose(["constant", "constant", "reflect", "edge"])
    x = g.pick(dt=("f32", "i32"), pred=lambda v: v.rank >= 1 and (mode == "constant" or min(v.shape) >= 2))
    pads_b = [g.rng.range(0, 2) for _ in range(x.rank)]
    pads_e = [g.rng.range(0, 2) for _ in range(x.rank)]
    if mode == "reflect":
        pads_b = [min(p, d - 1) for p, d in zip(pads_b, x.shape)]
        pads_e = [min(p, d - 1) for p, d in zip(pads_e, x.shape)]
    if mode == "constant" and g.rng.chance(1, 4):
        # negative pads crop
        pads_b = [-(g.rng.range(0, 1)) if d >= 3 and g.rng.bool() else p for p, d in zip(pads_b, x.shape)]
    cval = None
    ins = [x, g.const("i64", i64(*(pads_b + pads_e)))]
    if mode == "constant" and g.rng.bool():
        cval = g.const(x.dt, g.rng.array(x.dt, ()))
        ins.append(cval)

    def ref(x, p, c=None):
        y = x
        # crop for negative pads first
        sl = tuple(slice(-b if b < 0 else 0, (e if e < 0 else None)) for b, e in zip(pads_b, pads_e))
        y = y[sl]
        pw = [(max(b, 0), max(e, 0)) for b, e in zip(pads_b, pads_e)]
        if mode == "constant":
            return np.pad(y, pw, mode="constant", constant_values=(c if c is not None else 0))
        return np.pad(y, pw, mode=mode)
    return g.node("Pad", ins, ref, {"mode": mode} if mode != "constant" or g.rng.bool() else {})


@op("Trilu", tol="exact")
def mk_trilu(g):
    x = g.pick(dt=("f32", "i32"), pred=lambda v: v.rank >= 2)
    upper = int(g.rng.bool())
    k = g.rng.range(-3, 3)
    ins = [x] + ([g.const("i64", np.array(k))] if k != 0 or g.rng.bool() else [])
    kk = k if len(ins) == 2 else 0
    return g.node("Trilu", ins, lambda x, _k=None: (np.triu(x, kk) if upper else np.tril(x, kk)), {"upper": upper} if not upper or g.rng.bool() else {})


@op("Range", tol="exact")
def mk_range(g):
    dt = g.rng.choose(["i64", "i32", "f32"])
    start = g.rng.range(-4, 4)
    delta = g.rng.choose([1, 2, 3, -1, -2])
    n = g.rng.range(0, 5)
    limit = start + delta * n - (0 if g.rng.bool() else int(np.sign(delta)) * 0)
    if dt == "f32":
        s, l, d = np.float32(start), np.float32(limit) + np.float32(0.5 * np.sign(delta)) * np.float32(g.rng.bool()), np.float32(delta)
    else:
        s, l, d = start, limit, delta

    def ref(s, l, d):
        cnt = max(int(np.ceil((float(l) - float(s)) / float(d))), 0)
        return (s + np.arange(cnt) * d).astype(np.asarray(s).dtype)
    return g.node("Range", [g.const(dt, np.array(s)), g.const(dt, np.array(l)), g.const(dt, np.array(d))], ref)


@op("OneHot", tol="exact")
def mk_onehot(g):
    ishape = g.rng.shape(max_rank=2, max_dim=3)
    depth = g.rng.range(1, 4)
    idx = g.rng.g.integers(-depth, depth, size=ishape)
    axis = g.rng.range(-len(ishape) - 1, len(ishape))
    vdt = g.rng.choose(["f32", "i32"])
    vals = g.rng.array(vdt, (2,))
    indices = g.add_input("i64", idx) if g.rng.bool() else g.const("i64", idx)

    def ref(i, d, v):
        ii = np.where(i < 0, i + depth, i)
        oh = (np.arange(depth) == ii[..., None])
        out = np.where(oh, v[1], v[0]).astype(v.dtype)
        ax = axis + i.ndim + 1 if axis < 0 else axis
        return np.moveaxis(out, -1, ax)
    return g.node("OneHot", [indices, g.const("i64", np.array(depth)), g.const(vdt, vals)], ref, {"axis": axis} if axis != -1 or g.rng.bool() else {})


@op("EyeLike", tol="exact")
def mk_eyelike(g):
    x = g.pick(dt=("f32", "i32"), rank=2)
    k = g.rng.range(-2, 2)
    return g.node("EyeLike", [x], lambda x: np.eye(x.shape[0], x.shape[1], k=k, dtype=x.dtype), {"k": k} if k or g.rng.bool() else {})


@op("ConstantOfShape", tol="exact")
def mk_constant_of_shape(g):
    shape = g.rng.shape(max_rank=3, max_dim=3, allow_zero=True)
    vdt = g.rng.choose(["f32", "i32", "i64"])
    attrs = {}
    val = np.zeros((1,), dtype=np.float32)
    if g.rng.chance(2, 3):
        val = g.rng.array(vdt, (1,))
        attrs["value"] = val
    sv = g.const("i64", i64(*shape))
    return g.node("ConstantOfShape", [sv], lambda s: np.full(tuple(int(v) for v in s), val[0], dtype=val.dtype), attrs)


@op("Cast", tol="exact", weight=2, cases=4)
def mk_cast(g):
    if g.rng.chance(1, 4):
        # 8-bit sources (values representable in both u8 and i8)
        x = g.pick(dt=(g.rng.choose(["u8", "i8"]),), lo=0, hi=100)
    else:
        x = g.pick(dt=("f32", "i32", "i64", "bool"))
    to = g.rng.choose(["f32", "i32", "i64", "bool", "u8", "i8"])
    from . import pb

    def ref(x):
        if to in ("u8", "i8") and x.dtype != np.bool_:
            info = np.iinfo(pb.DT2NP[to])
            if np.issubdtype(x.dtype, np.floating):
                if not np.all(np.isfinite(x)) or np.any(x < info.min) or np.any(x > info.max):
                    raise Invalid("out-of-range cast is implementation-defined")
            elif np.any(x < info.min) or np.any(x > info.max):
                raise Invalid("out-of-range cast is implementation-defined")
        if to in ("i32", "i64") and np.issubdtype(x.dtype, np.floating):
            if not np.all(np.isfinite(x)):
                raise Invalid("non-finite float to int cast is implementation-defined")
            return np.trunc(x).astype(pb.DT2NP[to])
        if to == "bool":
            return x != 0
        return x.astype(pb.DT2NP[to])
    return g.node("Cast", [x], ref, {"to": pb.DT2ONNX[to]}, out_dts=[to])


@op("DepthToSpace", tol="exact")
def mk_depth_to_space(g):
    bs = 2
    c = 4 * g.rng.range(1, 2)
    x = g.pick(dt=F, shape=(g.rng.range(1, 2), c, g.rng.range(1, 3), g.rng.range(1, 3)))
    mode = g.rng.choose(["DCR", "CRD"])

    def ref(x):
        b, c, h, w = x.shape
        if mode == "DCR":
            t = x.reshape(b, bs, bs, c // (bs * bs), h, w).transpose(0, 3, 4, 1, 5, 2)
        else:
            t = x.reshape(b, c // (bs * bs), bs, bs, h, w).transpose(0, 1, 4, 2, 5, 3)
        return t.reshape(b, c // (bs * bs), h * bs, w * bs)
    return g.node("DepthToSpace", [x], ref, {"blocksize": bs, **({"mode": mode} if mode != "DCR" or g.rng.bool() else {})})


# ------------------------------------------------------------------ linear algebra / nn

@op("MatMul", tol="accum", weight=3)
def mk_matmul(g):
    a = g.pick(dt=F, pred=lambda v: 1 <= v.rank <= 4)
    k = a.shape[-1]
    n = g.rng.range(1, 5)
    form = g.rng.below(4)
    if form == 0 or a.rank == 1:
        bshp = (k, n) if g.rng.bool() else (k,)
    elif form == 1:
        bshp = tuple(a.shape[:-2]) + (k, n)
    elif form == 2:
        bshp = tuple(1 for _ in a.shape[:-2]) + (k, n)
    else:
        bshp = (k, n)
    b = g.pick(dt=F, shape=bshp)
    return g.node("MatMul", [a, b], lambda a, b: np.matmul(a.astype(np.float64), b.astype(np.float64)).astype(np.float32))


@op("Gemm", tol="accum")
def mk_gemm(g):
    m, k, n = g.rng.range(1, 4), g.rng.range(1, 5), g.rng.range(1, 4)
    ta, tb = int(g.rng.bool()), int(g.rng.bool())
    a = g.pick(dt=F, shape=(k, m) if ta else (m, k))
    b = g.pick(dt=F, shape=(n, k) if tb else (k, n))
    alpha = float(g.rng.choose([1.0, 0.5, -1.0, 2.0]))
    beta = float(g.rng.choose([1.0, 0.5, 0.0]))
    c = None
    if g.rng.chance(2, 3):
        c = g.pick(dt=F, shape=g.rng.choose([(m, n), (n,), (1, n), (m, 1), ()]))
    attrs = {}
    if ta:
        attrs["transA"] = 1
    if tb:
        attrs["transB"] = 1
    if alpha != 1.0:
        attrs["alpha"] = alpha
    if beta != 1.0:
        attrs["beta"] = beta

    def ref(a, b, c=None):
        aa = a.T if ta else a
        bb = b.T if tb else b
        y = alpha * (aa.astype(np.float64) @ bb.astype(np.float64))
        if c is not None:
            y = y + beta * c.astype(np.float64)
        return y.astype(np.float32)
    return g.node("Gemm", [a, b, c], ref, attrs)


def _conv_ref(x, w, b, strides, pads, dilations, group):
    n, c, h, wd = x.shape
    m, cg, kh, kw = w.shape
    pt, pl, pb_, pr = pads
    xp = np.zeros((n, c, h + pt + pb_, wd + pl + pr), dtype=np.float64)
    xp[:, :, pt:pt + h, pl:pl + wd] = x
    oh = (h + pt + pb_ - dilations[0] * (kh - 1) - 1) // strides[0] + 1
    ow = (wd + pl + pr - dilations[1] * (kw - 1) - 1) // strides[1] + 1
    if oh <= 0 or ow <= 0:
        raise Invalid("empty conv output")
    out = np.zeros((n, m, oh, ow), dtype=np.float64)
    mg = m // group
    for g_ in range(group):
        for oc in range(g_ * mg, (g_ + 1) * mg):
            for i in range(oh):
                for j in range(ow):
                    patch = xp[:, g_ * cg:(g_ + 1) * cg,
                               i * strides[0]:i * strides[0] + dilations[0] * (kh - 1) + 1:dilations[0],
                               j * strides[1]:j * strides[1] + dilations[1] * (kw - 1) + 1:dilations[1]]
                    out[:, oc, i, j] = np.sum(patch * w[oc].astype(np.float64), axis=(1, 2, 3))
    if b is not None:
        out += b.astype(np.float64).reshape(1, -1, 1, 1)
    return out


def _same_pads(in_size, k, s, d, upper=True):
    out = -(-in_size // s)
    total = max((out - 1) * s + d * (k - 1) + 1 - in_size, 0)
    lo = total // 2
    hi = total - lo
    return (lo, hi) if upper else (hi, lo)


@op("Conv", tol="accum", weight=2)
def mk_conv(g):
    r = g.rng
    group = r.choose([1, 1, 2])
    cg = r.range(1, 2)
    c = cg * group
    m = group * r.range(1, 2)
    kh, kw = r.range(1, 3), r.range(1, 3)
    h, w = r.range(kh, 6), r.range(kw, 6)
    x = g.pick(dt=F, shape=(r.range(1, 2), c, h, w))
    wt = g.pick(dt=F, shape=(m, cg, kh, kw), as_const=r.chance(2, 3))
    b = g.pick(dt=F, shape=(m,)) if r.bool() else None
    strides = [r.range(1, 2), r.range(1, 2)]
    dil = [1, 1] if r.chance(2, 3) else [r.range(1, 2), r.range(1, 2)]
    auto = r.choose(["NOTSET", "NOTSET", "SAME_UPPER", "SAME_LOWER", "VALID"])
    attrs = {}
    if strides != [1, 1] or r.bool():
        attrs["strides"] = strides
    if dil != [1, 1]:
        attrs["dilations"] = dil
    if group != 1:
        attrs["group"] = group
    if r.bool():
        attrs["kernel_shape"] = [kh, kw]
    if auto == "NOTSET":
        pads = [r.range(0, 1), r.range(0, 1), r.range(0, 1), r.range(0, 1)]
        if any(pads) or r.bool():
            attrs["pads"] = pads
    elif auto == "VALID":
        pads = [0, 0, 0, 0]
        attrs["auto_pad"] = auto
    else:
        ph = _same_pads(h, kh, strides[0], dil[0], auto == "SAME_UPPER")
        pw = _same_pads(w, kw, strides[1], dil[1], auto == "SAME_UPPER")
        pads = [ph[0], pw[0], ph[1], pw[1]]
        attrs["auto_pad"] = auto
    pads_t = (pads[0], pads[1], pads[2], pads[3])
    return g.node("Conv", [x, wt, b], lambda x, w, b=None: _conv_ref(x, w, b, strides, pads_t, dil, group).astype(np.float32), attrs)


@op("ConvTranspose", tol="accum")
def mk_conv_transpose(g):
    r = g.rng
    c, m = r.range(1, 2), r.range(1, 2)
    kh, kw = r.range(1, 3), r.range(1, 3)
    h, w = r.range(1, 4), r.range(1, 4)
    x = g.pick(dt=F, shape=(r.range(1, 2), c, h, w))
    wt = g.pick(dt=F, shape=(c, m, kh, kw), as_const=r.chance(2, 3))
    b = g.pick(dt=F, shape=(m,)) if r.bool() else None
    strides = [r.range(1, 2), r.range(1, 2)]
    pads = [0, 0, 0, 0] if r.bool() else [min(r.range(0, 1), kh - 1), min(r.range(0, 1), kw - 1), min(r.range(0, 1), kh - 1), min(r.range(0, 1), kw - 1)]
    attrs = {}
    if strides != [1, 1] or r.bool():
        attrs["strides"] = strides
    if any(pads):
        attrs["pads"] = pads

    def ref(x, w, b=None):
        n = x.shape[0]
        fh = (h - 1) * strides[0] + kh
        fw = (w - 1) * strides[1] + kw
        full = np.zeros((n, m, fh, fw), dtype=np.float64)
        for i in range(h):
            for j in range(w):
                for ic in range(c):
                    full[:, :, i * strides[0]:i * strides[0] + kh, j * strides[1]:j * strides[1] + kw] += \
                        x[:, ic, i, j].astype(np.float64)[:, None, None, None] * w[ic].astype(np.float64)[None]
        out = full[:, :, pads[0]:fh - pads[2], pads[1]:fw - pads[3]]
        if out.shape[2] <= 0 or out.shape[3] <= 0:
            raise Invalid("empty output")
        if b is not None:
            out = out + b.astype(np.float64).reshape(1, -1, 1, 1)
        return out.astype(np.float32)
    return g.node("ConvTranspose", [x, wt, b], ref, attrs)


def _pool(name, avg):
    def make(g):
        r = g.rng
        kh, kw = r.range(1, 3), r.range(1, 3)
        big = r.chance(1, 3)
        h, w = r.range(kh, 12 if big else 6), r.range(kw, 12 if big else 6)
        x = g.pick(dt=F, shape=(r.range(1, 2), r.range(1, 3), h, w))
        strides = [r.range(1, 3 if big else 2), r.range(1, 3 if big else 2)]
        pads = [0, 0, 0, 0] if r.bool() else [min(r.range(0, 1), kh - 1), min(r.range(0, 1), kw - 1), min(r.range(0, 1), kh - 1), min(r.range(0, 1), kw - 1)]
        attrs = {"kernel_shape": [kh, kw]}
        if strides != [1, 1] or r.bool():
            attrs["strides"] = strides
        if any(pads):
            attrs["pads"] = pads
        cip = 0
        ceil_mode = 1 if r.chance(1, 3) else 0
        if ceil_mode:
            attrs["ceil_mode"] = 1
        if avg and any(pads) and r.bool() and not ceil_mode:
            cip = 1
            attrs["count_include_pad"] = 1

        def out_size(n_in, p0, p1, k, s):
            if not ceil_mode:
                return (n_in + p0 + p1 - k) // s + 1
            o = -((n_in + p0 + p1 - k) // -s) + 1
            # the last window must start inside the input or its begin padding
            if (o - 1) * s >= n_in + p0:
                o -= 1
            return o

        def ref(x):
            n, c, h_, w_ = x.shape
            oh = out_size(h_, pads[0], pads[2], kh, strides[0])
            ow = out_size(w_, pads[1], pads[3], kw, strides[1])
            if oh <= 0 or ow <= 0:
                raise Invalid("empty")
            out = np.zeros((n, c, oh, ow), dtype=np.float64)
            for i in range(oh):
                for j in range(ow):
                    h0, w0 = i * strides[0] - pads[0], j * strides[1] - pads[1]
                    hs, he = max(h0, 0), min(h0 + kh, h_)
                    ws, we = max(w0, 0), min(w0 + kw, w_)
                    win = x[:, :, hs:he, ws:we].astype(np.float64)
                    if win.shape[2] == 0 or win.shape[3] == 0:
                        raise Invalid("window entirely in padding")
                    if avg:
                        denom = kh * kw if cip else win.shape[2] * win.shape[3]
                        out[:, :, i, j] = win.sum(axis=(2, 3)) / denom
                    else:
                        out[:, :, i, j] = win.max(axis=(2, 3))
            return out.astype(np.float32)
        return g.node(name, [x], ref, attrs)
    OPS[name] = dict(make=make, tol="accum" if avg else "exact", c15=True, weight=1, name=name, cases=3)


_pool("MaxPool", False)
_pool("AveragePool", True)


@op("GlobalAveragePool", tol="accum")
def mk_gap(g):
    x = g.pick(dt=F, pred=lambda v: v.rank >= 3 and v.arr.size > 0)
    return g.node("GlobalAveragePool", [x], lambda x: x.astype(np.float64).mean(axis=tuple(range(2, x.ndim)), keepdims=True).astype(np.float32))


@op("GlobalMaxPool", tol="exact")
def mk_gmp(g):
    x = g.pick(dt=F, pred=lambda v: v.rank >= 3 and v.arr.size > 0)
    return g.node("GlobalMaxPool", [x], lambda x: x.max(axis=tuple(range(2, x.ndim)), keepdims=True))


def _softmax_like(name, log):
    def make(g):
        x = g.pick(dt=F, pred=lambda v: v.rank >= 1 and v.arr.size > 0)
        axis = g.rng.range(-x.rank, x.rank - 1)
        attrs = {"axis": axis} if axis != -1 or g.rng.bool() else {}

        def ref(x):
            ax = axis % x.ndim
            z = x.astype(np.float64)
            z = z - z.max(axis=ax, keepdims=True)
            e = np.exp(z)
            s = e.sum(axis=ax, keepdims=True)
            return ((z - np.log(s)) if log else (e / s)).astype(np.float32)
        return g.node(name, [x], ref, attrs)
    OPS[name] = dict(make=make, tol="accum", c15=True, weight=2, name=name)


_softmax_like("Softmax", False)
_softmax_like("LogSoftmax", True)


@op("LayerNormalization", tol="accum")
def mk_layernorm(g):
    x = g.pick(dt=F, pred=lambda v: v.rank >= 1 and v.arr.size > 0)
    axis = g.rng.range(-x.rank, x.rank - 1)
    ax = axis % x.rank
    nshape = tuple(x.shape[ax:])
    scale = g.pick(dt=F, shape=nshape, as_const=g.rng.chance(2, 3))
    bias = g.pick(dt=F, shape=nshape, as_const=g.rng.chance(2, 3)) if g.rng.bool() else None
    eps = float(g.rng.choose([1e-5, 1e-3]))
    attrs = {"axis": axis} if axis != -1 or g.rng.bool() else {}
    if eps != 1e-5:
        attrs["epsilon"] = eps

    def ref(x, s, b=None):
        axes = tuple(range(ax, x.ndim))
        z = x.astype(np.float64)
        mean = z.mean(axis=axes, keepdims=True)
        var = ((z - mean) ** 2).mean(axis=axes, keepdims=True)
        y = (z - mean) / np.sqrt(var + np.float32(eps).astype(np.float64)) * s.astype(np.float64)
        if b is not None:
            y = y + b.astype(np.float64)
        return y.astype(np.float32)
    return g.node("LayerNormalization", [x, scale, bias], ref, attrs)


@op("BatchNormalization", tol="accum")
def mk_batchnorm(g):
    x = g.pick(dt=F, pred=lambda v: v.rank >= 2 and v.arr.size > 0)
    c = x.shape[1]
    scale, bias, mean = (g.pick(dt=F, shape=(c,), as_const=True) for _ in range(3))
    var = g.add_init("f32", g.rng.array("f32", (c,), positive=True))
    eps = float(g.rng.choose([1e-5, 1e-3]))

    def ref(x, s, b, m, v):
        sh = (1, -1) + (1,) * (x.ndim - 2)
        z = (x.astype(np.float64) - m.reshape(sh)) / np.sqrt(v.reshape(sh).astype(np.float64) + np.float32(eps).astype(np.float64))
        return (z * s.reshape(sh) + b.reshape(sh)).astype(np.float32)
    return g.node("BatchNormalization", [x, scale, bias, mean, var], ref, {"epsilon": eps} if eps != 1e-5 or g.rng.bool() else {})


@op("InstanceNormalization", tol="accum")
def mk_instnorm(g):
    x = g.pick(dt=F, pred=lambda v: v.rank >= 3 and v.arr.size > 0)
    c = x.shape[1]
    scale, bias = g.pick(dt=F, shape=(c,), as_const=True), g.pick(dt=F, shape=(c,), as_const=True)
    eps = 1e-5

    def ref(x, s, b):
        axes = tuple(range(2, x.ndim))
        z = x.astype(np.float64)
        mean = z.mean(axis=axes, keepdims=True)
        var = ((z - mean) ** 2).mean(axis=axes, keepdims=True)
        sh = (1, -1) + (1,) * (x.ndim - 2)
        return ((z - mean) / np.sqrt(var + np.float32(eps).astype(np.float64)) * s.reshape(sh) + b.reshape(sh)).astype(np.float32)
    return g.node("InstanceNormalization", [x, scale, bias], ref)


@op("LpNormalization", tol="accum")
def mk_lpnorm(g):
    x = g.pick(dt=F, pred=lambda v: v.rank >= 1 and v.arr.size > 0, nonzero=True)
    axis = g.rng.range(-x.rank, x.rank - 1)
    p = g.rng.choose([1, 2])

    def ref(x):
        z = x.astype(np.float64)
        n = np.sum(np.abs(z), axis=axis, keepdims=True) if p == 1 else np.sqrt(np.sum(z * z, axis=axis, keepdims=True))
        if np.any(n == 0):
            raise Invalid("zero norm")
        return (z / n).astype(np.float32)
    return g.node("LpNormalization", [x], ref, {"axis": axis, "p": p})


@op("Einsum", tol="accum")
def mk_einsum(g):
    r = g.rng
    eq, shapes = r.choose([
        ("ij,jk->ik", [(2, 3), (3, 4)]), ("bij,bjk->bik", [(2, 2, 3), (2, 3, 2)]), ("ij->ji", [(2, 3)]),
        ("ij->i", [(2, 3)]), ("i,i->", [(4,), (4,)]), ("ij,ij->ij", [(2, 3), (2, 3)]), ("bhqd,bhkd->bhqk", [(1, 2, 3, 2), (1, 2, 2, 2)]),
        ("i,j->ij", [(3,), (2,)]), ("ijk->kji", [(2, 3, 2)]),
    ])
    ins = [g.pick(dt=F, shape=s) for s in shapes]
    return g.node("Einsum", ins, lambda *xs: np.einsum(eq, *[x.astype(np.float64) for x in xs]).astype(np.float32), {"equation": eq})


@op("Resize", tol="math", cases=3)
def mk_resize(g):
    r = g.rng
    # Channel counts on both sides of 4 and 8: kernels process channels in groups.
    x = g.pick(dt=F, shape=(r.range(1, 2), r.choose([1, 2, 3, 4, 5, 8, 9]), r.range(1, 4), r.range(1, 4)))
    mode = r.choose(["nearest", "linear"])
    h, w = x.shape[2], x.shape[3]
    oh, ow = r.range(1, 7), r.range(1, 7)
    use_sizes = r.bool() or mode == "nearest"
    _ctm_peek = None
    if mode == "nearest":
        ctm = r.choose(["asymmetric", "half_pixel", "align_corners"])
        nm = r.choose(["floor", "round_prefer_floor", "ceil", "round_prefer_ceil"])
    else:
        ctm = r.choose(["half_pixel", "asymmetric", "align_corners", "pytorch_half_pixel"])
        nm = None
    if ctm == "align_corners" and (oh == 1 or ow == 1):
        # x_original = x_resized * (in - 1) / (out - 1) is 0/0 for out == 1
        raise Invalid("align_corners with an output of size 1 is undefined")
    if not use_sizes:
        # choose scales that give exactly (oh, ow) under floor(in * scale)
        sh_, sw_ = oh / h, ow / w
        if int(np.floor(h * np.float32(sh_))) != oh or int(np.floor(w * np.float32(sw_))) != ow:
            use_sizes = True
    attrs = {"mode": mode, "coordinate_transformation_mode": ctm}
    if nm:
        attrs["nearest_mode"] = nm

    from fractions import Fraction

    def coord(o, in_size, out_size, scale):
        if mode == "nearest" and use_sizes:
            # Exact rational arithmetic, so that ties are decided as the
            # specification (over the reals) says.
            sc = Fraction(out_size, in_size)
            if ctm == "half_pixel":
                return (Fraction(o) + Fraction(1, 2)) / sc - Fraction(1, 2)
            if ctm == "align_corners":
                return Fraction(o * (in_size - 1), out_size - 1) if out_size > 1 else Fraction(0)
            return Fraction(o) / sc
        if ctm == "half_pixel":
            return (o + 0.5) / scale - 0.5
        if ctm == "pytorch_half_pixel":
            return (o + 0.5) / scale - 0.5 if out_size > 1 else 0.0
        if ctm == "align_corners":
            return o * (in_size - 1) / (out_size - 1) if out_size > 1 else 0.0
        return o / scale

    def nearest(v, in_size):
        import math as _m
        half = Fraction(1, 2) if isinstance(v, Fraction) else 0.5
        if nm == "floor":
            i = _m.floor(v)
        elif nm == "ceil":
            i = _m.ceil(v)
        elif nm == "round_prefer_floor":
            i = _m.ceil(v - half)
        else:
            i = _m.floor(v + half)
        return int(min(max(i, 0), in_size - 1))

    def ref(x, roi=None, scales=None, sizes=None):
        sc_h = (oh / h) if use_sizes else float(np.float32(oh / h))
        sc_w = (ow / w) if use_sizes else float(np.float32(ow / w))
        out = np.zeros((x.shape[0], x.shape[1], oh, ow), dtype=np.float64)
        z = x.astype(np.float64)
        for i in range(oh):
            for j in range(ow):
                cy, cx = coord(i, h, oh, sc_h), coord(j, w, ow, sc_w)
                if mode == "nearest":
                    out[:, :, i, j] = z[:, :, nearest(cy, h), nearest(cx, w)]
                else:
                    cy_, cx_ = min(max(cy, 0), h - 1), min(max(cx, 0), w - 1)
                    y0, x0 = int(np.floor(cy_)), int(np.floor(cx_))
                    y1, x1 = min(y0 + 1, h - 1), min(x0 + 1, w - 1)
                    fy, fx = cy_ - y0, cx_ - x0
                    out[:, :, i, j] = (z[:, :, y0, x0] * (1 - fy) * (1 - fx) + z[:, :, y0, x1] * (1 - fy) * fx
                                       + z[:, :, y1, x0] * fy * (1 - fx) + z[:, :, y1, x1] * fy * fx)
        return out.astype(np.float32)
    if use_sizes:
        ins = [x, None, None, g.const("i64", i64(x.shape[0], x.shape[1], oh, ow))]
    else:
        ins = [x, None, g.const("f32", np.array([1.0, 1.0, oh / h, ow / w], dtype=np.float32))]
    return g.node("Resize", ins, ref, attrs)


# ------------------------------------------------------------------ quantization

@op("QuantizeLinear", tol="exact", c15=True, cases=3)
def mk_quantize(g):
    r = g.rng
    x = g.pick(dt=F, lo=-20.0, hi=20.0)
    zdt = r.choose(["u8", "i8"])
    from . import pb
    attrs = {}
    # Per-axis scale / zero point on a random axis, or per-tensor scalars.
    axis = None
    if x.rank >= 1 and r.chance(1, 3):
        axis = r.range(0, x.rank - 1)
        n = x.shape[axis]
        scale = g.const("f32", np.array([r.choose([0.125, 0.25, 0.5, 1.0]) for _ in range(n)], dtype=np.float32))
        zp = g.const(zdt, r.array(zdt, (n,), lo=0 if zdt == "u8" else -10, hi=20))
        attrs["axis"] = axis if r.bool() else axis - x.rank
    else:
        scale = g.const("f32", np.float32(r.choose([0.125, 0.25, 0.5, 1.0])))
        zp = g.const(zdt, r.array(zdt, (), lo=0 if zdt == "u8" else -10, hi=20))
    out_dt = zdt
    if g.opset >= 21 and r.chance(1, 2):
        # output_dtype (opset 21): alone, or together with a zero point of the same type.
        attrs["output_dtype"] = pb.DT2ONNX[zdt]
        if r.bool():
            zp = None
        elif r.chance(1, 3):
            # Contradicting zero-point type: invalid, rten is expected to refuse it
            # (the reference follows the attribute).
            out_dt = "i8" if zdt == "u8" else "u8"
            attrs["output_dtype"] = pb.DT2ONNX[out_dt]

    def ref(x, s, z=None):
        info = np.iinfo(pb.DT2NP[out_dt])
        sh = [1] * x.ndim
        if axis is not None:
            sh[axis] = -1
        sv = np.asarray(s, dtype=np.float64).reshape(sh) if axis is not None else float(s)
        zv = 0 if z is None else (np.asarray(z, dtype=np.int64).reshape(sh) if axis is not None else int(z))
        t = x.astype(np.float64) / sv
        # exact ties only: an x/scale within rounding distance of .5 is precision dependent
        q = np.round(t) + zv   # round half to even
        if np.any(np.isnan(q)):
            raise Invalid("NaN quantisation unspecified")
        return np.clip(q, info.min, info.max).astype(pb.DT2NP[out_dt])
    return g.node("QuantizeLinear", [x, scale, zp], ref, attrs, out_dts=[out_dt])


@op("DequantizeLinear", tol="exact")
def mk_dequantize(g):
    zdt = g.rng.choose(["u8", "i8"])
    x = g.pick(dt=(zdt,))
    scale = g.const("f32", np.float32(g.rng.choose([0.125, 0.25, 0.5, 2.0])))
    zp = g.const(zdt, g.rng.array(zdt, (), lo=0 if zdt == "u8" else -10, hi=20)) if g.rng.bool() else None
    return g.node("DequantizeLinear", [x, scale, zp],
                  lambda x, s, z=None: ((x.astype(np.int32) - (int(z) if z is not None else 0)) * np.float32(s)).astype(np.float32))


@op("DynamicQuantizeLinear", tol="exact", c15=True)
def mk_dynquant(g):
    x = g.pick(dt=F, pred=lambda v: v.arr.size > 0, lo=-16.0, hi=16.0)

    def ref(x):
        if not np.all(np.isfinite(x)):
            raise Invalid("non-finite")
        mx, mn = max(float(x.max()), 0.0), min(float(x.min()), 0.0)
        scale = np.float32((np.float32(mx) - np.float32(mn)) / np.float32(255.0))
        if scale == 0:
            raise Invalid("zero scale: division by zero in the spec formula")
        zp = np.clip(np.round((0.0 - mn) / float(scale)), 0, 255)
        y = np.clip(np.round(x.astype(np.float64) / float(scale)) + zp, 0, 255).astype(np.uint8)
        # The specification does not fix the precision of x / scale: a quotient that is a
        # rounding tie in float32 but not in float64 (or vice versa) is not judged.
        y32 = np.clip(np.round(x.astype(np.float32) / scale) + np.float32(zp), 0, 255).astype(np.uint8)
        zp32 = np.clip(np.round((np.float32(0.0) - np.float32(mn)) / scale), 0, 255)
        if not np.array_equal(y, y32) or zp32 != zp:
            raise Invalid("result depends on the precision of the division")
        return y, scale, np.uint8(zp)
    return g.node("DynamicQuantizeLinear", [x], ref, n_out=3, out_dts=["u8", "f32", "u8"])


@op("MatMulInteger", tol="exact")
def mk_matmul_integer(g):
    m, k, n = g.rng.range(1, 4), g.rng.range(1, 6), g.rng.range(1, 4)
    adt = g.rng.choose(["u8", "i8"])
    bdt = g.rng.choose(["u8", "i8"])
    a = g.pick(dt=(adt,), shape=(m, k))
    b = g.pick(dt=(bdt,), shape=(k, n), as_const=g.rng.chance(2, 3))
    azp = g.const(adt, g.rng.array(adt, (), lo=0 if adt == "u8" else -10, hi=20)) if g.rng.bool() else None
    bzp = None
    if g.rng.bool():
        bzp = g.const(bdt, g.rng.array(bdt, g.rng.choose([(), (n,)]), lo=0 if bdt == "u8" else -10, hi=20))
    ins = [a, b, azp, bzp]

    def ref(a, b, az=None, bz=None):
        aa = a.astype(np.int64) - (0 if az is None else az.astype(np.int64))
        bb = b.astype(np.int64) - (0 if bz is None else bz.astype(np.int64))
        return (aa @ bb).astype(np.int32)
    return g.node("MatMulInteger", ins, ref)


@op("ConvInteger", tol="exact")
def mk_conv_integer(g):
    r = g.rng
    c, m = r.range(1, 2), r.range(1, 2)
    kh, kw = r.range(1, 2), r.range(1, 2)
    h, w = r.range(kh, 4), r.range(kw, 4)
    x = g.pick(dt=("u8",), shape=(1, c, h, w))
    wt = g.pick(dt=("i8", "u8"), shape=(m, c, kh, kw), as_const=True)
    xzp = g.const("u8", g.rng.array("u8", (), lo=0, hi=20)) if r.bool() else None
    wzp = g.const(wt.dt, np.zeros((), dtype=wt.arr.dtype) + r.range(0, 5)) if xzp is not None and r.bool() else None

    def ref(x, w, xz=None, wz=None):
        xx = x.astype(np.float64) - (0 if xz is None else float(xz))
        ww = w.astype(np.float64) - (0 if wz is None else float(wz))
        return np.round(_conv_ref(xx, ww, None, [1, 1], (0, 0, 0, 0), [1, 1], 1)).astype(np.int32)
    return g.node("ConvInteger", [x, wt, xzp, wzp], ref)


# ------------------------------------------------------------------ random (C04)

def _random(name, like):
    def make(g):
        attrs = {}
        if like:
            x = g.pick(dt=F, pred=lambda v: v.arr.size >= 16)
            ins = [x]
            shape = x.shape
        else:
            shape = (g.rng.range(2, 4), g.rng.range(8, 12))
            attrs["shape"] = list(shape)
            ins = []
        # No seed attribute: results must differ between runs.
        return g.node(name, ins, (lambda *a: np.zeros(shape, dtype=np.float32)), attrs, random=True)
    OPS[name] = dict(make=make, tol="none", c15=False, weight=0, name=name, random=True)


_random("RandomUniform", False)
_random("RandomNormal", False)
_random("RandomUniformLike", True)
_random("RandomNormalLike", True)
