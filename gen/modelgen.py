#!/usr/bin/env python3
"""Generate case packs for modelcheck.

    modelgen.py --family singleop|dag|patterns|cflow|random --n N --seed S --tier T --out DIR
"""
import argparse
import os
import sys
import time

sys.path.insert(0, os.path.dirname(os.path.abspath(__file__)))

from onnxgen import emit  # noqa: E402
from onnxgen.core import GraphBuilder, Invalid, Rng  # noqa: E402
from onnxgen.dag import build_dag  # noqa: E402
from onnxgen.ops import OPS  # noqa: E402


# Operators for which the ONNX specification does not say how NaN is ordered or
# propagated through max/min/round/compare-style steps: no NaN inputs there.
NAN_UNSPECIFIED = {"MaxPool", "GlobalMaxPool", "ReduceMax", "ReduceMin", "Max", "Min", "Clip", "TopK", "ArgMax", "ArgMin", "Relu",
                   "Round", "QuantizeLinear", "DynamicQuantizeLinear", "HardSigmoid", "HardSwish", "Sign", "Cast", "Where", "PRelu",
                   "LeakyRelu", "Elu", "Gelu", "Pow", "Mod", "NonZero", "Equal", "Greater", "GreaterOrEqual", "Less", "LessOrEqual",
                   "Resize", "Trilu", "Ceil", "Floor", "ScatterElements", "ScatterND"}
# Operators whose reference accumulates in f64 where rten legitimately
# overflows/propagates differently for non-finite inputs, or where a non-finite
# operand multiplied by a zero coefficient is a matter of convention (Gemm beta).
NO_SPECIAL = {"Gemm", "LayerNormalization", "InstanceNormalization", "BatchNormalization", "LpNormalization", "Softmax", "LogSoftmax",
              "ReduceLogSumExp", "ReduceLogSum", "ReduceL2", "ReduceProd", "Einsum", "MatMul", "Conv", "ConvTranspose", "AveragePool",
              "GlobalAveragePool", "ReduceMean", "ReduceSum", "ReduceL1", "ReduceSumSquare", "CumSum", "Mean", "Sum", "Range",
              # linear interpolation multiplies by zero weights: 0 * inf is NaN in the reference, skipped by rten
              "Resize"}


def gen_singleop(seed, n_per_op, only=None):
    recs = []
    names = sorted(OPS) if not only else only
    for oi, name in enumerate(names):
        made = 0
        attempt = 0
        # Operators with a large attribute x type grid get proportionally more cases.
        want = n_per_op * int(OPS[name].get("cases", 1))
        while made < want and attempt < want * 6:
            attempt += 1
            rng = Rng((seed * 1000003 + oi) * 100003 + attempt)
            opset = 20 if name == "Gelu" else rng.choose([13, 17, 17, 18, 21]) if name not in ("Gelu",) else 20
            if name in ("ScatterElements",) and opset < 18:
                opset = 18
            g = GraphBuilder(rng, opset=opset, mode="single")
            g.symbolic_inputs = rng.chance(1, 3)
            # (a product over thousands of elements overflows f32 where the f64 reference does not)
            g.big = rng.chance(1, 7) and name != "ReduceProd"
            try:
                out = OPS[name]["make"](g)
            except Invalid:
                continue
            except Exception as e:  # a bug in a maker should not kill the run
                print(f"maker {name} raised {type(e).__name__}: {e}", file=sys.stderr)
                continue
            outs = [o.name for o in (out if isinstance(out, (list, tuple)) else [out]) if o is not None]
            # Multi-output operators: sometimes leave earlier outputs unconnected ("" in the
            # node's output list), keeping a later one, as exporters do for unused outputs.
            omitted = []
            nd = g.nodes[-1]
            if len(outs) >= 2 and nd["outputs"] == outs and rng.chance(1, 3):
                keep_from = rng.range(1, len(outs) - 1)
                for i in range(keep_from):
                    if rng.chance(2, 3):
                        omitted.append(i)
                        nd["outputs"][i] = ""
                outs = [o for i, o in enumerate(outs) if i not in omitted]
            g.outputs = outs
            feeds0 = {n: g.vals[n].arr for n in g.inputs}
            feeds = [feeds0]
            # A second binding with special values for float inputs.
            if any(g.vals[n].dt == "f32" for n in g.inputs) and rng.bool() and name not in NO_SPECIAL:
                f2 = {}
                sp = "nonan" if name in NAN_UNSPECIFIED else True
                for n in g.inputs:
                    v = g.vals[n]
                    f2[n] = rng.array(v.dt, v.shape, special=sp) if v.dt == "f32" else v.arr
                feeds.append(f2)
            rec = emit.record(g, f"op-{name}-{seed}-{attempt}", "singleop", dict({"op": name, "opset": opset, "attrs": {k: (v if isinstance(v, (int, float, str)) else str(v)[:60]) for k, v in g.nodes[-1]["attrs"].items()}}, **({"omitted_outputs": omitted} if omitted else {})),
                              outs, feeds, tol=OPS[name]["tol"], extra={"op": name, "c15": bool(OPS[name].get("c15", True)), "random": bool(OPS[name].get("random"))})
            if rec is not None:
                recs.append(rec)
                made += 1
    return recs


def gen_dag(seed, n, allow_random=False):
    recs = []
    i = 0
    attempt = 0
    while i < n and attempt < n * 4:
        attempt += 1
        rng = Rng(seed * 7919 + attempt * 104729)
        n_ops = rng.range(2, 10)
        g = build_dag(rng, n_ops, opset=rng.choose([17, 17, 18]), allow_random=allow_random and rng.chance(1, 2))
        if g is None:
            continue
        feeds = emit.alt_bindings(g, rng, rng.range(1, 3))
        rec = emit.record(g, f"dag-{seed}-{attempt}", "random_dag", {"n_ops": len(g.nodes)}, g.outputs, feeds, tol="model")
        if rec is not None:
            recs.append(rec)
            i += 1
    return recs


def gen_fanout(seed, n):
    """Graphs in which one value has hundreds of consumers (reference counts of
    values saturate at 255), mixing in-place capable and other consumers."""
    import numpy as np
    recs = []
    for k in range(n):
        rng = Rng(seed * 15485863 + k)
        g = GraphBuilder(rng, opset=17, mode="dag", reuse_prob=(0, 1))
        x = g.add_input("f32", rng.array("f32", (3,)), [3], name="x")
        y = g.node("Relu", [x], lambda v: np.maximum(v, 0))
        fan = rng.choose([200, 254, 255, 256, 257, 300, 520])
        acc = None
        for i in range(fan):
            kind = rng.below(3)
            if kind == 0:
                c = g.node("Relu", [y], lambda v: np.maximum(v, 0))       # in-place capable
            elif kind == 1:
                c = g.node("Neg", [y], lambda v: -v)
            else:
                c = g.node("Add", [y, y], lambda a, b: a + b)
            acc = c if acc is None else g.node("Add", [acc, c], lambda a, b: a + b)
        outs = [acc.name]
        if rng.bool():
            outs.append(y.name)      # the fanned-out value is also requested
        g.outputs = outs
        feeds = [{"x": rng.array("f32", (3,))} for _ in range(2)]
        feeds[0] = {"x": g.vals["x"].arr}
        rec = emit.record(g, f"fan-{seed}-{k}", "fanout", {"fan_out": fan}, outs, feeds, tol="model")
        if rec is not None:
            recs.append(rec)
    return recs


def main():
    ap = argparse.ArgumentParser()
    ap.add_argument("--family", required=True)
    ap.add_argument("--n", type=int, default=None)
    ap.add_argument("--seed", type=int, default=1)
    ap.add_argument("--tier", default="quick")
    ap.add_argument("--out", required=True)
    ap.add_argument("--ops", default=None)
    a = ap.parse_args()
    t0 = time.time()
    os.makedirs(a.out, exist_ok=True)
    thorough = a.tier == "thorough"
    for fam in a.family.split(","):
        if fam == "singleop":
            recs = gen_singleop(a.seed, a.n or (200 if thorough else 30), a.ops.split(",") if a.ops else None)
        elif fam == "dag":
            recs = gen_dag(a.seed, a.n or (20000 if thorough else 600))
            recs += gen_fanout(a.seed, 24 if thorough else 6)
        elif fam == "dagrand":
            recs = gen_dag(a.seed + 17, a.n or (4000 if thorough else 200), allow_random=True)
        elif fam == "patterns":
            from onnxgen.patterns import gen_patterns
            recs = gen_patterns(a.seed, a.n or (40 if thorough else 6))
        elif fam == "cflow":
            from onnxgen.cflow import gen_cflow
            recs = gen_cflow(a.seed, a.n or (5000 if thorough else 300))
        else:
            raise SystemExit(f"unknown family {fam}")
        emit.write_jsonl(os.path.join(a.out, f"{fam}.jsonl"), recs)
        print(f"{fam}: {len(recs)} cases in {time.time() - t0:.1f}s", file=sys.stderr)


if __name__ == "__main__":
    main()
